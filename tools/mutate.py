#!/usr/bin/env python3
"""mutate.py <module path relative to /repo> <function name> <PID> [max] : small syntactic mutants of ONE function (comparison operators, +-1 on integer
constants, swapped min/max, // -> / avoided) are applied one at a time to a scratch worktree and the check of <PID> is run against each; prints killed /
survived.  A surviving mutant is either equivalent or points at a contract that is too weak.  Development aid (not a registered check)."""
import ast, os, subprocess, sys, tempfile, shutil, time

path, fname, pid = sys.argv[1:4]
limit = int(sys.argv[4]) if len(sys.argv) > 4 else 40
VERIF = os.path.dirname(os.path.dirname(os.path.abspath(__file__)))
src = open(os.path.join("/repo", path)).read()
tree = ast.parse(src)
fn = [n for n in ast.walk(tree) if isinstance(n, ast.FunctionDef) and n.name == fname][0]
lines = src.split("\n")
SWAP = {ast.Lt: "<=", ast.LtE: "<", ast.Gt: ">=", ast.GtE: ">", ast.Eq: "!=", ast.NotEq: "=="}
muts = []
for n in ast.walk(fn):
    if isinstance(n, ast.Compare) and len(n.ops) == 1 and type(n.ops[0]) in SWAP:
        l, r = n.left, n.comparators[0]
        if l.end_lineno == r.lineno == n.lineno:
            seg = lines[n.lineno - 1]
            between = seg[l.end_col_offset:r.col_offset]
            old = {ast.Lt: "<", ast.LtE: "<=", ast.Gt: ">", ast.GtE: ">=", ast.Eq: "==", ast.NotEq: "!="}[type(n.ops[0])]
            if between.strip() == old:
                new = seg[:l.end_col_offset] + between.replace(old, SWAP[type(n.ops[0])]) + seg[r.col_offset:]
                muts.append((n.lineno, new, "%s -> %s" % (old, SWAP[type(n.ops[0])])))
    if isinstance(n, ast.Constant) and isinstance(n.value, int) and not isinstance(n.value, bool) and n.lineno == n.end_lineno:
        seg = lines[n.lineno - 1]
        for d in (1, -1):
            new = seg[:n.col_offset] + str(n.value + d) + seg[n.end_col_offset:]
            muts.append((n.lineno, new, "%d -> %d" % (n.value, n.value + d)))
    if isinstance(n, ast.Call) and isinstance(n.func, ast.Name) and n.func.id in ("max", "min") and n.func.lineno == n.func.end_lineno:
        seg = lines[n.func.lineno - 1]
        new = seg[:n.func.col_offset] + ("min" if n.func.id == "max" else "max") + seg[n.func.end_col_offset:]
        muts.append((n.func.lineno, new, "%s -> %s" % (n.func.id, "min" if n.func.id == "max" else "max")))
    if isinstance(n, ast.BinOp) and isinstance(n.op, (ast.Add, ast.Sub)) and n.left.end_lineno == n.right.lineno == n.lineno:
        seg = lines[n.lineno - 1]
        between = seg[n.left.end_col_offset:n.right.col_offset]
        old = "+" if isinstance(n.op, ast.Add) else "-"
        if between.strip() == old:
            new = seg[:n.left.end_col_offset] + between.replace(old, "-" if old == "+" else "+") + seg[n.right.col_offset:]
            muts.append((n.lineno, new, "%s -> %s" % (old, "-" if old == "+" else "+")))
muts = muts[:limit]
print("%d mutants of %s.%s" % (len(muts), path, fname))
killed = survived = 0
for (ln, new, what) in muts:
    wt = tempfile.mkdtemp(prefix="verif-mut-", dir="/var/tmp"); os.rmdir(wt)
    out = tempfile.mkdtemp(prefix="verif-mout-", dir="/var/tmp")
    try:
        subprocess.run(["git", "-C", "/repo", "worktree", "add", "--detach", wt, "HEAD"], check=True, capture_output=True)
        ls = list(lines); ls[ln - 1] = new
        open(os.path.join(wt, path), "w").write("\n".join(ls))
        try:
            compile("\n".join(ls), path, "exec")
        except SyntaxError:
            continue
        r = subprocess.run([os.path.join(VERIF, "verif"), "check", pid, "--tier", "quick"], cwd=VERIF, capture_output=True, text=True,
                           env=dict(os.environ, VERIF_REPO=wt, VERIF_OUT=out, PYVC_RACE_MAX="0"), timeout=1200)
        k = r.returncode == 1 and "VIOLATION" in r.stdout
        killed += k; survived += (not k)
        print("%s line %d: %-12s %s   | %s" % ("KILLED  " if k else "SURVIVED", ln, what, new.strip()[:90], "" if k else ("exit=%d " % r.returncode) + " ".join(l[:60] for l in r.stdout.split("\n") if l.startswith(("UNPROVED", "CHECKER")))[:160]), flush=True)
    finally:
        subprocess.run(["git", "-C", "/repo", "worktree", "remove", "--force", wt], capture_output=True)
        shutil.rmtree(wt, ignore_errors=True); shutil.rmtree(out, ignore_errors=True)
print("killed %d, survived %d" % (killed, survived))
