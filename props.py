"""Which sidecar modules / bounded checks decide which property."""

VAL_MODS = ["c20_common", "c20_decoder_io", "c02_common", "c02_stream", "c02_sequence_header", "c02_picture", "c02_transform_data",
            "c09_picture_output", "c02_sequence"]

PROPS = {
    "C12": dict(
        modules=["c12_quantization"],
        level="proof",
        assumptions=[
            "the quantisation index is >= 0 (the bitstream can only express non-negative indices)",
        ],
        manifest=dict(
            category="proof",
            technique="contract-based deductive verification: VCs generated from the real source of quantization.py/vc2_math.sign by pyvc, discharged by z3",
            text="For ALL integers c and ALL indices i >= 0 (unbounded): sign preservation, |dequant(quant(c)) - c| < quant_factor/4, index 0 lossless, "
                 "quant_factor >= 4 and strictly increasing, inverse_quant(1, i) strictly increasing from MINIMUM_DISTINCT_QINDEX (read live). The bodies of "
                 "forward_quant/inverse_quant/quant_factor/quant_offset/sign are re-read from /repo and symbolically executed on every run, including their "
                 "implicit safety obligations (no zero divisor, no None arithmetic from a fall-through return).",
            note="Trusted: pyvc VC generator, z3; pow2 facts used as ground lemmas (each checked natively on a grid every run). Nothing of the statement is left uncovered.",
        ),
    ),
    "C13": dict(
        modules=["c13_slice_sizes"],
        level="proof",
        assumptions=[
            "component sizes and transform depths are >= 0, slice counts >= 1, slice_bytes_denominator >= 1, numerator >= 0 (what the validator enforces before these functions are reached)",
            "'disjoint, in order, covering every coefficient exactly once' is proved in its first-order form: slice 0 starts at 0, the last slice ends at the subband size, "
            "every slice is ordered, adjacent slices share their boundary (S1_tiling_*), and no coordinate lies in two slices (S1_exactly_once)",
            "'the flag is true exactly when they do': flag <=> divisibility of the four DC dimensions (S3_flag_definition, from the real body); divisibility => equal sizes at every level "
            "(S3_forward_x/y); equal sizes in the DC band => divisibility (S3_equal_implies_divisible by induction + S3_slice_size_is_real*); the last step's glue between the "
            "quantified hypothesis over the spec function slice_size and the real slice_left/right is pointwise (S3_slice_size_is_real*)",
            "the sum over a picture is expressed by the recursive spec function sum_slice_bytes (telescoping induction S4_partial_sums) and the raster numbering lemma",
        ],
        manifest=dict(
            category="proof",
            technique="contract-based deductive verification: lemmas over the real bodies of slice_sizes.py (inlined from /repo each run), induction via recursive lemmas, z3",
            text="For ALL sizes, depths, slice counts, levels and slice indices (unbounded): tiling (S1), padded-picture match for widths and heights at every level (S2), "
                 "the same-dimensions flag in both directions (S3), slice_bytes >= 0 and partial sums == floor(k*N/D) by induction (S4). Every lemma executes the real "
                 "function bodies symbolically; nonlinear steps are supplied as ground lemma instances that are themselves grid-checked natively each run.",
            note="Trusted: pyvc, z3, the ground arithmetic lemmas (div/mod/pow2 facts, grid-checked). Preconditions listed in the evidence assumptions (non-negative sizes, slice counts >= 1).",
        ),
    ),
    "C20": dict(
        modules=["c20_common", "c20_decoder_io", "c20_reader", "c20_writer", "c20_lemmas"],
        level="proof",
        assumptions=[
            "TRUSTED library model of a seekable binary file (pyvc/models.py): read(1)/tell/seek/write(single byte)/flush as documented there; bytes are 0..255; "
            "bytes skipped by seeking past EOF are unspecified in the model (real files zero-fill) and no contract refers to them",
            "TRUSTED: bytearray(b)[0] is the byte read; bytearray([x]) is a one-byte sequence holding x; list/bytearray.append appends",
            "objects that exist on entry are distinct from objects allocated during the call (allocation model: fresh references)",
            "write_bitarray and write_bytes ARE proved (loops over write_bit / write_nbits with quantified invariants: the array's bits resp. the bytes, then zero "
            "padding; OutOfRangeError iff the value is longer than the field - in particular for every negative length); TRUSTED there: a bitarray iterates as its "
            "0/1 bits, bytearray(value) as its bytes",
            "NOT proved: read_bitarray / read_bytes / try_read_bitarray (a generator expression with side effects inside the bitarray constructor: outside the "
            "verified subset) - see bounded_checks",
            "NOT proved: termination of read_uint on an endless run of 0 bits (it ends by EOF error on a finite file)",
            "the writer's round trip is stated for values written wholly inside the current bounded block (or outside any block); a write that crosses the end of a bounded block "
            "is specified only by write_bit's clause (1s accepted and dropped, 0 raises ValueError) and the common frame",
            "record_bitstream_start / record_bitstream_finish (validator side): the recording holds the bytes read since its start, with the not yet read bits of the "
            "current byte zeroed in the last recorded byte (ground lemma band_clear_low), earlier bytes untouched",
            "'both readers agree on every bit string': the validator's read_* and BitstreamReader.read_* are each proved equal to the SAME spec functions of tape and position "
            "(tbit, bitsval, ue_val/ue_end, and vbit/bitsvalb/ueb_val/ueb_end inside bounded blocks)",
        ],
        manifest=dict(
            category="proof",
            technique="contract-based deductive verification: pre/postconditions, loop invariants and frames on the real bodies of decoder/io.py, bitstream/io.py "
                      "(BitstreamReader, BitstreamWriter) and exp_golomb.py over an abstract bit-tape view; recursive lemmas for exp-Golomb decoding; z3",
            text="Every primitive of the validator's reader (16 functions), BitstreamReader (13 methods), BitstreamWriter (15 methods, incl. write_bitarray and write_bytes) and both exp-Golomb length functions "
                 "is verified against a contract on an abstract bit tape, for all values, lengths, positions and bounded-block states: readers return the spec functions "
                 "bitsval / ue_val of (tape, position) - identically for both readers, bounded and unbounded; the writer's view after write_nbits/write_uint/write_sint "
                 "satisfies the same functions of the value written, earlier bits unchanged, position advanced by exactly exp_golomb_length; out-of-range values raise "
                 "OutOfRangeError exactly when (iff) they are out of range; past the end of a bounded block reads give 1, writing 1 is accepted, writing 0 raises; "
                 "seek keeps the block limit; lemmas RT_* show any tape agreeing with the writer's view on the written bits decodes to the written value at the same positions.",
            note="Trusted: file/bytearray library models, pyvc, z3, ground bit/pow2 lemmas (grid-checked). Not proved (bounded stand-in only): the READING bitarray/bytes "
                 "primitives (write_bitarray / write_bytes are proved); writes crossing a block end beyond the per-bit rule.",
        ),
    ),
    "C02": dict(
        modules=VAL_MODS,
        level="proof",
        assumptions=[
            "first sentence only (never fails with anything but a ConformanceError): every function of decoder/stream.py, sequence_header.py, picture_syntax.py, "
            "fragment_syntax.py, transform_data_syntax.py, assertions.py (except assert_level_constraint), decoder/io.py, pseudocode/state.reset_state and "
            "pseudocode/video_parameters.py is verified against a contract with `raises ConformanceError only` plus all implicit safety obligations "
            "(key present, local bound, divisor non-zero, index in range, assert, callee precondition)",
            "second sentence (explain / offending_offset / bitstream_viewer_hint never fail): covered only by raise-site preconditions for the exceptions whose "
            "explain() constrains its arguments (ParseCodeNotAllowedInProfile, ParseCodeNotSupportedByVersion, ProfileNotSupportedByVersion, MissingNextParseOffset, "
            "the six Preset*NotSupportedByVersion classes - their index must be a member of the preset enumeration / table, i.e. must have passed the 'defined preset' "
            "check first - and the 'level recorded first' typestate for ValueNotAllowedInLevel); the string formatting itself is NOT verified (bounded/c02_explain.py "
            "evaluates explain(), offending_offset() and the viewer hint on the exceptions the corpus streams raise)",
            "picture_decode, clip/offset, idwt_pad_removal and inverse_wavelet_transform are verified (see C09); TRUSTED below them: idwt (returns a fresh array of the padded "
            "size, does not raise), delete_rows_after/delete_columns_after (slice deletion), the output callback (does not raise, does not touch the state)",
            "TRUSTED: Matcher (model M1/M2/M4), OrderedDict, allowed_values_for / ValueSet membership (C17, C18 bounded)",
            "machine arithmetic treated as mathematical: Python integers are unbounded, so + - * // % are exact; but `1 << n` and `2 ** n` are modelled as the total "
            "function pow2(n), whereas CPython raises OverflowError / MemoryError (or stalls) when n is astronomically large (e.g. a stream declaring dwt_depth = 2**70).  "
            "The property's resource bound ('declared picture sizes, transform depths, slice counts and sample depths within modest bounds') is what excludes those streams; "
            "the same input is recorded as a known finding of C25, whose statement has no such bound",
            "termination is not proved",
        ],
        manifest=dict(
            category="proof",
            technique="contract-based deductive verification: typestate contracts (which state keys are present when), effect contracts (raises only ConformanceError) and "
                      "loop invariants on the real bodies of the validator; pyvc VCs discharged by z3",
            text="About 75 validator functions are verified function by function for ALL states and byte strings: no KeyError on state[...] (typestate), no unbound local, "
                 "no zero divisor, no out-of-range index into coefficient arrays (via the C13 slice-geometry lemmas), no failing assert, and nothing but ConformanceError "
                 "escapes parse_stream.  parse_sequence is verified under the minimal precondition 'I/O initialised'.  Two genuine defects (D1 unbound local in parse_info, "
                 "D2 KeyError in fragment_header) were found by failing obligations, repaired in /repo and are recorded as fixed.",
            note="Trusted: idwt, array deletion helpers and the output callback, Matcher/OrderedDict/constraint-table models, initialize_wavelet_data and set_quant_matrix (postconditions checked by "
                 "evaluation on every run), one assumed relational postcondition of sequence_header (same bytes => same parse).  explain()/viewer-hint string formatting not verified.",
        ),
    ),
    "C10": dict(
        modules=VAL_MODS,
        only_units=["reset_state", "parse_sequence", "parse_stream", "parse_info", "init_io", "is_end_of_stream", "read_byte"],
        level="proof",
        assumptions=[
            "reset_state is verified to remove every State entry except the five that the property allows to carry over (I/O position, file, recording buffer, output callback) - "
            "the carried-over list is written from the property statement, not read from the code",
            "parse_sequence is verified under the precondition 'I/O part of the state is well-formed and no recording is in progress' ONLY: every other entry it reads was "
            "written earlier in the same call, so its verdict and effects cannot depend on earlier sequences; it re-establishes that precondition on normal return",
            "determinism: the verified functions write no module-level state (purity scan, eval fact) and module tables are only read; the output callback is assumed not to touch state",
            "NOT covered: equality of the decoded sample values themselves (idwt is trusted; C11 covers the transform)",
        ],
        manifest=dict(
            category="proof",
            technique="contract-based deductive verification: frame/ownership contract of reset_state and a minimal-precondition contract of parse_sequence (non-interference by "
                      "definedness), pyvc + z3",
            text="Independence of concatenated sequences is proved as non-interference: parse_sequence needs nothing of the incoming state but the I/O position, "
                 "reset_state provably deletes everything else, and parse_stream's loop maintains exactly that precondition.",
            note="Trusted as for C02 (idwt, callback, library models).",
        ),
    ),
    "C01": dict(
        modules=VAL_MODS,
        only_units=["read_byte", "parse_info", "assert_picture_number_incremented_as_expected", "assert_major_version_is_minimal", "fragment_header", "fragment_data",
                    "fragment_parse", "parse_sequence", "picture_header", "assert_parse_code_in_sequence", "record_bitstream_start", "record_bitstream_finish",
                    "sequence_header"],
        level="proof",
        assumptions=[
            "direction proved: ACCEPTED => structurally conformant.  Each rule of the statement is a postcondition on normal return of the function that implements it "
            "(written from the statement): sequence header first / end-of-sequence last, next/previous parse offsets equal the true distances, zero/non-zero offset rules, "
            "parse code permitted by profile and version, consecutive picture numbers mod 2^32, even first field, whole frames, initial zero-slice fragment, same picture "
            "number across fragments, contiguous raster-order slices, no picture interleaved with a fragmented picture, fragmented pictures complete at end of sequence",
            "direction NOT proved in general: conformant => accepted (only assert_picture_number_incremented_as_expected, assert_major_version_is_minimal and the I/O "
            "primitives carry exact 'raises iff' conditions); BOUNDED stand-in for it: bounded/c01_histories.py compares the real validator with a reference monitor "
            "on every ordering up to a small length over an 11-symbol unit alphabet x 12 configurations, offset / picture-number / fragment fault families, repeated "
            "headers and levels (see bounded_checks)",
            "record_bitstream_start / record_bitstream_finish (what sequence_header compares for 'byte-identical repeated sequence headers') are verified: the recording is "
            "the bytes read since its start with the unread bits of the last byte zeroed",
            "NOT established: the level's data-unit ordering pattern (Matcher is an opaque trusted model; bounded-checked under C18) and byte-identical repeated sequence "
            "headers (the comparison is executed by verified code, but equality of recorded bytes is left uninterpreted)",
            "'every rejection is a conformance error' is C02",
        ],
        manifest=dict(
            category="proof",
            technique="contract-based deductive verification: the stream-structure rules as postconditions / exact exceptional conditions of the validator functions, pyvc + z3",
            text="Necessary conditions of acceptance, for all histories of data units (unbounded): every rule listed in the assumptions holds whenever parse_sequence returns normally "
                 "(proved).  The converse direction and the level ordering patterns are covered by a bounded stand-in only: a reference monitor written from the statement "
                 "judges abstract data-unit histories and the real validator must agree in both directions (bounded/c01_histories.py).",
            note="Proved in one direction only (accepted => conformant), see assumptions; conformant => accepted, level ordering patterns and header byte-identity are "
                 "bounded-checked (exhaustive short histories x configurations, never counted as proved).",
        ),
    ),
    "C09": dict(
        modules=VAL_MODS + ["c13_slice_sizes"],
        only_units=["clip_component", "offset_component", "clip_picture", "offset_picture", "idwt_pad_removal", "inverse_wavelet_transform", "picture_decode",
                    "sample_range_after_clip_and_offset", "padded_dims_cover_picture", "picture_parse", "fragment_header", "fragment_data", "fragment_parse",
                    "parse_sequence", "picture_header",
                    # what the ASSUMED shape of idwt's result rests on: each synthesis level doubles the band, so the level-0 band of width W0 comes out
                    # 2^levels times as large - which is the padded picture only if the real subband_width / subband_height double per level (C13.S2)
                    "S2_padded_width_dc", "S2_padded_width_level", "S2_padded_height_ho", "S2_padded_height_level", "S2_padding_minimal"],
        level="proof",
        assumptions=[
            "the assumed shape of idwt's result (padded picture size = subband dimensions above the top level) is consistent with what the synthesis loops do (every "
            "level doubles the DC band) exactly when the real subband_width / subband_height double from level to level: the C13 lemmas S2_* are therefore discharged "
            "again in this check, on the same tree",
            "PROVED for all states (unbounded): picture_decode makes exactly one callback call, with state['current_picture'] (pic_num == state['picture_number'], which "
            "picture_header / fragment_header read from the stream), state['video_parameters'] and state['picture_coding_mode']; each component has exactly "
            "luma/color_diff height x width (set by the sequence header and picture coding mode: C02's set_coding_parameters contract); every sample v satisfies "
            "0 <= v <= 2**depth - 1 after clip_picture + offset_picture (quantified grid contracts on the real loops)",
            "PROVED: parse_sequence calls the callback exactly once per counted picture: g_out == old + _num_pictures_in_sequence, where the count advances once per "
            "picture_parse and once per completed fragmented picture (first fragment counted, output when the last slice arrives; the sequence cannot end in between: C01)",
            "TRUSTED: idwt returns a freshly allocated array of the padded picture size and does not raise (shape bounded-checked under C11); delete_rows_after / "
            "delete_columns_after truncate to the requested size (del a[n:]); the callback does not touch the state",
            "'in stream order' is the order of the calls, which is program order of the single verified loop",
            "'exactly once for every complete picture the stream carries': proved relative to the validator's own count of pictures in the accepted stream",
        ],
        manifest=dict(
            category="proof",
            technique="contract-based deductive verification: quantified array contracts on the clip/offset loops, size contracts on padding removal, ghost call counter "
                      "on the output callback with a loop invariant in parse_sequence; pyvc + z3",
            text="For all accepted streams: the number of callback calls equals the number of pictures counted by the validator, each call carries the picture number read "
                 "from the stream, components of exactly the header-implied size and samples within [0, 2^depth-1].",
            note="idwt's output shape and the two array-deletion helpers are assumed contracts; sample *values* are C11's subject, not this property's.",
        ),
    ),
    "C11": dict(
        modules=["c11_lifting"],
        level="proof",
        assumptions=[
            "PROVED (all even lengths, all integer contents, unbounded): lift1..lift4 against quantified contracts; a lifting step is undone by the opposite-sign step "
            "(inverse_even / inverse_odd / stage_inverse, any L, D, taps, S; the step is the opaque spec function step == (wsum + rnd(S)) // pow2(S), unfolded only inside "
            "the verification of the four lift bodies); for each of the 7 live filters, analysis followed by synthesis and synthesis followed by analysis restore "
            "the sequence (oned_roundtrip_filter_0..6 replay the call order of the real oned_analysis / oned_synthesis, certified by the call-trace ground fact)",
            "BOUNDED (not proved): the 2-D interleave/de-interleave loops, the level loops of dwt/idwt, the bit-shift pre/post scaling and the padding round trip - "
            "native round trips over the stated box (bounded_checks)",
            "BOUNDED: 'forward transform's subband shapes equal the slice geometry's subband dimensions' is checked on the same box (C13 proves the geometry itself)",
            "sequences passed to the lifting functions are plain lists of even length (the column views used vertically are covered by the bounded part only)",
        ],
        manifest=dict(
            category="proof",
            technique="contract-based deductive verification of the lifting functions (quantified array contracts, recursive spec function for the clamped weighted sum, "
                      "extensionality lemma by induction) + per-filter round-trip lemmas over the live filter table; 2-D assembly as a bounded native check",
            text="The 1-D core of the wavelet transform is proved for every even length and every integer content: each lift function computes exactly the rounded, shifted "
                 "weighted sum of its clamped neighbours on one parity, leaves the other parity untouched, and is inverted by its opposite-sign twin; for each of the 7 filters "
                 "oned_synthesis(oned_analysis(A)) == A == oned_analysis(oned_synthesis(A)).  Swapped lifts, reversed stages or a wrong tap/shift in the table break a lemma.",
            note="2-D assembly, shift handling, padding and shape agreement are only bounded-checked (7x7 filter pairs, depths 0..2 quick / 0..3 thorough, small sizes).",
        ),
    ),
    "C14": dict(
        modules=["c14_encoder"],
        level="proof",
        assumptions=[
            "PROVED (all coefficient lists of any length and content, all budgets, alignments and minimum indices; unbounded): calculate_coeffs_bits returns cbits "
            "(bits up to the last non-zero coefficient, trailing zeros free - the bounded-block semantics of C20); quantize_coeffs returns exactly forward_quant(c, "
            "max(0, q - matrix value)) per coefficient (spec function fq, tied to the real forward_quant by a quantified definition inside that verification only); "
            "quantize_to_fit returns the SMALLEST index >= minimum_qindex whose blocks, each rounded up to align_bits, total <= target_size (loop invariant over "
            "itertools.count: every smaller index exceeds the target) together with exactly the coefficients quantised at that index, for 2 (LD: Y, C) and 3 (HQ: Y, C1, C2) "
            "coefficient sets (arg_cases; callers are checked to pass 2 or 3)",
            "PROVED: make_hq_slice - each block fits the space its length field announces, fixed-size slices have fields summing to the slice size, every field in 0..255; "
            "make_ld_slice - slice_y_length is exactly the luma block's bits; get_safe_lossy_hq_slice_size_scaler - the smallest scaler >= 1 with 255*scaler >= "
            "ceil(picture_bytes/slices) - 4; calculate_hq_length_field; interleave",
            "PROVED for an arbitrary iteration of the slice loops of make_transform_data_hq_lossy / make_transform_data_ld_lossy (ghost assertions at the point where the "
            "slice is built, and the preconditions of quantize_to_fit / make_hq_slice at their call sites): the budget handed to quantize_to_fit is the slice's true "
            "budget written from the standard (HQ: its even share hq_units of picture_bytes - 4*slices in scaler-byte units; LD: 8*slice_bytes - 7 - length-field width); "
            "HQ payload units are within 0..255 for every slice once the scaler is at least the safe one (lemma hq_slice_units_fit_8_bits); the three HQ blocks fit the "
            "slice; LD: 7 + length field + luma block + colour block <= 8*slice_bytes and slice_y_length < 2**(field width) (uses lemma cbits_zero_or_at_least_4 for "
            "1-byte slices); InsufficientHQPictureBytesError is raised iff picture_bytes < 4*slices",
            "PROVED (lemma hq_total_size, via C13's telescoping sum S4_partial_sums): 4*slices + scaler*sum(hq_units) lies in (picture_bytes - scaler, picture_bytes]",
            "BOUNDED (never counted as proved): that the returned slice list consists of exactly the slices built in the loop, in raster order (hq_lossy_picture_ok / "
            "ld_lossy_picture_ok evaluate every clause of the statement on the returned TransformData), and the whole of make_transform_data_hq_lossless (nested "
            "allocating comprehension and max() over a generator: outside the verified subset)",
            "NOT covered: transform_and_slice_picture and everything above it (picture -> coefficient arrays), the serialiser that turns the slices into bits "
            "(C20/C21), termination of the itertools.count loop (it ends because quantised coefficients eventually become zero; not proved)",
            "types: coefficient values and quantisation-matrix values are lists of integers; a slice's SliceCoeffs is a 3-tuple of ComponentCoeffs (declared type list#3)",
        ],
        manifest=dict(
            category="proof",
            technique="contract-based deductive verification of encoder/pictures.py: recursive spec functions for bounded-block code lengths, an opaque spec function for "
                      "per-coefficient quantisation, lambda-array contracts for comprehensions, a minimality invariant over an unbounded counting loop, nonlinear "
                      "ground lemmas for the 8-bit bounds; pyvc + z3; whole-list postconditions as a native bounded stand-in",
            text="For ALL coefficient contents, slice counts, picture_bytes values and overrides (unbounded): quantize_to_fit picks the smallest quantisation index not below the "
                 "minimum whose coefficients fit the budget and returns exactly the coefficients quantised with it; every HQ length field is within 0..255 and the blocks fit "
                 "the fields; LD slices need no more than their computed size and their slice_y_length fits its field; the budget of every slice is its true share of "
                 "picture_bytes; the HQ total equals picture_bytes to within slice_size_scaler.  11 functions and 4 lemmas, every obligation discharged on each run.",
            note="The link 'returned list == slices built in the loop' and make_transform_data_hq_lossless are bounded stand-ins (native contract checks on generated "
                 "coefficient arrays).  Trusted: pyvc, z3, ground arithmetic lemmas (grid-checked natively each run), list/namedtuple library models.",
        ),
    ),
    "C06": dict(
        modules=["c06_stability"],
        level="proof",
        assumptions=[
            "PROVED (lemmas over the contracts of the real BitstreamReader / BitstreamWriter / validator reader, which C20 verifies against the code; all tapes, positions, "
            "widths and values, unbounded): fixed-width fields (nbits, uint_lit, bool, bytes, bitarray are the same primitive at other widths) - for n >= 0 the value read is "
            "never rejected by the writer (no_out_of_range) and a view holding that value at that position holds exactly the bits read (bits_reproduced, by induction); "
            "unsigned exp-Golomb fields outside bounded blocks - a complete code is determined by the value it decodes to: same number of pairs (= what "
            "exp_golomb_length says), same bits, same end position (stability_uint, via a closed form for the decoded value and injectivity of the data bits); signed "
            "exp-Golomb fields outside bounded blocks - magnitude code and sign bit are reproduced (stability_sint)",
            "PROVED: for a NEGATIVE width the reader returns 0 and consumes nothing while the writer rejects (0, n) - the primitives only agree if no negative width "
            "reaches them.  This is defect D3 (padding / auxiliary data with next_parse_offset < 13), repaired in /repo (known_findings.json: fixed); that no OTHER call "
            "site of bitstream/vc2.py passes a negative width is only bounded-checked (whole-stream round trips below)",
            "BOUNDED (never counted as proved): codes cut short by the end of a bounded block, bounded-block padding, the serdes framework in "
            "between (C21) and the composition over the ~40 functions of bitstream/vc2.py: whole-stream deserialise -> serialise -> deserialise round trips over "
            "generated conformant and non-conformant streams (bounded/c06_roundtrip.py, families and counts in bounded_checks)",
        ],
        manifest=dict(
            category="proof",
            technique="contract-based deductive verification: stability lemmas (read then write reproduces the bits) proved by induction over the spec functions that the "
                      "verified contracts of the real reader and writer share (pyvc + z3); whole-stream round trips of the real deserialiser/serialiser as a native bounded stand-in",
            text="For all tapes, positions and widths >= 0, writing back what the reader returned for a fixed-width field reproduces exactly the bits read and never raises "
                 "OutOfRangeError; for unsigned and signed exp-Golomb fields the code written has the same length and bits as the complete code read.  Negative widths are proved to be "
                 "the one place where reader and writer disagree (defect D3, repaired).",
            note="Bounded-block truncation, serdes and the composition over bitstream/vc2.py are bounded only (deserialise->serialise->deserialise of "
                 "generated streams incl. field- and bit-level mutations).  The lemmas rest on C20's contracts of the real functions.",
        ),
    ),
    "C07": dict(
        modules=["c07_autofill"],
        level="proof",
        assumptions=[
            "PROVED on the real autofill_picture_number, for ALL stream descriptions (any number of sequences and data units, any mixture of present / absent dictionaries and "
            "entries; unbounded): for an arbitrary data unit of an arbitrary sequence - an explicitly supplied picture number (present and not AUTO) is left unchanged; an "
            "omitted or AUTO number of a picture, or of the first fragment of a picture (fragment_slice_count 0, also when the count is omitted), becomes the previous number "
            "+ 1 modulo 2**32; of a later fragment it repeats the previous number; data units that are not pictures or fragments neither consume nor change a number; "
            "numbering restarts from initial_picture_number in every sequence; no KeyError / TypeError on any shape of description; only the five entries picture_parse, "
            "fragment_parse, picture_header, fragment_header, picture_number of any dictionary are ever written (frame)",
            "model: a picture_number entry holds an integer or the AUTO sentinel (optional int whose None is AUTO); dictionaries of the description tree have static keys; "
            "the clauses are ghost assertions at the end of the loop body (state of the data unit before vs after), not a quantified postcondition over the whole tree",
            "BOUNDED (never counted as proved): parse offsets (autofill_parse_offsets, autofill_parse_offsets_finalize: lists of index pairs, bytes payloads, writer seeks), "
            "autofill_major_version (walks ~10 dictionaries per data unit through version_constraints), defaults of omitted fields, and the end-to-end behaviour through the "
            "serialiser - see the clauses T, P, V, S, X of bounded/c07_autofill.py in bounded_checks",
        ],
        manifest=dict(
            category="proof",
            technique="contract-based deductive verification of autofill_picture_number (loop rule over the two data-unit loops, ghost snapshot of a data unit before the body, "
                      "assertions written from the statement after it, frame condition on the description tree; pyvc + z3); the other clauses as a native bounded stand-in",
            text="The picture-number clause of the statement is proved for all stream descriptions on the real function: explicit numbers unchanged, automatic numbers count up "
                 "from the previous picture modulo 2**32, repeat across the later fragments of a picture, restart per sequence; nothing else in the description is touched.",
            note="Parse offsets, major_version, defaults and the end-to-end clauses are bounded only (exhaustive small scope + seeded random descriptions, oracle from the "
                 "statement / ST 2042-1).",
        ),
    ),
    "C04": dict(
        modules=["c04_dc_prediction", "c12_quantization", "c11_lifting"],
        only_units=["apply_dc_prediction", "dc_prediction", "dc_roundtrip", "Q2_index0_lossless",
                    "oned_roundtrip_filter_0", "oned_roundtrip_filter_1", "oned_roundtrip_filter_2", "oned_roundtrip_filter_3", "oned_roundtrip_filter_4",
                    "oned_roundtrip_filter_5", "oned_roundtrip_filter_6"],
        level="proof",
        assumptions=[
            "PROVED (bands of any size, any integer content; unbounded): the decoder's dc_prediction undoes the encoder's apply_dc_prediction exactly - "
            "apply_dc_prediction (reverse raster loops) is verified against new == old - pred(old) with pred the 13.4 prediction; dc_prediction (raster loops) against a "
            "contract with a ghost parameter A0 ('if the band holds A0 - pred(A0) it ends up holding A0': the induction over raster order is its loop invariant); "
            "lemma dc_roundtrip composes the two",
            "PROVED (re-used units of C12 and C11, discharged again in this run): quantisation with index 0 is the identity (Q2_index0_lossless, all integers); for each of the "
            "7 wavelet filters oned_synthesis(oned_analysis(A)) == A for every even length and integer content (oned_roundtrip_filter_0..6, over the live filter table)",
            "BOUNDED (never counted as proved): everything that composes these steps into 'decode(encode(picture)) == picture' - the 2-D transform assembly and padding "
            "(also bounded under C11), slicing and coefficient ordering (transform_and_slice_picture), slice packing and length fields in lossless mode, the serialiser and "
            "the decoder's parsing: end-to-end round trips of the real encoder, serialiser and decoder over generated configurations and pictures (bounded/c04_lossless.py, "
            "families L1-L4 lossless, Q1-Q2 lossy with every slice at qindex 0; counts in bounded_checks)",
            "NOT covered: a change mirrored in code shared by encoder and decoder (lift functions, slice geometry, data tables) keeps the round trip exact - that is C11 / C13",
        ],
        manifest=dict(
            category="proof",
            technique="contract-based deductive verification of the invertible steps of the lossless path on the real functions (DC prediction pair with a ghost-parameter "
                      "contract and raster-order loop invariants; index-0 quantisation; 1-D lifting round trips per filter; pyvc + z3); the composition end to end as a native "
                      "bounded stand-in (real encoder -> serialiser -> decoder on generated configurations)",
            text="Each invertible step of the lossless path is proved exact for all inputs on the real code: DC prediction (encoder) then DC prediction (decoder) is the "
                 "identity on bands of any size; quantisation at index 0 is the identity; every wavelet filter's 1-D analysis is undone by its synthesis.",
            note="That these steps are composed correctly (2-D assembly, padding, slicing, packing, serialisation, parsing) is only bounded-checked by end-to-end round trips "
                 "over all 49 wavelet pairs, depth shapes, formats, slice grids, fragments and bit depths on small pictures.",
        ),
    ),
}


# Properties registered in MANIFEST.json (tools/mkmanifest.py).  A bounded module under development contributes to PROPS (so
# `./verif check <pid>` can be run on it) but is not claimed until its id is listed here.
CLAIMED = ["C01", "C02", "C03", "C04", "C06", "C07", "C08", "C09", "C10", "C11", "C12", "C13", "C14", "C15", "C17", "C18", "C19", "C20", "C21", "C22", "C23", "C25", "C26", "C27", "C28"]

BROKEN = {}  # pid -> import error of a bounded module that (by its file name cNN_...) serves that property


def _merge_bounded():
    """bounded/*.py modules contribute REGISTER = {pid: dict(extra=[hook], assumptions=[..], level=.., manifest={..})}.
    A module that fails to import only breaks the checks of the properties its file name mentions (cNN[_cMM]_...):
    `verif check` of such a property is a CHECKER-ERROR, every other property is unaffected."""
    import importlib
    import os
    import pkgutil
    import re
    import traceback

    here = os.path.join(os.path.dirname(os.path.abspath(__file__)), "bounded")
    for m in sorted(pkgutil.iter_modules([here])):
        try:
            mod = importlib.import_module("bounded." + m.name)
        except Exception:
            for n in re.findall(r"c(\d\d)(?=_)", m.name):
                BROKEN["C" + n] = "bounded/%s.py does not import:\n%s" % (m.name, traceback.format_exc())
            continue
        for pid, d in getattr(mod, "REGISTER", {}).items():
            if pid in PROPS:
                PROPS[pid].setdefault("extra", []).extend(d.get("extra", []))
                PROPS[pid].setdefault("assumptions", []).extend(d.get("assumptions", []))
            else:
                PROPS[pid] = dict(d)


_merge_bounded()
