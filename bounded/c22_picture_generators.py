"""C22 - picture generators produce well-formed pictures for any regular format (BOUNDED stand-in, never "proved").

Contract checked natively on the real generators of vc2_conformance/picture_generators.py
(moving_sprite, static_sprite, linear_ramps, mid_gray, white_noise; every call streams the yielded pictures):

  PRE  (written from the statement)  the format is REGULAR:
         frame_width  % hsub == 0  and  frame_height % vsub == 0, and
         frame_height % (2 * vsub) == 0 when the source is interlaced or pictures are fields,
       with (hsub, vsub) = (1,1) for 4:4:4, (2,1) for 4:2:2, (2,2) for 4:2:0; excursions >= 1.
  POST clause -> oracle (all written from the statement / ST 2042-1 11.6.2-11.6.3, nothing copied from the code)
    A no-exception  the generator and every step of its iteration finish without an exception
    B count         at least one picture is yielded (and the sequence ends: more than MAX_PICS pictures is reported)
    C even-fields   when pictures are fields the number of pictures is even
    D pic-num       the i-th picture (i = 0, 1, ...) has pic_num == i, an integer
    E shape         Y is exactly luma_h rows of luma_w samples, C1 and C2 exactly chroma_h rows of chroma_w samples with
                    luma = frame size, chroma = luma / (hsub, vsub), both heights halved when pictures are fields
    F sample-int    every sample is an integer (bool / float / anything else is reported)
    G sample-range  0 <= sample <= 2**depth - 1, depth = number of bits needed for the values 0..excursion of that
                    component (luma excursion for Y, colour-difference excursion for C1 and C2)
    H repeat        (module helper repeat_pictures, small formats only) repeating a generated sequence `count` times gives
                    count*n pictures numbered consecutively from 0 whose components are those of the original sequence in order

  DOMAINS (measured counts are reported; every random choice derives from `seed`)
    D1 small geometry, EXHAUSTIVE: frame sizes 1..8 x 1..8 (thorough 1..12 x 1..12) x 3 colour subsamplings x 2 source samplings
       x 2 picture coding modes x 2 field orders, regular ones only, all 5 generators (moving_sprite / white_noise also with
       non-default num_frames / seed; quick tier: moving_sprite / static_sprite take the field order in rotation).
    D1b sprite-edge geometry, EXHAUSTIVE over a stated list: widths around the 128-pixel sprite and around the positions where the
       moving sprite leaves the frame, heights around 128 and tiny, x subsampling x scan x coding mode; sprite generators + ramps.
    D2 colour x signal range: EVERY (primaries, matrix, transfer function) index triple of the live enumerations (5 x 5 x 6) on a
       130 x 132 frame (odd multiples; holds the whole sprite), crossed with the 8 preset signal ranges and 12 unusual ones
       (1-bit, 2-bit, excursion 2**k and 2**k+1, white above / offset beyond the representable range, zero chroma offset,
       different luma / chroma depths, 17, 20 and 33 bit); quick: 3 ranges per triple in rotation (all ranges occur), subsampling and
       scan/coding mode in rotation, moving_sprite on one of the three; thorough: all ranges, subsampling and modes in rotation.  mid_gray / white_noise: every
       range x subsampling x source sampling x coding mode.
    D3 every preset base video format (live table) x both picture coding modes that is regular, with its own subsampling, scan,
       field order, pixel aspect ratio, signal range and colour specification: all 5 generators on a 1/16 scale frame;
       quick: mid_gray / white_noise at full size up to 720x576; thorough: all generators at full size up to 1920x1080, larger ones at 1/4.
    D4 seeded random regular formats (quick 400, thorough 4000): sizes up to 300 x 300 incl. odd multiples, random subsampling,
       scan, coding mode, field order, preset pixel aspect ratio, colour triple, random offsets / excursions (1 .. 2**20), random
       generator arguments.

  NOT covered: real_pictures (not a synthetic generator; minutes per call), pixel aspect ratios outside the preset table,
  excursions of 0 or above 2**32, frame sizes beyond the stated bounds.
"""
import collections
import itertools
import numbers
import os
import random

GENERATORS = ("moving_sprite", "static_sprite", "linear_ramps", "mid_gray", "white_noise")
XYZ_GENERATORS = ("moving_sprite", "static_sprite", "linear_ramps")
# colour-difference subsampling factors (hsub, vsub) by format index: 0 = 4:4:4, 1 = 4:2:2, 2 = 4:2:0 (ST 2042-1 11.4.4)
SUBSAMPLING = {0: (1, 1), 1: (2, 1), 2: (2, 2)}
PROGRESSIVE, INTERLACED = 0, 1
FRAMES, FIELDS = 0, 1
MAX_PICS = 400          # no call in the domains below can legitimately yield more (at most 2 * 10 pictures are expected)
MAX_REPORT = 3          # violations reported per clause
WORKERS = 8
CLAUSES = ("no-exception", "count", "even-fields", "pic-num", "shape", "sample-int", "sample-range", "repeat")

# (luma_offset, luma_excursion, color_diff_offset, color_diff_excursion): unusual signal ranges
UNUSUAL_RANGES = [
    (0, 1, 0, 1),                          # 1 bit
    (0, 2, 1, 2),                          # 2 bits, excursion + 1 not a power of two
    (1, 3, 2, 3),
    (16, 255, 0, 255),                     # white lies above the representable range; chroma offset 0 (negative values)
    (0, 256, 128, 256),                    # excursion a power of two -> 9 bits
    (0, 257, 300, 257),
    (200, 100, 100, 200),                  # offset beyond the representable range of the component
    (0, 7, 4, 1023),                       # luma 3 bits, colour difference 10 bits
    (512, 1023, 2, 3),                     # luma 10 bits, colour difference 2 bits
    (0, 65536, 32768, 65536),              # 17 bits
    (4096, (1 << 20) - 1, 1 << 19, (1 << 20) - 1),
    (0, 1 << 32, 1 << 31, 1 << 32),        # 33 bits
]


# ------------------------------------------------------------------------------------------------ the contract (from the statement)
def is_regular(fmt, pcm):
    hsub, vsub = SUBSAMPLING[fmt["color_diff_format_index"]]
    if fmt["frame_width"] < 1 or fmt["frame_height"] < 1 or fmt["luma_excursion"] < 1 or fmt["color_diff_excursion"] < 1:
        return False
    if fmt["frame_width"] % hsub or fmt["frame_height"] % vsub:
        return False
    if (fmt["source_sampling"] == INTERLACED or pcm == FIELDS) and fmt["frame_height"] % (2 * vsub):
        return False
    return True


def coded_size(fmt, pcm):
    """{"Y": (height, width), "C1": ..., "C2": ...} of one picture."""
    hsub, vsub = SUBSAMPLING[fmt["color_diff_format_index"]]
    lw, lh = fmt["frame_width"], fmt["frame_height"]
    cw, ch = lw // hsub, lh // vsub
    if pcm == FIELDS:
        lh, ch = lh // 2, ch // 2
    return {"Y": (lh, lw), "C1": (ch, cw), "C2": (ch, cw)}


def bit_depth(excursion):
    """Bits needed to represent the values 0..excursion."""
    n = 0
    while (1 << n) < excursion + 1:
        n += 1
    return n


def depths(fmt):
    return {"Y": bit_depth(fmt["luma_excursion"]), "C1": bit_depth(fmt["color_diff_excursion"]), "C2": bit_depth(fmt["color_diff_excursion"])}


# ------------------------------------------------------------------------------------------------ formats
def make_fmt(w, h, sub, ss, tff=True, rng=(16, 219, 128, 224), colour=(0, 0, 0), par=(1, 1)):
    return {
        "frame_width": w, "frame_height": h, "color_diff_format_index": sub, "source_sampling": ss, "top_field_first": bool(tff),
        "frame_rate_numer": 25, "frame_rate_denom": 1, "pixel_aspect_ratio_numer": par[0], "pixel_aspect_ratio_denom": par[1],
        "clean_width": w, "clean_height": h, "left_offset": 0, "top_offset": 0,
        "luma_offset": rng[0], "luma_excursion": rng[1], "color_diff_offset": rng[2], "color_diff_excursion": rng[3],
        "color_primaries_index": colour[0], "color_matrix_index": colour[1], "transfer_function_index": colour[2],
    }


class Env(object):
    """Everything imported from the tree under check (once, in the parent; forked workers inherit it)."""
    _inst = None

    @classmethod
    def get(cls):
        if cls._inst is None:
            cls._inst = cls()
        return cls._inst

    def __init__(self):
        from pyvc import frontend

        frontend.ensure_repo_on_path()
        import sys

        if "numpy" not in sys.modules:  # 8 worker processes: keep the BLAS of each single-threaded (performance only)
            for v in ("OPENBLAS_NUM_THREADS", "OMP_NUM_THREADS", "MKL_NUM_THREADS"):
                os.environ.setdefault(v, "1")
        import numpy
        import vc2_data_tables as t
        from vc2_conformance import picture_generators
        from vc2_conformance.pseudocode.video_parameters import VideoParameters

        self.np, self.t, self.pg, self.VideoParameters = numpy, t, picture_generators, VideoParameters
        self.enum_of = {
            "color_diff_format_index": t.ColorDifferenceSamplingFormats, "source_sampling": t.SourceSamplingModes,
            "color_primaries_index": t.PresetColorPrimaries, "color_matrix_index": t.PresetColorMatrices,
            "transfer_function_index": t.PresetTransferFunctions,
        }
        self.PCM = t.PictureCodingModes

    def make_vp(self, fmt):
        vp = self.VideoParameters()
        for k, v in fmt.items():
            vp[k] = self.enum_of[k](v) if k in self.enum_of else v
        return vp


def _repro(case):
    return ("from vc2_conformance import picture_generators as pg; from vc2_conformance.pseudocode.video_parameters import VideoParameters; "
            "pics = list(pg.%s(VideoParameters(%r), %d, **%r))" % (case["gen"], case["fmt"], case["pcm"], case["kwargs"]))


# ------------------------------------------------------------------------------------------------ one execution
def _check_component(np, comp, want_hw, depth):
    """-> (shape problem | None, type problem | None, range problem | None, number of samples)"""
    h, w = want_hw
    try:
        nrows = len(comp)
        widths = sorted(set(len(r) for r in comp))
    except TypeError as e:
        return "not a two-dimensional array of samples (%s)" % e, None, None, 0
    if nrows != h or widths != [w]:
        return "%d rows of width(s) %r, expected %d rows of %d" % (nrows, widths[:4], h, w), None, None, 0
    hi = (1 << depth) - 1
    a = np.asarray(comp)
    if a.shape == (h, w) and a.dtype.kind in "iu":
        lo_v, hi_v = int(a.min()), int(a.max())
        if lo_v < 0 or hi_v > hi:
            bad = np.argwhere((a < 0) | (a > hi))[0]
            return None, None, "sample [%d][%d] = %d outside 0..%d (%d bits)" % (bad[0], bad[1], int(a[bad[0], bad[1]]), hi, depth), h * w
        return None, None, None, h * w
    # anything else (floats, bools, very large integers, objects): look at every sample
    for yy, row in enumerate(comp):
        for xx, s in enumerate(row):
            if isinstance(s, (bool, np.bool_)) or not isinstance(s, (numbers.Integral, np.integer)):
                return None, "sample [%d][%d] = %r is a %s, not an integer" % (yy, xx, s, type(s).__name__), None, h * w
            if s < 0 or s > hi:
                return None, None, "sample [%d][%d] = %d outside 0..%d (%d bits)" % (yy, xx, s, hi, depth), h * w
    return None, None, None, h * w


def run_case(env, case):
    """Execute one generator call and judge it.  -> (counts, failures[(clause, payload)])"""
    np = env.np
    fmt, pcm = case["fmt"], case["pcm"]
    want = coded_size(fmt, pcm)
    dep = depths(fmt)
    counts = collections.Counter(executions=1)
    fails = []
    seen = set()

    def fail(clause, what, expected, observed):
        if clause in seen:
            return
        seen.add(clause)
        fails.append((clause, {"what": "%s: %s" % (case["gen"], what),
                               "inputs": {"generator": case["gen"], "kwargs": case["kwargs"], "video_parameters": fmt, "picture_coding_mode": pcm,
                                          "domain": case["domain"], "reproduce": _repro(case)},
                               "expected": expected, "observed": observed}))

    keep = [] if case.get("repeat") else None
    n = 0
    try:
        it = getattr(env.pg, case["gen"])(env.make_vp(fmt), env.PCM(pcm), **case["kwargs"])
        for pic in it:
            if n >= MAX_PICS:
                fail("count", "the sequence does not end", "a finite sequence (at most %d pictures in this domain)" % MAX_PICS, "more than %d pictures" % MAX_PICS)
                break
            counts["pictures"] += 1
            try:
                num = pic["pic_num"]
                comps = [(c, pic[c]) for c in ("Y", "C1", "C2")]
            except (KeyError, TypeError, IndexError) as e:
                fail("shape", "picture %d is not a dictionary with Y, C1, C2 and pic_num" % n, "{'Y','C1','C2','pic_num'}", "%s: %s" % (type(e).__name__, e))
                n += 1
                continue
            if isinstance(num, bool) or not isinstance(num, (numbers.Integral, np.integer)) or num != n:
                fail("pic-num", "picture %d of the sequence is not numbered %d" % (n, n), n, repr(num))
            for c, comp in comps:
                sp, tp, rp, ns = _check_component(np, comp, want[c], dep[c])
                counts["samples"] += ns
                if sp:
                    fail("shape", "component %s of picture %d is not the coded size" % (c, n), {"rows": want[c][0], "width": want[c][1]}, sp)
                if tp:
                    fail("sample-int", "component %s of picture %d holds a non-integer sample" % (c, n), "integers", tp)
                if rp:
                    fail("sample-range", "component %s of picture %d holds a sample outside its bit depth" % (c, n), "0..%d" % ((1 << dep[c]) - 1), rp)
            if keep is not None:
                keep.append(pic)
            n += 1
    except Exception as e:  # an exception of the code under check is a violation of the statement (a regular format must give pictures)
        import traceback

        tb = traceback.extract_tb(e.__traceback__)
        where = ["%s:%d %s" % (os.path.basename(f.filename), f.lineno, f.name) for f in tb[-3:]]
        fail("no-exception", "raised %s after %d pictures" % (type(e).__name__, n), "a sequence of pictures", {"exception": "%s: %s" % (type(e).__name__, str(e)[:300]), "where": where})
        return counts, fails
    if n < 1:
        fail("count", "no picture was generated", "at least one picture", "0 pictures")
    if pcm == FIELDS:
        counts["field_executions"] += 1
        if n % 2:
            fail("even-fields", "an odd number of pictures although pictures are fields", "an even number", "%d pictures" % n)
    if keep is not None and not fails and n:
        counts["repeat_executions"] += 1
        for count in (1, 3):
            try:
                rep_pics = list(env.pg.repeat_pictures(list(keep), count))
                prob = None
                if len(rep_pics) != count * n:
                    prob = "%d pictures, expected %d" % (len(rep_pics), count * n)
                else:
                    for i, p in enumerate(rep_pics):
                        o = keep[i % n]
                        if p["pic_num"] != i:
                            prob = "picture %d is numbered %r" % (i, p["pic_num"])
                        elif any(np.asarray(p[c]).tolist() != np.asarray(o[c]).tolist() for c in ("Y", "C1", "C2")):
                            prob = "picture %d differs from picture %d of the repeated sequence" % (i, i % n)
                        if prob:
                            break
            except Exception as e:
                prob = "raised %s: %s" % (type(e).__name__, str(e)[:200])
            if prob:
                fail("repeat", "repeat_pictures(pictures, %d) of a well-formed %d-picture sequence" % (count, n),
                     "%d pictures numbered 0..%d repeating the sequence" % (count * n, count * n - 1), prob)
    return counts, fails


# ------------------------------------------------------------------------------------------------ domains
MODES = [(ss, pcm, tff) for ss in (PROGRESSIVE, INTERLACED) for pcm in (FRAMES, FIELDS) for tff in (True, False)]


def _case(domain, gen, fmt, pcm, kwargs=None, repeat=False):
    return {"domain": domain, "gen": gen, "fmt": fmt, "pcm": pcm, "kwargs": kwargs or {}, "repeat": repeat}


def domain_small(tier):
    n = 8 if tier == "quick" else 12
    out = []
    for w, h, sub in itertools.product(range(1, n + 1), range(1, n + 1), (0, 1, 2)):
        for ss, pcm, tff in MODES:
            fmt = make_fmt(w, h, sub, ss, tff)
            if not is_regular(fmt, pcm):
                continue
            for g in GENERATORS:
                if tier == "quick" and g in ("moving_sprite", "static_sprite") and tff != ((w + h + sub + ss + pcm) % 2 == 0):
                    continue  # quick tier: the two generators that load the sprite take the field order in rotation
                kw = {}
                if g == "moving_sprite" and not tff:
                    kw = {"num_frames": 1 + (w + h) % 3}
                if g == "white_noise" and not tff:
                    kw = {"num_frames": 1 + (w + h) % 3, "seed": w * 31 + h}
                out.append(_case("D1", g, fmt, pcm, kw, repeat=(w + h + sub) % 4 == 0))
    return out


def domain_sprite_edges(tier):
    if tier == "quick":
        ws, hs = (16, 17, 128, 130, 144, 145), (2, 4, 128, 132)
    else:
        ws, hs = (15, 16, 17, 31, 126, 127, 128, 129, 130, 136, 143, 144, 145, 152, 153, 160, 161, 272, 273, 290), (1, 2, 3, 4, 8, 127, 128, 129, 130, 132, 260)
    out = []
    for w, h, sub in itertools.product(ws, hs, (0, 1, 2)):
        for ss, pcm, tff in MODES:
            if tff != ((w + h) % 2 == 0):
                continue
            fmt = make_fmt(w, h, sub, ss, tff)
            if is_regular(fmt, pcm):
                for g in XYZ_GENERATORS:
                    out.append(_case("D1b", g, fmt, pcm))
    return out


def signal_ranges(env):
    presets = [tuple(int(x) for x in (r.luma_offset, r.luma_excursion, r.color_diff_offset, r.color_diff_excursion))
               for _, r in sorted(env.t.PRESET_SIGNAL_RANGES.items(), key=lambda kv: int(kv[0]))]
    return presets + [r for r in UNUSUAL_RANGES if r not in presets]


def colour_triples(env):
    return [(int(p), int(m), int(f)) for p in env.t.PresetColorPrimaries for m in env.t.PresetColorMatrices for f in env.t.PresetTransferFunctions]


def domain_colour(env, tier):
    ranges, triples = signal_ranges(env), colour_triples(env)
    W, H = 130, 132
    out = []
    for ci, col in enumerate(triples):
        if tier == "quick":
            combos = [(ranges[(3 * ci + j) % len(ranges)], (ci + j) % 3) for j in range(3)]
        else:
            combos = [(r, (ci + j) % 3) for j, r in enumerate(ranges)]
        for k, (r, sub) in enumerate(combos):
            ss, pcm, tff = MODES[(ci + k) % len(MODES)]
            fmt = make_fmt(W, H, sub, ss, tff, rng=r, colour=col)
            assert is_regular(fmt, pcm)
            out.append(_case("D2", "static_sprite", fmt, pcm))
            out.append(_case("D2", "linear_ramps", fmt, pcm))
            if tier != "quick" or k == 0:
                out.append(_case("D2", "moving_sprite", fmt, pcm, {"num_frames": 2}))
    # generators that depend on the signal range only: every range x subsampling x source sampling x coding mode
    for ri, r in enumerate(ranges):
        for sub in (0, 1, 2):
            for ss, pcm, tff in MODES:
                if tff != (ri % 2 == 0):
                    continue
                fmt = make_fmt(6, 12, sub, ss, tff, rng=r, colour=triples[ri % len(triples)])
                out.append(_case("D2", "mid_gray", fmt, pcm))
                out.append(_case("D2", "white_noise", fmt, pcm, {"num_frames": 2, "seed": ri}))
    return out


def base_formats(env):
    """[(index, fmt)] built from the live tables of vc2_data_tables (not through the code under check)."""
    t = env.t
    out = []
    for idx, b in sorted(t.BASE_VIDEO_FORMAT_PARAMETERS.items(), key=lambda kv: int(kv[0])):
        r = t.PRESET_SIGNAL_RANGES[b.signal_range_index]
        c = t.PRESET_COLOR_SPECS[b.color_spec_index]
        par = t.PRESET_PIXEL_ASPECT_RATIOS[b.pixel_aspect_ratio_index]
        fmt = make_fmt(int(b.frame_width), int(b.frame_height), int(b.color_diff_format_index), int(b.source_sampling), bool(b.top_field_first),
                       rng=tuple(int(x) for x in (r.luma_offset, r.luma_excursion, r.color_diff_offset, r.color_diff_excursion)),
                       colour=(int(c.color_primaries_index), int(c.color_matrix_index), int(c.transfer_function_index)),
                       par=(int(par.numerator), int(par.denominator)))
        out.append((int(idx), fmt))
    return out


def _scaled(fmt, div):
    """The same format with the frame divided by `div`, rounded up to a multiple of 4 (regular in every mode)."""
    f = dict(fmt)
    f["frame_width"] = f["clean_width"] = max(4, -(-(fmt["frame_width"] // div) // 4) * 4)
    f["frame_height"] = f["clean_height"] = max(4, -(-(fmt["frame_height"] // div) // 4) * 4)
    return f


def domain_base(env, tier):
    out, skipped = [], []
    for idx, fmt in base_formats(env):
        for pcm in (FRAMES, FIELDS):
            if not is_regular(fmt, pcm):
                skipped.append((idx, pcm))
                continue
            small = _scaled(fmt, 16)
            for g in GENERATORS:
                out.append(_case("D3", g, small, pcm))
            pixels = fmt["frame_width"] * fmt["frame_height"]
            if pixels <= (720 * 576 if tier == "quick" else 1920 * 1080):
                for g in (GENERATORS if tier != "quick" else ("mid_gray", "white_noise")):
                    out.append(_case("D3", g, fmt, pcm, {"num_frames": 2} if g == "moving_sprite" else {}))
            elif tier != "quick":
                for g in GENERATORS:
                    out.append(_case("D3", g, _scaled(fmt, 4), pcm, {"num_frames": 2} if g == "moving_sprite" else {}))
    return out, skipped


def domain_random(env, tier, seed):
    rnd = random.Random("C22-%s" % seed)
    triples = colour_triples(env)
    pars = [(int(p.numerator), int(p.denominator)) for _, p in sorted(env.t.PRESET_PIXEL_ASPECT_RATIOS.items(), key=lambda kv: int(kv[0]))]
    n = 400 if tier == "quick" else 4000
    out = []
    while len(out) < n:
        sub = rnd.randrange(3)
        ss, pcm, tff = rnd.choice(MODES)
        hsub, vsub = SUBSAMPLING[sub]
        vmul = vsub * (2 if (ss == INTERLACED or pcm == FIELDS) else 1)
        big = rnd.random() < 0.5
        w = hsub * rnd.randint(1, (300 if big else 24) // hsub)
        h = vmul * rnd.randint(1, (300 if big else 24) // vmul)

        def exc():
            k = rnd.choice((1, 2, 3, 4, 7, 8, 9, 10, 12, 16, 20))
            return rnd.choice((rnd.randint(1, 1 << k), (1 << k) - 1, 1 << k, (1 << k) + 1))

        le, ce = exc(), exc()
        lo = rnd.choice((0, rnd.randint(0, le), rnd.randint(0, 2 * le)))
        co = rnd.choice((0, (ce + 1) // 2, rnd.randint(0, 2 * ce)))
        fmt = make_fmt(w, h, sub, ss, tff, rng=(lo, le, co, ce), colour=rnd.choice(triples), par=rnd.choice(pars))
        assert is_regular(fmt, pcm)
        g = rnd.choice(GENERATORS)
        kw = {}
        if g == "moving_sprite" and rnd.random() < 0.7:
            kw = {"num_frames": rnd.randint(1, 4)}
        if g == "white_noise" and rnd.random() < 0.7:
            kw = {"num_frames": rnd.randint(1, 3), "seed": rnd.randrange(1 << 16)}
        out.append(_case("D4", g, fmt, pcm, kw, repeat=(not big and rnd.random() < 0.2)))
    return out


# ------------------------------------------------------------------------------------------------ workers
_JOBS = None


def _run_chunk(idx):
    env = Env.get()
    counts = {}
    fails = []
    for case in _JOBS[idx]:
        c, f = run_case(env, case)
        d = counts.setdefault(case["domain"], collections.Counter())
        d.update(c)
        d["gen:" + case["gen"]] += 1
        fails.extend((case["domain"], clause, payload) for clause, payload in f)
    per_clause = collections.Counter()
    kept = []
    for dom, clause, payload in fails:  # the parent reports at most MAX_REPORT per clause anyway
        per_clause[clause] += 1
        if per_clause[clause] <= MAX_REPORT:
            kept.append((dom, clause, payload))
    return counts, kept, dict(per_clause)


def _cost(case):
    px = case["fmt"]["frame_width"] * case["fmt"]["frame_height"]
    frames = case["kwargs"].get("num_frames", 10 if case["gen"] == "moving_sprite" else 1)
    return 5000 + px * (frames * 2 if case["gen"] in XYZ_GENERATORS else 1)


def check(rep, tier, seed):
    import multiprocessing

    global _JOBS
    env = Env.get()
    pg = env.pg

    missing = [g for g in GENERATORS if not callable(getattr(pg, g, None))]
    rep.add_eval_fact("C22: the five synthetic picture generators named by the property exist in picture_generators", not missing, "missing: %r" % missing)
    if missing:
        return
    others = sorted(n for n in getattr(pg, "__all__", []) if n not in GENERATORS and n != "repeat_pictures")
    rep.extra_coverage["c22_exported_names_not_exercised"] = others
    enums_ok = (sorted(int(x) for x in env.t.ColorDifferenceSamplingFormats) == [0, 1, 2] and sorted(int(x) for x in env.t.SourceSamplingModes) == [0, 1]
                and sorted(int(x) for x in env.PCM) == [0, 1] and int(env.PCM.pictures_are_fields) == FIELDS and int(env.t.SourceSamplingModes.interlaced) == INTERLACED
                and [int(env.t.ColorDifferenceSamplingFormats[n]) for n in ("color_4_4_4", "color_4_2_2", "color_4_2_0")] == [0, 1, 2])
    rep.add_eval_fact("C22: the live enumerations are {4:4:4, 4:2:2, 4:2:0} = {0, 1, 2}, {progressive, interlaced} = {0, 1}, {frames, fields} = {0, 1} as the oracle assumes",
                      enums_ok, "")
    if not enums_ok:
        return

    cases = domain_small(tier) + domain_sprite_edges(tier) + domain_colour(env, tier)
    base_cases, base_skipped = domain_base(env, tier)
    nbase = len(base_formats(env))
    rep.add_eval_fact("C22: preset base video formats x picture coding modes that satisfy the regularity precondition (the others are outside the statement)",
                      len(base_cases) > 0, "%d base formats, %d of %d (format, mode) pairs regular; not regular: %r" % (nbase, 2 * nbase - len(base_skipped), 2 * nbase, base_skipped))
    cases += base_cases + domain_random(env, tier, seed)
    ranges = signal_ranges(env)
    rep.add_eval_fact("C22: every signal range of the domain has excursions >= 1 (preset table read live + the unusual ones)",
                      all(r[1] >= 1 and r[3] >= 1 for r in ranges), "%d ranges" % len(ranges))

    # balanced, deterministic chunks (largest first, round robin); results are aggregated in chunk order
    order = sorted(range(len(cases)), key=lambda i: (-_cost(cases[i]), i))
    nchunks = max(WORKERS * 6, 1)
    chunks = [[] for _ in range(nchunks)]
    for k, i in enumerate(order):
        chunks[k % nchunks].append(cases[i])
    _JOBS = chunks
    nproc = max(1, min(WORKERS, os.cpu_count() or 1))
    ctx = multiprocessing.get_context("fork")
    with ctx.Pool(nproc) as pool:
        results = pool.map_async(_run_chunk, range(len(chunks)), chunksize=1).get(timeout=900 if tier == "quick" else 3600)
    _JOBS = None

    counts = {}
    reported = collections.Counter()
    total_fail = collections.Counter()
    for c, kept, per_clause in results:
        for dom, cc in c.items():
            counts.setdefault(dom, collections.Counter()).update(cc)
        total_fail.update(per_clause)
        for dom, clause, payload in kept:
            if reported[clause] < MAX_REPORT:
                reported[clause] += 1
                rep.violation("%s-%s-%d" % (clause, dom, reported[clause]), payload)
    rep.extra_coverage["c22_failing_executions_per_clause"] = dict(total_fail)

    def sample(dom, k=2):
        xs = [c for c in cases if c["domain"] == dom]
        step = max(1, len(xs) // k)
        return [{"generator": c["gen"], "kwargs": c["kwargs"], "picture_coding_mode": c["pcm"],
                 "format": {a: c["fmt"][a] for a in ("frame_width", "frame_height", "color_diff_format_index", "source_sampling", "top_field_first", "luma_offset",
                                                     "luma_excursion", "color_diff_offset", "color_diff_excursion", "color_primaries_index", "color_matrix_index",
                                                     "transfer_function_index")}} for c in xs[step // 2::step][:k]]

    def note(dom):
        c = counts.get(dom, {})
        return ("clauses A-G judged on every execution: %d pictures, %d samples checked (type and range), %d executions with pictures-are-fields (even count), "
                "%d executions followed by repeat_pictures x1 / x3 (clause H); per generator: %r"
                % (c.get("pictures", 0), c.get("samples", 0), c.get("field_executions", 0), c.get("repeat_executions", 0),
                   {k[4:]: v for k, v in sorted(c.items()) if k.startswith("gen:")}))

    small_n = 8 if tier == "quick" else 12
    domains = [
        ("D1", "generators on small geometry", True,
         "exhaustive: frame sizes 1..%d x 1..%d x {4:4:4, 4:2:2, 4:2:0} x {progressive, interlaced} x {frames, fields} x {top, bottom field first}, regular formats only, "
         "x 5 generators (moving_sprite / white_noise with default and non-default num_frames / seed); 8-bit video range, HDTV colour" % (small_n, small_n)),
        ("D1b", "sprite / ramp generators on sprite-edge geometry", True,
         "exhaustive over the listed sizes: widths around 16, the 128-pixel sprite and the positions where the moving sprite leaves the frame, heights tiny and around 128, "
         "x 3 subsamplings x source sampling x coding mode (regular only) x {moving_sprite, static_sprite, linear_ramps}"),
        ("D2", "generators over every colour specification x signal ranges", False,
         "every (primaries, matrix, transfer function) triple of the live enumerations (%d) on a 130 x 132 frame x %s of the %d signal ranges (8 presets + unusual: 1-2 bit, "
         "2**k and 2**k+1 excursions, white above range, offset beyond range, zero chroma offset, unequal luma / chroma depths, 17 / 20 / 33 bit) x subsampling%s, "
         "scan / coding mode / field order in rotation, x {static_sprite, linear_ramps, moving_sprite(num_frames=2)}; and mid_gray / white_noise on 6 x 12 for every range x "
         "subsampling x source sampling x coding mode" % (len(colour_triples(env)), "3 in rotation (all occur)" if tier == "quick" else "all", len(ranges),
                                                         " in rotation" if tier == "quick" else " in rotation")),
        ("D3", "generators on the preset base video formats", True,
         "every regular (base video format, picture coding mode) pair of the live table with its own subsampling, scan, field order, pixel aspect ratio, signal range and colour "
         "specification: 5 generators at 1/16 scale; %s" % ("mid_gray / white_noise at full size up to 720x576" if tier == "quick" else
                                                           "5 generators at full size up to 1920x1080 (moving_sprite 2 frames), larger formats at 1/4 scale")),
        ("D4", "generators on seeded random regular formats", False,
         "seeded sample (seed %r): sizes up to 300 x 300 (half of them up to 24 x 24) incl. odd multiples, random subsampling, scan, coding mode, field order, preset pixel aspect "
         "ratio, colour triple, offsets and excursions (1 .. 2**20+1, incl. 2**k-1, 2**k, 2**k+1), generator and generator arguments" % (seed,)),
    ]
    for dom, name, exhaustive, text in domains:
        c = counts.get(dom, {})
        rep.add_bounded("C22 %s: %s" % (dom, name), text, c.get("executions", 0), exhaustive, distinct=c.get("executions", 0), samples=sample(dom), note=note(dom))


REGISTER = {
    "C22": dict(
        extra=[check],
        level="other",
        assumptions=[
            "BOUNDED (not proved): the generators are executed on the finite domains D1-D4 listed under bounded_checks only (small / listed frame sizes, the live colour and "
            "signal-range tables plus 12 unusual ranges, the preset base video formats, a seeded random sample)",
            "precondition taken from the statement: frame width / height multiples of the subsampling factors, height a multiple of twice the vertical factor for interlaced "
            "sources or field coding; additionally excursions >= 1 (an excursion of 0 has no bit depth) and pixel aspect ratios from the preset table",
            "coded size and bit depth are computed by the check's own oracle (ST 2042-1 11.6.2 / 11.6.3 as restated in the property), not by dimensions_and_depths.py",
            "real_pictures (natural, not synthetic, pictures; minutes per call) is not exercised; repeat_pictures is exercised on small formats only",
        ],
        manifest=dict(
            category="other",
            technique="bounded native contract check: postcondition of the property (count >= 1, even for fields, pic_num consecutive from 0, component shapes == coded size, "
                      "integer samples within the bit depth, no exception) evaluated on the real generators over exhaustive small scopes, the full colour-specification cross "
                      "product x preset and unusual signal ranges, every preset base video format and a seeded random sample; up to 8 forked workers",
            text="For every regular format of the stated finite domains, each of moving_sprite, static_sprite, linear_ramps, mid_gray and white_noise yields at least one picture, an "
                 "even number when pictures are fields, numbered consecutively from 0, every component exactly the coded size, every sample an integer within the component's bit "
                 "depth; repeat_pictures keeps the numbering and the content.",
            note="A bounded stand-in: nothing is proved for formats outside the enumerated / sampled domains; real_pictures and non-preset pixel aspect ratios are not covered.",
        ),
    )
}
