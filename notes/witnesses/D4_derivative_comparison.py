import itertools
from vc2_conformance.symbol_re import Matcher, parse_regex, Symbol, Star, Concatenation, Union, WILDCARD
# derivative reference
def nullable(a):
    if a is None: return True
    if isinstance(a,Symbol): return False
    if isinstance(a,Star): return True
    if isinstance(a,Concatenation): return nullable(a.a) and nullable(a.b)
    if isinstance(a,Union): return nullable(a.a) or nullable(a.b)
EMPTY="EMPTY"
def deriv(a,s):
    if a is None or a==EMPTY: return EMPTY
    if isinstance(a,Symbol): return None if (a.symbol==s or a.symbol==WILDCARD) else EMPTY
    if isinstance(a,Star):
        d=deriv(a.expr,s); return EMPTY if d==EMPTY else cat(d,a)
    if isinstance(a,Concatenation):
        d=deriv(a.a,s); left=EMPTY if d==EMPTY else cat(d,a.b)
        if nullable(a.a): return alt(left,deriv(a.b,s))
        return left
    if isinstance(a,Union): return alt(deriv(a.a,s),deriv(a.b,s))
def cat(x,y):
    if x==EMPTY or y==EMPTY: return EMPTY
    if x is None: return y
    if y is None: return x
    return Concatenation(x,y)
def alt(x,y):
    if x==EMPTY: return y
    if y==EMPTY: return x
    return Union(x,y)
def nonempty(a):
    if a==EMPTY: return False
    if a is None or isinstance(a,(Symbol,Star)): return True
    if isinstance(a,Concatenation): return nonempty(a.a) and nonempty(a.b)
    if isinstance(a,Union): return nonempty(a.a) or nonempty(a.b)
pats=["(a* | b*)","(a b)* | c","a (b | c)* a","(a | b)* a","a? b+ (c | a*)","(a* b)* | (b* a)*","a . b* | . c","((a | b) c?)*"]
bad=0;n=0
for p in pats:
    ast0=parse_regex(p)
    for L in range(0,6):
        for w in itertools.product("abc",repeat=L):
            m=Matcher(p); a=ast0; ok=True
            for s in w:
                d=deriv(a,s); exp=nonempty(d)
                got=m.match_symbol(s); n+=1
                if got!=exp: bad+=1; print("MISMATCH",p,w,s,got,exp); ok=False; break
                if not got: break
                a=d
            else:
                if (m.is_complete()!=nullable(a)): bad+=1; print("COMPLETE MISMATCH",p,w)
print("checked",n,"bad",bad)
