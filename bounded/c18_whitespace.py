"""C18, lexical layer: 'whitespace is ignored' (module documentation of symbol_re).  Bounded metamorphic check: every pattern of a
small family - the real level patterns and constructed ones - is re-spelt with other white space between its tokens (several
blanks, tabs, newlines, CR LF, form feed, vertical tab, leading and trailing white space, no blanks around operators and
parentheses) and the Matcher built from the re-spelt pattern must behave exactly like the Matcher built from the canonical
spelling: same answers of match_symbol along every symbol sequence up to length 3 over the pattern's alphabet plus a foreign symbol,
same is_complete, same valid_next_symbols."""
import itertools
import random
import re

WS = [" ", "  ", "\t", "\n", "\r\n", " \t ", "\x0c", "\x0b", "\n\n  "]


def _tokens(p):
    return re.findall(r"[A-Za-z_][A-Za-z_0-9]*|[().|?*+$]", p)


def _respell(tokens, rng, tight):
    out = [rng.choice(["", "", rng.choice(WS)])]
    for a, b in zip(tokens, tokens[1:] + [None]):
        out.append(a)
        if b is None:
            break
        need = re.match(r"[A-Za-z_]", a[0]) and re.match(r"[A-Za-z_0-9]", b[0])
        if need:
            out.append(rng.choice(WS))
        else:
            out.append("" if tight else rng.choice(["", " "] + WS))
    out.append(rng.choice(["", "", rng.choice(WS)]))
    return "".join(out)


def _behaviour(Matcher, pattern, alphabet, depth):
    """{sequence: (accepted flags along it, is_complete at its end, sorted valid_next_symbols at its end)}"""
    out = {}
    for n in range(depth + 1):
        for seq in itertools.product(alphabet, repeat=n):
            m = Matcher(pattern)
            flags = []
            alive = True
            for s in seq:
                ok = bool(m.match_symbol(s))
                flags.append(ok)
                if not ok:
                    alive = False
                    break
            if alive:
                out[seq] = (tuple(flags), bool(m.is_complete()), tuple(sorted(map(str, m.valid_next_symbols()))))
            else:
                out[seq] = (tuple(flags), None, None)
    return out


def check(rep, tier, seed):
    from pyvc import frontend

    frontend.ensure_repo_on_path()
    from vc2_conformance.symbol_re import Matcher
    from vc2_conformance.level_constraints import LEVEL_SEQUENCE_RESTRICTIONS

    rng = random.Random(seed * 31 + 5)
    pats = sorted(set(r.sequence_restriction_regex for r in LEVEL_SEQUENCE_RESTRICTIONS.values()))
    pats += ["a b c", "a | b c", "(a b)* c $", "a? (b | .)+ c", ". * a $", "(a|b)(c|d)?e", "a (b (c | d)* )? e", "a+ b* c?", "(a | $)", "x_1 . y2 *"]
    variants = 6 if tier == "quick" else 40
    evals = 0
    nfail = 0
    for p in pats:
        toks = _tokens(p)
        canon = " ".join(toks)
        alphabet = sorted(set(t for t in toks if re.match(r"[A-Za-z_]", t)))[:4] + ["zz_foreign"]
        depth = 3 if len(alphabet) <= 4 else 2
        ref = _behaviour(Matcher, canon, alphabet, depth)
        for v in range(variants):
            spelt = _respell(toks, rng, tight=(v % 3 == 0))
            evals += 1
            try:
                got = _behaviour(Matcher, spelt, alphabet, depth)
            except Exception as e:  # the re-spelt pattern is rejected although only white space differs
                got = "raised %s: %s" % (type(e).__name__, str(e)[:120])
            if got != ref and nfail < 3:
                nfail += 1
                diff = got if isinstance(got, str) else [(list(k), got[k], ref[k]) for k in sorted(ref) if got.get(k) != ref[k]][:3]
                rep.violation("whitespace-%d" % nfail, {
                    "what": "a pattern re-spelt with other white space between its tokens does not behave like the canonical spelling (white space is documented to be ignored)",
                    "inputs": {"canonical": canon, "respelt": spelt}, "expected": "identical Matcher behaviour", "observed": diff})
    rep.add_bounded("white space between pattern tokens is ignored", "%d patterns (the real level patterns and 10 constructed ones) x %d seeded re-spellings; behaviour compared on all "
                    "symbol sequences up to length 2-3 over the pattern's alphabet plus a foreign symbol" % (len(pats), variants), evals, False, distinct=evals,
                    samples=[{"canonical": "a | b c", "respelt": "a|b\tc\n"}])


REGISTER = {"C18": dict(extra=[check], assumptions=[
    "BOUNDED: the lexical layer (white space between tokens is ignored) is checked metamorphically on a small family of patterns only (bounded/c18_whitespace.py)"])}
