import z3, time
z3.set_param("smt.mbqi", False)
I=z3.IntSort(); Arr=z3.ArraySort(I,I)
def check(name, hyps, goal, timeout=30000):
    s=z3.Solver(); s.set("timeout",timeout)
    for h in hyps: s.add(h)
    s.add(z3.Not(goal)); t=time.time(); r=s.check()
    print(name, "PROVED" if r==z3.unsat else r, "%.2fs"%(time.time()-t))
N,L,D,S=z3.Ints('N L D S'); taps=z3.Const('taps',Arr)
ss=z3.Function('ss',Arr,I,I,I); shr=z3.Function('shr',I,I,I); pow2=z3.Function('pow2',I,I)
agree=z3.Function('agree',Arr,Arr,z3.BoolSort())
A,B=z3.Consts('A B',Arr); n,k,j,m=z3.Ints('n k j m')
ax=[ z3.ForAll([A,B], agree(A,B)==z3.ForAll([j], z3.Implies(z3.And(1<=j,j<N,j%2==1), A[j]==B[j]), patterns=[A[j]])),
     # frame lemma (proved separately by induction)
     z3.ForAll([A,B,n,k], z3.Implies(z3.And(agree(A,B),k>=0), ss(A,n,k)==ss(B,n,k)), patterns=[z3.MultiPattern(ss(A,n,k),agree(A,B))]),
   ]
pre=[N>=2, N%2==0, L>=0, S>=0]
A0,Ac=z3.Consts('A0 Ac',Arr); nn=z3.Int('nn')
rnd=z3.If(S>0,pow2(S-1),0)
def g(Ar,m): return shr(ss(Ar,m,L)+rnd,S)
def Inv(n,Ar):
    return z3.And(0<=n, n<=N/2, agree(Ar,A0),
      z3.ForAll([m], z3.Implies(z3.And(0<=m,m<n), Ar[2*m]==A0[2*m]+g(A0,m)), patterns=[Ar[2*m]]),
      z3.ForAll([m], z3.Implies(z3.And(n<=m,2*m<N), Ar[2*m]==A0[2*m]), patterns=[Ar[2*m]]))
summ=ss(Ac,nn,L)
An=z3.Const("An",Arr)
check("lift1-outer-preserve", ax+pre+[Inv(nn,Ac), nn<N/2, An==z3.Store(Ac,2*nn,Ac[2*nn]+shr(summ+rnd,S))], Inv(nn+1,An))
check("lift1-init", ax+pre, Inv(0,A0))
# inverse lemma: A1 = lift1(A0), A2 = lift2(A1) => A2 == A0 on [0,N)
A1,A2=z3.Consts('A1 A2',Arr)
def post(sign,Ain,Aout):
    return z3.And(agree(Aout,Ain), z3.ForAll([m], z3.Implies(z3.And(0<=m,2*m<N), Aout[2*m]==Ain[2*m]+sign*g(Ain,m)), patterns=[Aout[2*m]]))
q=z3.Int('q')
m2=z3.Int('m2')
check("lift2-after-lift1-even", ax+pre+[post(1,A0,A1),post(-1,A1,A2), 0<=m2,2*m2<N], A2[2*m2]==A0[2*m2])
check("lift2-after-lift1-odd", ax+pre+[post(1,A0,A1),post(-1,A1,A2), 1<=q,q<N,q%2==1], A2[q]==A0[q])
