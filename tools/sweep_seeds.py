#!/usr/bin/env python3
"""sweep_seeds.py [seed-id ...] : runs the quick check of each seeded change's property against a scratch
worktree of /repo (HEAD) with the change applied (VERIF_REPO), never against /repo itself, and never writing
to /verif/evidence (VERIF_OUT scratch).  Records the outcome in seeded/<id>/meta.json ("detected_by") and
prints one line per seed.  Seeds of properties without a registered check are reported as "no check".

  -p PID[,PID]   also run these extra checks for every seed given
  --force        run the property's check even if MANIFEST.json does not claim it yet (check under development)
  --jobs N       seeds processed concurrently (default 1; each check already uses every core)
"""
import json, os, shutil, subprocess, sys, tempfile, time
from concurrent.futures import ThreadPoolExecutor

VERIF = os.path.dirname(os.path.dirname(os.path.abspath(__file__)))
args = sys.argv[1:]
extra, jobs, force = [], 1, False
while args and args[0].startswith("-"):
    if args[0] == "-p":
        extra = args[1].split(","); args = args[2:]
    elif args[0] == "--force":
        force = True; args = args[1:]
    elif args[0] == "--jobs":
        jobs = int(args[1]); args = args[2:]
    else:
        sys.exit("unknown option " + args[0])
seeds = args or sorted(os.listdir(os.path.join(VERIF, "seeded")))
seeds = [s for s in seeds if os.path.isfile(os.path.join(VERIF, "seeded", s, "patch.diff"))]
claimed = [c["property_id"] for c in json.load(open(os.path.join(VERIF, "MANIFEST.json")))["checks"]]


def one(sid):
    d = os.path.join(VERIF, "seeded", sid)
    meta = json.load(open(os.path.join(d, "meta.json")))
    pids = [p for p in [meta["property"]] + extra if force or p in claimed]
    if not pids:
        return sid, "no check registered for %s" % meta["property"], None
    wt = tempfile.mkdtemp(prefix="verif-swt-%s-" % sid, dir="/var/tmp")
    out = tempfile.mkdtemp(prefix="verif-sout-%s-" % sid, dir="/var/tmp")
    os.rmdir(wt)
    try:
        subprocess.run(["git", "-C", "/repo", "worktree", "add", "--detach", wt, "HEAD"], check=True, capture_output=True)
        a = subprocess.run(["git", "apply", os.path.join(d, "patch.diff")], cwd=wt, capture_output=True, text=True)
        if a.returncode:
            return sid, "patch does not apply to /repo HEAD: " + a.stderr.strip()[:200], None
        res = {}
        for pid in pids:
            t0 = time.time()
            r = subprocess.run([os.path.join(VERIF, "verif"), "check", pid, "--tier", "quick"], cwd=VERIF, capture_output=True, text=True,
                               env=dict(os.environ, VERIF_REPO=wt, VERIF_OUT=out))
            lines = [l for l in (r.stdout + r.stderr).split("\n") if l.startswith(("VIOLATION", "UNPROVED", "CHECKER-ERROR", "KNOWN-FINDING", "HELD"))]
            res[pid] = dict(exit=r.returncode, wall_s=round(time.time() - t0, 1), lines=[l[:300] for l in lines[:6]],
                            n_violation_lines=sum(l.startswith("VIOLATION") for l in lines))
        return sid, None, res
    finally:
        subprocess.run(["git", "-C", "/repo", "worktree", "remove", "--force", wt], capture_output=True)
        shutil.rmtree(wt, ignore_errors=True)
        shutil.rmtree(out, ignore_errors=True)


with ThreadPoolExecutor(jobs) as ex:
    for sid, err, res in ex.map(one, seeds):
        d = os.path.join(VERIF, "seeded", sid)
        meta = json.load(open(os.path.join(d, "meta.json")))
        if err:
            meta["detected_by"] = None
            meta["sweep"] = err
            print("%-8s %s" % (sid, err), flush=True)
        else:
            meta["sweep"] = res
            hit = [p for p, v in res.items() if v["exit"] == 1 and v["n_violation_lines"]]
            meta["detected_by"] = ["./verif check %s --tier quick: %s" % (p, res[p]["lines"][0] if res[p]["lines"] else "") for p in hit] or None
            print("%-8s %s" % (sid, "  ".join("%s:exit=%d(%ss)%s" % (p, v["exit"], v["wall_s"], " CAUGHT" if p in hit else "") for p, v in res.items())), flush=True)
            for p, v in res.items():
                for l in v["lines"][:3]:
                    print("           " + l[:200], flush=True)
        json.dump(meta, open(os.path.join(d, "meta.json"), "w"), indent=1)
