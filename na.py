"""Reasons for properties not claimed (kept current by hand; see DESIGN.md section 6)."""
REASONS = {
    "C03": "whole pipeline encoder->autofill->serialiser->validator over all configurations and pictures: a composition of hundreds of functions over heap structures, generators and third-party code; no per-function contract within reach expresses it (component lemmas are claimed under C11-C14/C20)",
    "C05": "same pipeline plus ~20 test-case generators mutating description trees; equality of decoded pictures across two pipeline runs is relational over whole programs, not a per-call contract",
    "C15": "header generation is a search over generators/partials/constraint-table dictionaries compared with a second program (the decoder); both ends are outside the verifiable subset and the property is relational across them",
    "C16": "quantifies over arbitrary level tables swapped into module globals and relates the encoder's search through them to the validator's incremental checks; both programs are outside the subset and no function-level contract relates the two",
    "C22": "numpy floating-point colour conversion; contract-based deductive verification over SMT integers is silent on floating point",
    "C24": "schedules, processes and hash seeds: concurrency and environment, not call contracts; this family has no handle on it",
    "C26": "1100-line CLI with string formatting and terminal I/O; 'never internal error' is exception-freedom of code that is ~90% outside the verifiable subset",
}
