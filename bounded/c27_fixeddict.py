"""C27 - fixed-entry dictionaries never hold undeclared keys and pickle faithfully.

(b) Frame completeness by reflection (finite ground obligations, back end 'eval'): every attribute of
`dict` in the running interpreter is classified by the trusted table below into "can insert keys"
or not; an unclassified attribute is a checker error (a new Python adding a mutator is noticed).  For
every fixeddict class in the tree and every inserting entry point, calling it with an undeclared key
must raise FixedDictKeyError and leave the key set unchanged; with declared keys it must succeed.

(b') The CALL-FORM MATRIX: each inserting entry point (construction, re-initialisation, update, |=, |,
reflected |, __setstate__, crafted reductions through pickle/copy, item assignment, setdefault, fromkeys)
is called with every call form (no argument / mapping / iterable of pairs in six shapes / keyword arguments
/ positional + keyword arguments) and, in every mapping position, with every ARGUMENT KIND (plain dict,
OrderedDict, dict subclasses with their own keys()/__getitem__/__iter__ - consistent and with storage and
view that differ -, an instance of the same fixeddict class, instances of other fixeddict classes, non-dict
mapping-likes), each carrying declared keys only / one undeclared key / a mixture with the undeclared key
first / last.  Oracle (from the statement, nothing copied from the code): after the call every live
fixed-entry dictionary (result, target, fixeddict operands) holds declared keys only (raw dict view, against
the declared names frozen at the start of the run); an undeclared key is rejected with FixedDictKeyError and,
when the call carried no declared key at all, the target is unchanged; with declared keys only the call
succeeds, the result is of the fixeddict type and holds exactly the items a plain dict would hold.

(c) Pickle / copy: round trip returns an equal dictionary of the same type, for dictionaries holding
every subset pattern of declared keys that the bounded enumeration builds (including '_'-prefixed
hidden entries) and for every dictionary produced by a successful call of the matrix.  Bounded operation
sequences (exhaustive up to the stated length) over three live dictionaries (two of the class, one of another
fixeddict class) stand in for "any sequence of operations"; they are never counted as proved."""
import collections
import collections.abc
import copy
import copyreg
import itertools
import operator
import pickle
import random
import types

# trusted classification of dict's attributes (CPython 3.12): which can ADD keys
INSERTING = {"__init__", "__setitem__", "setdefault", "update", "__ior__", "fromkeys", "__or__", "__ror__", "__new__"}
NOT_INSERTING = {
    "__class__", "__class_getitem__", "__contains__", "__delattr__", "__delitem__", "__dir__", "__doc__", "__eq__", "__format__",
    "__ge__", "__getattribute__", "__getitem__", "__getstate__", "__gt__", "__hash__", "__init_subclass__", "__iter__", "__le__",
    "__len__", "__lt__", "__ne__", "__reduce__", "__reduce_ex__", "__repr__", "__reversed__", "__setattr__", "__sizeof__",
    "__str__", "__subclasshook__", "clear", "copy", "get", "items", "keys", "pop", "popitem", "values",
}
# attributes a fixeddict class has beyond dict's: which of them can add keys (all inserting ones are exercised below)
CLASS_EXTRA_INSERTING = {"__setstate__"}
CLASS_EXTRA_NOT_INSERTING = {"__dict__", "__module__", "__weakref__", "entry_objs", "help", "__getstate__", "__annotations__", "__qualname__", "__slots__"}

BOGUS = "__bogus_undeclared_key__"
BOGUS_KW = "__bogus_undeclared_keyword__"
FDKE = "FixedDictKeyError"


def all_fixeddict_classes():
    import importlib
    import pkgutil
    import vc2_conformance

    out = {}
    for m in pkgutil.walk_packages(vc2_conformance.__path__, "vc2_conformance."):
        if ".scripts" in m.name:
            continue
        try:
            mod = importlib.import_module(m.name)
        except Exception:
            continue
        for name, obj in vars(mod).items():
            if isinstance(obj, type) and issubclass(obj, dict) and hasattr(obj, "entry_objs"):
                out[obj.__module__ + "." + obj.__name__] = obj
    return out


# ------------------------------------------------------------------------------------------------ argument kinds
class _SubDict(dict):
    """A dict subclass with its own keys()/__getitem__/__iter__ (CPython then reads it through these, not through the
    raw storage).  `storage` is what the raw dict holds, `view` is what the overridden methods report."""

    def __init__(self, storage, view):
        dict.__init__(self, storage)
        self._view = list(view)

    def keys(self):
        return [k for k, _ in self._view]

    def __iter__(self):
        return iter(self.keys())

    def __len__(self):
        return len(self._view)

    def __contains__(self, k):
        return any(kk == k for kk, _ in self._view)

    def __getitem__(self, k):
        for kk, v in self._view:
            if kk == k:
                return v
        raise KeyError(k)

    def items(self):
        return list(self._view)

    def values(self):
        return [v for _, v in self._view]


class _KeysIterGetitem(object):
    """Mapping-like that is not a dict: keys(), __getitem__, __iter__, __len__."""

    def __init__(self, items):
        self._items = list(items)

    def keys(self):
        return [k for k, _ in self._items]

    def __iter__(self):
        return iter(self.keys())

    def __len__(self):
        return len(self._items)

    def __getitem__(self, k):
        for kk, v in self._items:
            if kk == k:
                return v
        raise KeyError(k)


class _KeysGetitemOnly(object):
    """The minimal protocol dict.update() accepts: keys() and __getitem__ only (no __iter__)."""

    def __init__(self, items):
        self._items = list(items)

    def keys(self):
        return [k for k, _ in self._items]

    def __getitem__(self, k):
        for kk, v in self._items:
            if kk == k:
                return v
        raise KeyError(k)


class _AbcMapping(collections.abc.Mapping):
    def __init__(self, items):
        self._items = list(items)

    def __iter__(self):
        return iter([k for k, _ in self._items])

    def __len__(self):
        return len(self._items)

    def __getitem__(self, k):
        for kk, v in self._items:
            if kk == k:
                return v
        raise KeyError(k)


class _StrSub(str):
    """A str subclass (equal to and hashing like the plain string)."""


class _Crafted(object):
    """An object whose reduction is the given tuple: pickling / copying it rebuilds whatever the tuple says."""

    def __init__(self, red):
        self._red = red

    def __reduce_ex__(self, proto):
        return self._red() if callable(self._red) else self._red


PAIR_FORMS = [
    ("list-of-tuples", lambda items: [(k, v) for k, v in items]),
    ("tuple-of-lists", lambda items: tuple([k, v] for k, v in items)),
    ("generator", lambda items: ((k, v) for k, v in items)),
    ("list-iterator", lambda items: iter([(k, v) for k, v in items])),
    ("zip", lambda items: zip([k for k, _ in items], [v for _, v in items])),
    ("items-view", lambda items: collections.OrderedDict(items).items()),
]


class _Arg(object):
    """One positional argument: a call form, an argument kind, a carry pattern, the items it presents and a factory."""
    __slots__ = ("form", "kind", "carry", "items", "make", "strong", "is_dict", "allow", "has_bad", "has_good", "observe_only", "note")

    def __init__(self, form, kind, carry, items, make, declared, strong=True, is_dict=False, allow=(), observe_only=False, note=None):
        self.form, self.kind, self.carry, self.items, self.make = form, kind, carry, list(items), make
        self.strong, self.is_dict, self.allow, self.observe_only, self.note = strong, is_dict, frozenset(allow), observe_only, note
        self.has_bad = any(k not in declared for k, _ in self.items)
        self.has_good = any(k in declared for k, _ in self.items)

    def describe(self):
        return {"form": self.form, "kind": self.kind, "carry": self.carry, "items": [[repr(k), repr(v)] for k, v in self.items]}


def _raw(x):
    """The items a dict instance really stores (not what overridable methods report)."""
    return {k: dict.__getitem__(x, k) for k in dict.keys(x)}


def check(rep, tier, seed):
    from pyvc import frontend

    frontend.ensure_repo_on_path()
    from vc2_conformance.fixeddict import FixedDictKeyError

    # ---- reflection: classification is complete
    attrs = set(dir(dict))
    unknown = attrs - INSERTING - NOT_INSERTING
    rep.add_eval_fact("every attribute of dict in this interpreter is classified (inserting / not inserting)", not unknown, repr(sorted(unknown)))
    classes = all_fixeddict_classes()
    rep.add_eval_fact("fixeddict classes found in the tree (State, VideoParameters, CodecFeatures, bitstream descriptions)",
                      len(classes) >= 20 and any(k.endswith(".State") for k in classes) and any(k.endswith(".VideoParameters") for k in classes)
                      and any(k.endswith(".CodecFeatures") for k in classes), "%d classes" % len(classes))
    # the declared names, frozen before anything is called (an operation that *declares* a new name on the fly is noticed)
    DECL = {cls: tuple(cls.entry_objs) for cls in classes.values()}
    DECLSET = {cls: frozenset(v) for cls, v in DECL.items()}
    CNAME = {cls: n for n, cls in classes.items()}
    unclassified_extra = sorted(set().union(*[set(dir(c)) - attrs for c in classes.values()]) - CLASS_EXTRA_INSERTING - CLASS_EXTRA_NOT_INSERTING)
    if unclassified_extra:
        rep.extra_assumptions.append("attributes of fixeddict classes beyond dict's that the C27 check does not classify or exercise: %r" % unclassified_extra)
    rep.extra_coverage["c27_class_attributes_beyond_dict_unclassified"] = unclassified_extra

    def is_fd(x):
        return isinstance(x, dict) and type(x) in DECLSET

    def undeclared(x):
        ds = DECLSET[type(x)]
        return [k for k in dict.keys(x) if k not in ds]

    def legit(C, items):
        """An instance of fixeddict class C holding `items` (all declared by C), built through the public API."""
        o = C()
        for k, v in items:
            o[k] = v
        return o

    def bypass(C, items):
        o = C()
        for k, v in items:
            dict.__setitem__(o, k, v)
        return o

    # ------------------------------------------------------------------------------------------- reporting
    stats = collections.Counter()      # measured counts
    failing = collections.Counter()    # failing calls per report name
    observations = collections.Counter()
    obs_samples = {}
    MAX_REPLAYS = 60

    def report(name, payload):
        """One replay file per distinct case (not per class); every failing call is counted."""
        failing[name] += 1
        if failing[name] == 1 and len(failing) <= MAX_REPLAYS:
            rep.violation(name, payload)

    def observe(tag, sample):
        observations[tag] += 1
        obs_samples.setdefault(tag, sample)

    ROUTES = (("pickle", lambda x: pickle.loads(pickle.dumps(x))), ("pickle-proto2", lambda x: pickle.loads(pickle.dumps(x, 2))),
              ("copy.copy", copy.copy), ("copy.deepcopy", copy.deepcopy), (".copy()", lambda x: x.copy()))

    def roundtrips(cname, cls, d, origin):
        """The pickle/copy clause on one dictionary; returns the number of executions."""
        n = 0
        for how, f in ROUTES:
            n += 1
            try:
                e = f(d)
                ok = type(e) is cls and e is not d and e == d and dict(e) == dict(d) and _raw(e) == _raw(d) and not undeclared(e)
                obs = None if ok else {"type": type(e).__name__, "keys": sorted(map(str, dict.keys(e) if isinstance(e, dict) else []))}
            except Exception as ex:
                ok = False
                obs = repr(ex)
            if not ok:
                report("roundtrip-%s-%s" % (how, origin["entry_point"]),
                       {"what": "%s: %s of a dictionary returns an equal dictionary of the same type" % (cname, how),
                        "inputs": dict(origin, **{"class": cname, "route": how, "items": repr(_raw(d))}),
                        "expected": "an equal %s" % cls.__name__, "observed": obs})
                break
        return n

    def judge(cname, cls, ep, desc, thunk, expect, target=None, model=None, inplace=False, live=(), unchanged_if_raised=False,
              allow=(), check_target_invariant=True, need_type=True, roundtrip=True, case=None):
        """Run one call of the real code and compare with the oracle.
        expect: 'raise' (FixedDictKeyError), 'ok' (no exception; the object holds exactly `model`),
                'either' (FixedDictKeyError or no exception: only the invariant is demanded),
                'raise-or-not-fixeddict' (FixedDictKeyError, or a result that is not a fixed-entry dictionary)."""
        pre = _raw(target) if target is not None else None
        live_pre = [(o, _raw(o)) for o in live]
        stats["calls"] += 1
        stats["calls:" + ep] += 1
        try:
            res = thunk()
            exc = None
        except FixedDictKeyError:
            res, exc = None, FDKE
        except Exception as e:
            res, exc = None, "%s: %s" % (type(e).__name__, str(e)[:100])
        problems = []
        # the invariant of the statement, on every live fixed-entry dictionary
        for role, o in (("result", res), ("target", target if check_target_invariant else None)) + tuple(("operand", o) for o in live):
            if o is not None and is_fd(o):
                bad = undeclared(o)
                if bad:
                    problems.append("%s (%s) holds undeclared keys %r" % (role, type(o).__name__, sorted(map(repr, bad))))
        for o, p in live_pre:
            if _raw(o) != p:
                problems.append("the operand (%s) was modified: %r -> %r" % (type(o).__name__, p, _raw(o)))
        exc_name = exc.split(":")[0] if exc else None
        tolerated = exc_name in allow
        if tolerated:
            observe("%s tolerated %s" % (ep, exc_name), desc)
        elif expect == "raise":
            if exc != FDKE:
                problems.append("expected FixedDictKeyError, observed %s" % (exc or "no exception"))
        elif expect == "ok":
            if exc:
                problems.append("declared keys only: expected success, observed %s" % exc)
            else:
                obj = target if inplace else res
                if inplace and res is not None and res is not target and ep.startswith("|="):
                    problems.append("in-place merge returned a different object (%s)" % type(res).__name__)
                if need_type and type(obj) is not cls:
                    problems.append("the result is a %s, not a %s" % (type(obj).__name__, cls.__name__))
                if model is not None and isinstance(obj, dict) and _raw(obj) != model:
                    problems.append("the dictionary holds %r, expected %r" % (_raw(obj), model))
                if model is not None and not isinstance(obj, dict):
                    try:
                        got = {k: obj[k] for k in obj.keys()}
                    except Exception as e:
                        got = repr(e)
                    if got != model:
                        problems.append("the result holds %r, expected %r" % (got, model))
        elif expect in ("either", "raise-or-not-fixeddict"):
            if exc not in (None, FDKE):
                problems.append("expected FixedDictKeyError or success, observed %s" % exc)
        if exc is not None and target is not None and unchanged_if_raised and check_target_invariant and _raw(target) != pre:
            problems.append("rejected, but the target changed: %r -> %r" % (pre, _raw(target)))
        if problems:
            name = "%s-%s" % (ep, case or "-".join(str(desc.get(k)) for k in ("form", "kind", "carry", "kw") if desc.get(k) is not None))
            report(name, {"what": "%s: %s" % (cname, "; ".join(problems)),
                          "inputs": dict(desc, **{"class": cname, "entry_point": ep, "target_before": repr(pre)}),
                          "expected": {"raise": "FixedDictKeyError, only declared keys afterwards", "ok": "success; items %r" % (model,),
                                       "either": "FixedDictKeyError or success; only declared keys afterwards",
                                       "raise-or-not-fixeddict": "FixedDictKeyError, or a result that is not a fixed-entry dictionary"}[expect],
                          "observed": {"raised": exc, "result_type": type(res).__name__, "result": repr(res)[:300],
                                       "target_after": repr(_raw(target)) if target is not None else None}})
        elif expect == "ok" and exc is None and roundtrip and not tolerated:
            obj = target if inplace else res
            if type(obj) is cls:
                stats["roundtrips_on_products"] += roundtrips(cname, cls, obj, dict(desc, entry_point=ep))
        return exc, res

    # --------------------------------------------------------------------------------- other fixeddict classes
    def foreigns_of(cls):
        """(overlapping, disjoint): other fixeddict classes declaring a key `cls` does not; the first shares as many keys as possible."""
        T = DECLSET[cls]
        cands = [(n, F) for n, F in sorted(classes.items()) if F is not cls and DECLSET[F] - T]
        over = [(len(DECLSET[F] & T), n, F) for n, F in cands if DECLSET[F] & T]
        disj = [F for n, F in cands if not (DECLSET[F] & T)]
        out = []
        if over:
            out.append(("other-fixeddict-overlapping", max(over, key=lambda t: (t[0], t[1]))[2]))
        if disj:
            out.append(("other-fixeddict-disjoint", disj[0]))
        return out

    def carries(good_keys, bad_key, tag="v"):
        good = [(k, (tag, i)) for i, k in enumerate(good_keys)]
        bad = [(bad_key, (tag, "undeclared"))]
        out = [("none", []), ("declared", good), ("undeclared", bad)]
        if good:
            out += [("undeclared-first", bad + good), ("undeclared-last", good + bad)]
        return out

    def positional_args(cls):
        """Every (call form, argument kind, carry) for one positional mapping / iterable argument."""
        T = DECLSET[cls]
        D = DECL[cls]
        g = list(D[:2])
        out = []
        for cn, items in carries(g, BOGUS):
            it = list(items)
            out.append(_Arg("mapping", "dict", cn, it, lambda it=it: dict(it), T, is_dict=True))
            out.append(_Arg("mapping", "OrderedDict", cn, it, lambda it=it: collections.OrderedDict(it), T, is_dict=True))
            out.append(_Arg("mapping", "dict-subclass(own keys/getitem/iter)", cn, it, lambda it=it: _SubDict(it, it), T, is_dict=True))
            out.append(_Arg("mapping", "mappingproxy", cn, it, lambda it=it: types.MappingProxyType(dict(it)), T))
            out.append(_Arg("mapping", "UserDict", cn, it, lambda it=it: collections.UserDict(it), T))
            out.append(_Arg("mapping", "abc.Mapping", cn, it, lambda it=it: _AbcMapping(it), T))
            out.append(_Arg("mapping", "keys+getitem+iter object", cn, it, lambda it=it: _KeysIterGetitem(it), T))
            # dict accepts keys()+__getitem__ alone; the statement does not demand that a fixeddict does: only the invariant
            out.append(_Arg("mapping", "keys+getitem-only object", cn, it, lambda it=it: _KeysGetitemOnly(it), T, strong=False,
                            allow=("KeyError", "TypeError"), note="minimal mapping protocol"))
            # storage and view differ: which one an implementation reads is not fixed by the statement, so only the invariant
            out.append(_Arg("mapping", "dict-subclass(view only, empty storage)", cn, it, lambda it=it: _SubDict([], it), T, strong=False, is_dict=True))
            if any(k not in T for k, _ in it):
                vis = [(k, v) for k, v in it if k in T]
                out.append(_Arg("mapping", "dict-subclass(undeclared key in storage, hidden by keys())", cn, it,
                                lambda it=it, vis=vis: _SubDict(it, vis), T, strong=False, is_dict=True))
            if cn != "none" or True:
                for fn, mk in PAIR_FORMS:
                    out.append(_Arg("pairs:" + fn, "iterable", cn, it, lambda it=it, mk=mk: mk(it), T))
            # an instance of the same class: declared keys through the public API; an undeclared key only by going behind its back
            if not any(k not in T for k, _ in it):
                out.append(_Arg("mapping", "same-fixeddict", cn, it, lambda it=it: legit(cls, it), T, is_dict=True))
            else:
                out.append(_Arg("mapping", "same-fixeddict(polluted via dict.__setitem__)", cn, it, lambda it=it: bypass(cls, it), T,
                                strong=False, is_dict=True, observe_only=True))
        for kind, F in foreigns_of(cls):
            common = [k for k in DECL[F] if k in T][:2]
            fonly = [k for k in DECL[F] if k not in T][0]
            for cn, items in carries(common, fonly, tag="f"):
                if cn == "declared" and not common:
                    continue
                it = list(items)
                out.append(_Arg("mapping", "%s(%s)" % (kind, F.__name__), cn, it, lambda it=it, F=F: legit(F, it), T, is_dict=True))
        return out

    def keyword_args(cls):
        D = DECL[cls]
        last = D[-1]
        fo = foreigns_of(cls)
        out = [("declared", [(last, ("kw", 0))]), ("undeclared", [(BOGUS_KW, ("kw", "undeclared"))]),
               ("undeclared-first", [(BOGUS_KW, ("kw", "undeclared")), (last, ("kw", 0))]),
               ("undeclared-last", [(last, ("kw", 0)), (BOGUS_KW, ("kw", "undeclared"))])]
        if fo:
            F = fo[0][1]
            fonly = [k for k in DECL[F] if k not in DECLSET[cls]][0]
            out.append(("declared-by-%s-only" % F.__name__, [(fonly, ("kw", "foreign"))]))
        if len(D) > 2:
            out.append(("all-declared", [(k, ("kw", i)) for i, k in enumerate(D)]))
        return out

    def merged(pre, *item_lists):
        m = dict(pre)
        for items in item_lists:
            for k, v in items:
                m[k] = v
        return m

    def pre_states(cls):
        D = DECL[cls]
        return [("empty", []), ("one-entry", [(D[0], ("pre", 0))])] + ([("two-entries", [(D[0], ("pre", 0)), (D[-1], ("pre", 1))])] if len(D) > 1 else [])

    def live_of(obj):
        return (obj,) if is_fd(obj) else ()

    samples = []

    # ============================================================================== the call-form matrix
    for cname, cls in sorted(classes.items()):
        T = DECLSET[cls]
        D = DECL[cls]
        pos = positional_args(cls)
        kws = keyword_args(cls)
        stats["argument_specs"] += len(pos)

        def run_pos_kw(ep, call, target_factory, a, kwname, kwitems, reinit=False):
            """One call of an entry point with signature (*pos, **kw)."""
            obj = a.make() if a is not None else None
            d = target_factory() if target_factory else None
            preitems = _raw(d) if d is not None else {}
            pitems = a.items if a is not None else []
            has_bad = (a is not None and a.has_bad) or any(k not in T for k, _ in kwitems)
            has_good = (a is not None and a.has_good) or any(k in T for k, _ in kwitems)
            strong = a is None or a.strong
            desc = dict(a.describe() if a is not None else {"form": "no-positional"}, kw=kwname, kwargs=[[k, repr(v)] for k, v in kwitems])
            if a is None:
                desc["form"] = "keywords" if kwitems else "no-argument"
            elif kwitems:
                desc["form"] = a.form + "+keywords"
            args = () if a is None else (obj,)
            kwargs = dict(kwitems)
            if a is not None and a.observe_only:
                # a same-type operand that was polluted behind the library's back: outside the statement's premise; recorded only
                stats["calls"] += 1
                stats["calls:" + ep] += 1
                try:
                    r = call(d, args, kwargs)
                    out = "accepted" + (", undeclared key propagated" if any(is_fd(x) and x is not obj and undeclared(x) for x in (r, d)) else "")
                except FixedDictKeyError:
                    out = "rejected with FixedDictKeyError"
                except Exception as e:
                    out = "raised " + type(e).__name__
                observe("%s given a same-type instance polluted through dict.__setitem__: %s" % (ep, out), desc)
                return
            if not strong:
                expect = "either"
            elif has_bad:
                expect = "raise"
            else:
                expect = "ok"
            live = () if obj is None or not is_fd(obj) else (obj,)
            model = merged(preitems, pitems, kwitems) if expect == "ok" else None
            exc, res = judge(cname, cls, ep, desc, lambda: call(d, args, kwargs), expect, target=d, model=None if reinit else model,
                             inplace=d is not None, live=live, unchanged_if_raised=strong and not has_good and not reinit,
                             allow=(a.allow if a is not None else ()), check_target_invariant=not reinit)
            if reinit and d is not None and undeclared(d):
                observe("__init__ called again on a live dictionary with an undeclared key: %s, but the key stays in the dictionary" % (exc or "accepted"), desc)

        def sweep_pos_kw(ep, call, target_factories, reinit=False):
            for tf in target_factories:
                run_pos_kw(ep, call, tf, None, "none", [], reinit)                       # no argument
                for kn, kitems in kws:                                                   # keywords only
                    run_pos_kw(ep, call, tf, None, kn, kitems, reinit)
                for a in pos:                                                            # one positional
                    run_pos_kw(ep, call, tf, a, "none", [], reinit)
                for a in pos:                                                            # positional + keywords
                    if a.carry in ("none", "declared", "undeclared"):
                        for kn, kitems in kws:
                            run_pos_kw(ep, call, tf, a, kn, kitems, reinit)

        targets = [(lambda items=items: legit(cls, items)) for _, items in pre_states(cls)]
        sweep_pos_kw("construct", lambda d, a, k: cls(*a, **k), [None])
        sweep_pos_kw("update", lambda d, a, k: (d.update(*a, **k), d)[1], targets)
        sweep_pos_kw("re-__init__", lambda d, a, k: (d.__init__(*a, **k), d)[1], targets[:2], reinit=True)

        # ---- single-operand entry points: |=, |, reflected |, __setstate__
        for a in pos:
            for tf in targets:
                pre = _raw(tf())
                strong, bad = a.strong, a.has_bad
                for ep, call in (("|=", lambda d, x: operator.ior(d, x)), ("|=(__ior__)", lambda d, x: d.__ior__(x))):
                    d, x = tf(), a.make()
                    if a.observe_only:
                        continue
                    allow = set(a.allow) | ({"TypeError"} if a.form.startswith("pairs") else set())
                    judge(cname, cls, ep, a.describe(), lambda: call(d, x), "either" if not strong else "raise" if bad else "ok", target=d,
                          model=merged(pre, a.items), inplace=True, live=live_of(x), unchanged_if_raised=strong and not a.has_good, allow=allow)
                # d | x and x | d: the result need not be a fixed-entry dictionary; if it is one, the invariant applies.  d itself is an operand.
                if a.observe_only:
                    continue
                d, x = tf(), a.make()
                # (a non-dict operand decides itself what `|` means - a dict view returns a set -: then only the invariant is demanded)
                judge(cname, cls, "|", a.describe(), lambda: d | x, "raise-or-not-fixeddict" if bad or not strong else "ok", model=merged(pre, a.items) if a.is_dict else None,
                      live=(d,) + live_of(x), allow=() if a.is_dict else ("TypeError",), need_type=False, roundtrip=False)
                d, x = tf(), a.make()
                ritems = a.items if a.kind != "dict-subclass(view only, empty storage)" else []
                judge(cname, cls, "reflected-|", a.describe(), lambda: x | d, "raise-or-not-fixeddict" if bad or not strong else "ok",
                      model=merged(dict(ritems), list(pre.items())) if a.is_dict else None, live=(d,) + live_of(x), allow=() if a.is_dict else ("TypeError",), need_type=False, roundtrip=False)
            if a.is_dict and not a.observe_only and a.form == "mapping":
                for tf in targets[:2]:
                    d, x = tf(), a.make()
                    pre = _raw(d)
                    judge(cname, cls, "__setstate__", a.describe(), lambda: d.__setstate__(x), "either" if not a.strong else "raise" if a.has_bad else "ok",
                          target=d, model=merged(pre, a.items), inplace=True, live=live_of(x), unchanged_if_raised=a.strong and not a.has_good)

        # ---- unpickling / copying crafted reductions (what __reduce__ emits, and the other shapes pickle understands)
        for cn, items in carries(list(D[:2]), BOGUS, tag="r"):
            it = list(items)
            bad = any(k not in T for k, _ in it)
            shapes = [("(cls,(),state)", lambda: (cls, (), dict(it))), ("(cls,(mapping,))", lambda: (cls, (dict(it),))),
                      ("(cls,(),None,None,dictitems)", lambda: (cls, (), None, None, iter(list(it)))),
                      ("(copyreg.__newobj__,(cls,),state)", lambda: (copyreg.__newobj__, (cls,), dict(it))),
                      ("(cls,(),state,None,dictitems)", lambda: (cls, (), dict(it[:1]), None, iter(list(it[1:]))))]
            for sn, red in shapes:
                for rn, route in (("pickle.loads", lambda o: pickle.loads(pickle.dumps(o))), ("pickle.loads(proto 2)", lambda o: pickle.loads(pickle.dumps(o, 2))),
                                  ("pickle.loads(proto 0)", lambda o: pickle.loads(pickle.dumps(o, 0))), ("copy.copy", copy.copy), ("copy.deepcopy", copy.deepcopy)):
                    if sn.startswith("(copyreg.__newobj__") and rn in ("pickle.loads", "pickle.loads(proto 2)"):
                        continue  # pickle itself refuses to write this shape for an object of another class at protocol >= 2
                    judge(cname, cls, "crafted-reduction", {"form": sn, "kind": rn, "carry": cn, "items": [[repr(k), repr(v)] for k, v in it]},
                          lambda: route(_Crafted(red)), "raise" if bad else "ok", model=dict(it))

        # ---- key-level entry points: every declared key, and a set of undeclared keys of several types
        fo = foreigns_of(cls)
        undecl_keys = [BOGUS, "", D[0] + "_", " " + D[0], 0, None, 1.5, (D[0],), D[0].encode(), frozenset([D[0]]), _StrSub(BOGUS), True]
        if D[0].upper() not in T:
            undecl_keys.append(D[0].upper())
        for _, F in fo:
            undecl_keys.append([k for k in DECL[F] if k not in T][0])
        key_eps = [("d[k]=v", lambda d, k: operator.setitem(d, k, ("s", 1))), ("__setitem__", lambda d, k: d.__setitem__(k, ("s", 1))),
                   ("setdefault", lambda d, k: d.setdefault(k, ("s", 1)))]
        for ep, call in key_eps:
            for k in list(D) + [_StrSub(D[-1])]:
                for tf in targets[:2]:
                    d = tf()
                    pre = _raw(d)
                    model = dict(pre)
                    if ep != "setdefault" or k not in pre:
                        model[k] = ("s", 1)
                    judge(cname, cls, ep, {"form": "key", "kind": type(k).__name__, "carry": "declared", "key": repr(k)}, lambda: call(d, k), "ok",
                          target=d, model=model, inplace=True, roundtrip=(k == D[0] or k == D[-1]))
            for k in undecl_keys:
                for tf in targets[:2]:
                    d = tf()
                    judge(cname, cls, ep, {"form": "key", "kind": type(k).__name__, "carry": "undeclared", "key": repr(k)}, lambda: call(d, k), "raise",
                          target=d, inplace=True, unchanged_if_raised=True, case="undeclared-key-%s" % type(k).__name__)
        # setdefault(key) without a default: dict allows it; the statement only demands that nothing undeclared gets in
        for k in (D[0], BOGUS):
            d = legit(cls, [])
            judge(cname, cls, "setdefault(no default)", {"form": "key-only", "kind": "str", "carry": "declared" if k in T else "undeclared", "key": k},
                  lambda: d.setdefault(k), "either", target=d, inplace=True, allow=("TypeError",), unchanged_if_raised=k not in T)
        # keyword names that collide with parameter names of a Python-level update()/__init__: nothing undeclared may get in
        for kwname in ("self", "E", "F", "other", "args", "kwargs", "key", "value"):
            if kwname in T:
                continue
            d = legit(cls, [])
            judge(cname, cls, "update", {"form": "keywords", "kind": "parameter-like name", "carry": "undeclared", "kw": kwname}, lambda: d.update(**{kwname: 1}),
                  "either", target=d, inplace=True, allow=("TypeError",), unchanged_if_raised=True, case="keyword-named-" + kwname)
            judge(cname, cls, "construct", {"form": "keywords", "kind": "parameter-like name", "carry": "undeclared", "kw": kwname}, lambda: cls(**{kwname: 1}),
                  "either", allow=("TypeError",), case="keyword-named-" + kwname)

        # ---- fromkeys (class and instance spelling; with and without value)
        fk_iterables = [("list", lambda ks: list(ks)), ("tuple", lambda ks: tuple(ks)), ("generator", lambda ks: (k for k in ks)),
                        ("dict", lambda ks: dict.fromkeys(ks, 0)), ("dict-keys-view", lambda ks: dict.fromkeys(ks, 0).keys()), ("list-iterator", lambda ks: iter(list(ks)))]
        for cn, items in carries(list(D[:2]), BOGUS):
            ks = [k for k, _ in items]
            bad = any(k not in T for k in ks)
            for itn, mk in fk_iterables:
                for sp, call in (("cls.fromkeys(it)", lambda it: cls.fromkeys(it)), ("cls.fromkeys(it, v)", lambda it: cls.fromkeys(it, ("fk", 1))),
                                 ("instance.fromkeys(it, v)", lambda it: legit(cls, []).fromkeys(it, ("fk", 1)))):
                    v = None if sp == "cls.fromkeys(it)" else ("fk", 1)
                    judge(cname, cls, "fromkeys", {"form": sp, "kind": itn, "carry": cn, "keys": list(map(repr, ks))}, lambda: call(mk(ks)),
                          "raise-or-not-fixeddict" if bad else "ok", model={k: v for k in ks}, need_type=False)
        for kind, F in fo:
            common = [k for k in DECL[F] if k in T][:2]
            fonly = [k for k in DECL[F] if k not in T][0]
            for cn, items in carries(common, fonly, tag="f"):
                if not items:
                    continue
                f = legit(F, items)
                bad = any(k not in T for k, _ in items)
                judge(cname, cls, "fromkeys", {"form": "cls.fromkeys(it, v)", "kind": "%s(%s)" % (kind, F.__name__), "carry": cn, "keys": [k for k, _ in items]},
                      lambda: cls.fromkeys(f, ("fk", 1)), "raise-or-not-fixeddict" if bad else "ok", model={k: ("fk", 1) for k, _ in items}, live=(f,), need_type=False)

        # ---- copying a dictionary that was polluted behind the library's back: outside the premise of the statement, recorded only
        p = bypass(cls, [(D[0], 1), (BOGUS, 2)])
        for how, f in ROUTES:
            try:
                e = f(p)
                observe("%s of an instance polluted through dict.__setitem__: %s" % (how, "undeclared key propagated" if is_fd(e) and undeclared(e) else "clean result"), cname)
            except FixedDictKeyError:
                observe("%s of an instance polluted through dict.__setitem__: rejected with FixedDictKeyError" % how, cname)
        if len(samples) < 2:
            samples.append({"class": cname, "positional_argument_specs": len(pos), "keyword_specs": [k for k, _ in kws],
                            "other_fixeddicts": [F.__name__ for _, F in fo]})

    # ---- every ordered pair (target class, other fixeddict class declaring a key the target does not)
    for cname, cls in sorted(classes.items()):
        T = DECLSET[cls]
        for fname, F in sorted(classes.items()):
            if F is cls or not (DECLSET[F] - T):
                continue
            fonly = [k for k in DECL[F] if k not in T]
            common = [k for k in DECL[F] if k in T]
            items_bad = [(k, ("f", i)) for i, k in enumerate(common[:1])] + [(fonly[-1], ("f", "undeclared"))]
            items_good = [(k, ("f", i)) for i, k in enumerate(common)]
            desc = lambda carry, items: {"form": "mapping", "kind": "other-fixeddict(%s)" % F.__name__, "carry": carry, "items": [[k, repr(v)] for k, v in items]}
            for ep, call, inplace in (("construct", lambda d, x: cls(x), False), ("update", lambda d, x: (d.update(x), d)[1], True),
                                      ("|=", lambda d, x: operator.ior(d, x), True), ("__setstate__", lambda d, x: (d.__setstate__(x), d)[1], True)):
                d, x = legit(cls, []), legit(F, items_bad)
                judge(cname, cls, ep, desc("undeclared-last", items_bad), lambda: call(d, x), "raise", target=d if inplace else None, inplace=inplace, live=(x,),
                      case="all-pairs-other-fixeddict-undeclared")
                d, x = legit(cls, []), legit(F, items_good)
                judge(cname, cls, ep, desc("declared", items_good), lambda: call(d, x), "ok", target=d if inplace else None, inplace=inplace, live=(x,),
                      model=dict(items_good), case="all-pairs-other-fixeddict-declared", roundtrip=False)
            d, x = legit(cls, []), legit(F, items_good)
            judge(cname, cls, "construct", dict(desc("declared", items_good), kw="declared-by-%s-only" % F.__name__), lambda: cls(x, **{fonly[0]: 1}), "raise", live=(x,),
                  case="all-pairs-other-fixeddict-plus-keyword")
            stats["class_pairs"] += 1

    changed = [CNAME[c] for c in DECL if tuple(c.entry_objs) != DECL[c]]
    rep.add_eval_fact("the declared names of every fixeddict class are the same after the run as before it", not changed, repr(changed))
    n_fail = sum(failing.values())
    rep.add_eval_fact("every key-inserting entry point, on every fixeddict class, in every call form and with every argument kind: undeclared keys are rejected with "
                      "FixedDictKeyError, declared keys are accepted, no live fixed-entry dictionary ever holds an undeclared key (%d calls)" % stats["calls"],
                      n_fail == 0, "%d failing calls in %d distinct cases" % (n_fail, len(failing)))
    per_ep = {k[6:]: v for k, v in sorted(stats.items()) if k.startswith("calls:")}
    rep.add_bounded("call-form matrix", "every fixeddict class (%d) x entry points %s x call forms {no argument, mapping, 6 shapes of iterable of pairs, keywords, positional+keywords} "
                    "x argument kinds {dict, OrderedDict, dict subclass with own keys/getitem/iter (consistent / view-only / undeclared key hidden in storage), same fixeddict, "
                    "overlapping and disjoint other fixeddict, mappingproxy, UserDict, abc.Mapping, keys+getitem(+iter) objects} x carries {none, declared, undeclared, undeclared first, undeclared last} "
                    "x 2-3 target states; plus every ordered pair of classes (%d) for construct/update/|=/__setstate__" % (len(classes), sorted(per_ep), stats["class_pairs"]),
                    stats["calls"], True, distinct=stats["calls"], samples=samples, note="calls per entry point: %r" % per_ep)
    rep.extra_coverage["c27_calls_per_entry_point"] = per_ep
    rep.extra_coverage["c27_positional_argument_specs_total"] = stats["argument_specs"]
    rep.extra_coverage["c27_observations_outside_the_statement"] = {k: {"count": v, "first": obs_samples.get(k)} for k, v in sorted(observations.items())}

    # ---- pickle / copy round trips, including hidden ('_'-prefixed) entries
    evals2 = 0
    rng = random.Random(seed)
    for cname, cls in sorted(classes.items()):
        declared = list(cls.entry_objs)
        hidden = [k for k in declared if k.startswith("_")]
        subsets = [[], declared[:1], declared[-1:], declared, hidden, hidden[:1] + declared[:1]]
        for _ in range(4 if tier == "quick" else 40):
            subsets.append([k for k in declared if rng.random() < 0.5])
        for keys in subsets:
            d = cls()
            for i, k in enumerate(keys):
                d[k] = (i, str(k))
            for how, f in (("pickle", lambda x: pickle.loads(pickle.dumps(x))), ("pickle-proto2", lambda x: pickle.loads(pickle.dumps(x, 2))),
                           ("copy.copy", copy.copy), ("copy.deepcopy", copy.deepcopy), (".copy()", lambda x: x.copy())):
                evals2 += 1
                try:
                    e = f(d)
                    ok = type(e) is cls and e == d and dict(e) == dict(d) and set(e.keys()) <= set(declared)
                    obs = None if ok else {"type": type(e).__name__, "keys": sorted(map(str, e.keys()))}
                except Exception as ex:
                    ok = False
                    obs = repr(ex)
                if not ok:
                    rep.violation("roundtrip-%s-%s" % (cls.__name__, how),
                                  {"what": "%s: %s of a dictionary returns an equal dictionary of the same type" % (cname, how),
                                   "inputs": {"class": cname, "keys": keys}, "observed": obs})
                    break
    rep.add_bounded("pickle/copy round trips", "every fixeddict class x {empty, first, last, all, hidden, mixed, seeded random subsets} x 5 copy/pickle routes; "
                    "and the same 5 routes on every dictionary produced by a successful call of the call-form matrix (%d more executions)" % stats["roundtrips_on_products"],
                    evals2 + stats["roundtrips_on_products"], False, distinct=evals2 + stats["roundtrips_on_products"],
                    samples=[{"class": "State", "keys": ["_num_pictures_in_sequence"], "route": "pickle"}])

    # ---- operation sequences (exhaustive up to length L) over three live dictionaries, on four representative classes
    L = 3 if tier == "quick" else 4
    reps = [c for n, c in sorted(classes.items()) if n.endswith((".State", ".VideoParameters", ".CodecFeatures", ".ParseInfo"))]
    global _SEQ_CTX
    shards = []
    nops = None
    for cls in reps:
        fo = foreigns_of(cls)
        F = fo[0][1]
        ops = _sequence_ops(cls, F, DECL, DECLSET)
        nops = len(ops)
        for i in range(len(ops)):
            shards.append((cls, F, ops, i))
    _SEQ_CTX = dict(shards=shards, L=L, DECLSET=DECLSET, FDKE=FixedDictKeyError)
    if tier == "quick":
        results = [_run_shard(i) for i in range(len(shards))]
    else:
        import multiprocessing

        with multiprocessing.get_context("fork").Pool(4) as pool:
            results = pool.map(_run_shard, range(len(shards)), chunksize=1)
    evals3 = sum(r[0] for r in results)
    steps3 = sum(r[1] for r in results)
    seen = set()
    for (cls, F, ops, i), r in zip(shards, results):
        if r[2] is not None and cls not in seen:
            seen.add(cls)
            rep.violation("opseq-%s" % cls.__name__, {"what": "%s: %s" % (cls.__name__, r[2]["problem"]),
                                                       "inputs": {"class": CNAME[cls], "other_class": CNAME[F], "ops": r[2]["ops"],
                                                                  "note": "d, e: instances of the class; f: instance of the other class; all start empty"},
                                                       "expected": "after every step every live fixed-entry dictionary holds declared keys only; only FixedDictKeyError is raised",
                                                       "observed": r[2]["observed"]})
    rep.add_bounded("operation sequences", "exhaustive: all sequences of length %d over %d operations (item assignment, setdefault, update / |= / construction / __setstate__ with dicts, pairs, "
                    "generators, keywords, positional+keywords, OrderedDict, dict subclass, same-type and other-type fixeddict operands, |, fromkeys, copy, copy.copy, pickle, pop, clear) "
                    "on three live dictionaries (d, e of the class; f of another fixeddict class), invariant checked on all three after every step; "
                    "classes State, VideoParameters, CodecFeatures, ParseInfo" % (L, nops),
                    evals3, True, distinct=evals3, samples=[[o[0] for o in shards[0][2]][:12]], note="%d operation executions" % steps3)
    _SEQ_CTX = None


_SEQ_CTX = None


def _sequence_ops(cls, F, DECL, DECLSET):
    """The operation alphabet: each op acts on the heap h = [d, e, f] (d, e: cls; f: the other fixeddict class F)."""
    T = DECL[cls]
    good, good2 = T[0], T[-1]
    common = [k for k in DECL[F] if k in DECLSET[cls]]
    fonly = [k for k in DECL[F] if k not in DECLSET[cls]][0]
    fgood = common[0] if common else DECL[F][0]

    def is_fd(x):
        return isinstance(x, dict) and type(x) in DECLSET

    def assign(i, f):
        def op(h):
            h[i] = f(h)
        return op

    def or_bad(h):
        r = h[0] | {BOGUS: 1}
        if is_fd(r):
            h[0] = r

    def ior_stmt(i, f):
        def op(h):
            x = h[i]
            x |= f(h)
            h[i] = x
        return op

    return [
        ("d[good]=1", lambda h: h[0].__setitem__(good, 1)),
        ("d[BOGUS]=1", lambda h: h[0].__setitem__(BOGUS, 1)),
        ("d[key of F only]=1", lambda h: h[0].__setitem__(fonly, 1)),
        ("d.setdefault(good2,2)", lambda h: h[0].setdefault(good2, 2)),
        ("d.setdefault(BOGUS,2)", lambda h: h[0].setdefault(BOGUS, 2)),
        ("d.update({good:3})", lambda h: h[0].update({good: 3})),
        ("d.update([(good,3),(BOGUS,3)])", lambda h: h[0].update([(good, 3), (BOGUS, 3)])),
        ("d.update(**{BOGUS:3})", lambda h: h[0].update(**{BOGUS: 3})),
        ("d.update({good:4},**{BOGUS:4})", lambda h: h[0].update({good: 4}, **{BOGUS: 4})),
        ("d.update(generator good,BOGUS)", lambda h: h[0].update((k, 5) for k in (good2, BOGUS))),
        ("d.update(OrderedDict BOGUS,good)", lambda h: h[0].update(collections.OrderedDict([(BOGUS, 6), (good, 6)]))),
        ("d.update(e)", lambda h: h[0].update(h[1])),
        ("d.update(f)", lambda h: h[0].update(h[2])),
        ("d.update(e,**{BOGUS:7})", lambda h: h[0].update(h[1], **{BOGUS: 7})),
        ("d|={BOGUS:4}", ior_stmt(0, lambda h: {BOGUS: 4})),
        ("d|=f", ior_stmt(0, lambda h: h[2])),
        ("d|=e", ior_stmt(0, lambda h: h[1])),
        ("d|=[(BOGUS,8)]", ior_stmt(0, lambda h: [(BOGUS, 8)])),
        ("d|=dict-subclass{good,BOGUS}", ior_stmt(0, lambda h: _SubDict([(good, 9), (BOGUS, 9)], [(good, 9), (BOGUS, 9)]))),
        ("d.__ior__(OrderedDict{BOGUS})", lambda h: h[0].__ior__(collections.OrderedDict([(BOGUS, 9)]))),
        ("f|=d", ior_stmt(2, lambda h: h[0])),
        ("f.update(d)", lambda h: h[2].update(h[0])),
        ("d=cls(d)", assign(0, lambda h: cls(h[0]))),
        ("d=cls(d,**{BOGUS:1})", assign(0, lambda h: cls(h[0], **{BOGUS: 1}))),
        ("d=cls(e,**{good:2})", assign(0, lambda h: cls(h[1], **{good: 2}))),
        ("d=cls(e,**{key of F only:2})", assign(0, lambda h: cls(h[1], **{fonly: 2}))),
        ("d=cls(f)", assign(0, lambda h: cls(h[2]))),
        ("d=cls(f,**{good:3})", assign(0, lambda h: cls(h[2], **{good: 3}))),
        ("d=cls([(good,1),(BOGUS,1)])", assign(0, lambda h: cls([(good, 1), (BOGUS, 1)]))),
        ("e=d.copy()", assign(1, lambda h: h[0].copy())),
        ("d=copy.copy(d)", assign(0, lambda h: copy.copy(h[0]))),
        ("d=pickle.loads(pickle.dumps(d))", assign(0, lambda h: pickle.loads(pickle.dumps(h[0])))),
        ("d=d|{BOGUS:1} if that is a fixeddict", or_bad),
        ("d=cls.fromkeys(list(d)+[BOGUS])", assign(0, lambda h: cls.fromkeys(list(h[0]) + [BOGUS]))),
        ("d.__setstate__({good:5,BOGUS:5})", lambda h: h[0].__setstate__({good: 5, BOGUS: 5})),
        ("d.__setstate__(f)", lambda h: h[0].__setstate__(h[2])),
        ("e[good2]=5", lambda h: h[1].__setitem__(good2, 5)),
        ("f[key of F only]=6", lambda h: h[2].__setitem__(fonly, 6)),
        ("f[%s]=7" % ("shared key" if common else "first key"), lambda h: h[2].__setitem__(fgood, 7)),
        ("d.pop(good,None)", lambda h: h[0].pop(good, None)),
        ("d.clear()", lambda h: h[0].clear()),
    ]


def _run_shard(idx):
    """All sequences of length L that start with one given operation, on one class.  Returns (sequences, steps, first failure)."""
    ctx = _SEQ_CTX
    cls, F, ops, first = ctx["shards"][idx]
    L, DECLSET, FixedDictKeyError = ctx["L"], ctx["DECLSET"], ctx["FDKE"]
    want = (cls, cls, F)
    sup = [DECLSET[c].issuperset for c in want]
    nseq = nsteps = 0
    for tail in itertools.product(ops, repeat=L - 1):
        seq = (ops[first],) + tail
        h = [cls(), cls(), F()]
        nseq += 1
        for si, (name, op) in enumerate(seq):
            nsteps += 1
            problem = None
            try:
                op(h)
            except FixedDictKeyError:
                pass
            except Exception as e:
                problem = "an operation raised %s: %s" % (type(e).__name__, str(e)[:100])
            if problem is None:
                for j in range(3):
                    x = h[j]
                    if type(x) is not want[j]:
                        problem = "%s is a %s after the step, not a %s" % ("def"[j], type(x).__name__, want[j].__name__)
                    elif not sup[j](dict.keys(x)):
                        problem = "%s (%s) holds undeclared keys %r" % ("def"[j], want[j].__name__, sorted(map(repr, set(dict.keys(x)) - DECLSET[want[j]])))
            if problem is not None:
                return nseq, nsteps, {"problem": problem, "ops": [n for n, _ in seq[:si + 1]],
                                      "observed": {"d": repr(dict(h[0])), "e": repr(dict(h[1])), "f": repr(dict(h[2]))}}
    return nseq, nsteps, None


REGISTER = {
    "C27": dict(
        extra=[check],
        level="other",
        assumptions=[
            "TRUSTED table classifying CPython's dict attributes into key-inserting / not (checked for completeness against dir(dict) each run)",
            "BOUNDED: operation sequences are exhaustive only up to the stated length over the stated operation alphabet; pickle/copy round trips are sampled",
            "BOUNDED: the call-form matrix enumerates the stated call forms, argument kinds and carry patterns (one or two declared keys, one undeclared key); "
            "argument kinds whose storage and view differ, the minimal keys()+__getitem__ protocol, setdefault without default and keyword names that collide with "
            "Python-level parameter names are held to the invariant only (the statement does not fix whether they are accepted)",
            "calling __init__ again on a live dictionary must reject an undeclared key, but the state it leaves behind is only recorded (the statement speaks of construction)",
        ],
        manifest=dict(
            category="other",
            technique="reflection over dict's mutators + exhaustive ground evaluation of a call-form x argument-kind x carry matrix on every fixeddict class; bounded operation sequences over three live dictionaries; (deductive contracts on the closure bodies: see DESIGN)",
            text="Every key-inserting entry point of dict (enumerated from the running interpreter, classification complete or checker error) plus __setstate__ and crafted reductions "
                 "is exercised on every fixed-entry dictionary class of the tree in every call form (no argument, mapping, iterable of pairs, generator, keywords, positional+keywords) "
                 "with every argument kind (dict, OrderedDict, dict subclass, same fixeddict, other fixeddict, non-dict mapping) carrying declared / undeclared / mixed keys; "
                 "pickle/copy/deepcopy/.copy() round trips incl. hidden entries and on every dictionary the matrix produces; "
                 "all operation sequences up to the stated length on four representative classes with the invariant checked after every step on every live dictionary.",
            note="A bounded/evaluation stand-in: 'any sequence of operations' is covered only up to the stated length; the classification table of dict attributes is trusted.",
        ),
    )
}
