from . import symexec, stmts, calls  # noqa
from . import ext

ext.install(symexec.Exec, stmts.Runner)
ext.install_calls()
from . import ext2

ext2.install(symexec.Exec, stmts.Runner)
ext2.install_calls()
