"""Decoding of heap objects from a z3 model (for replay)."""


def decode_ref(model, sv, unit, depth=0):
    return "<ref %s>" % (sv.x,)
