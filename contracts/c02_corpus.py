"""Native inputs for the validator contracts (replay of counter-models / bounded stand-in): decoder states
positioned at the start of small streams built with the repository's own serialiser, plus seeded mutations.
Used ONLY by the native contract runner (pyvc/nativefn.py); never by the proofs."""
from io import BytesIO

_CACHE = {}


def _streams():
    if "s" in _CACHE:
        return _CACHE["s"]
    import vc2_data_tables as tables
    from vc2_conformance import bitstream as bs

    PC = tables.ParseCodes

    def hdr(level=0, bvf=0, size=(4, 2), major_version=bs.AUTO, pcm=0, profile=bs.AUTO):
        vp = bs.SourceParameters()
        if size is not None:
            w, h = size
            vp = bs.SourceParameters(frame_size=bs.FrameSize(custom_dimensions_flag=True, frame_width=w, frame_height=h),
                                     clean_area=bs.CleanArea(custom_clean_area_flag=True, clean_width=w, clean_height=h))
        pp = bs.ParseParameters(major_version=major_version, level=level)
        if profile is not bs.AUTO:
            pp["profile"] = profile
        return bs.DataUnit(parse_info=bs.ParseInfo(parse_code=PC.sequence_header),
                           sequence_header=bs.SequenceHeader(parse_parameters=pp, base_video_format=bvf, video_parameters=vp, picture_coding_mode=pcm))

    def hq_pic(n=bs.AUTO):
        return bs.DataUnit(parse_info=bs.ParseInfo(parse_code=PC.high_quality_picture),
                           picture_parse=bs.PictureParse(picture_header=bs.PictureHeader(picture_number=n)))

    def ld_pic(n=bs.AUTO):
        return bs.DataUnit(parse_info=bs.ParseInfo(parse_code=PC.low_delay_picture),
                           picture_parse=bs.PictureParse(picture_header=bs.PictureHeader(picture_number=n)))

    def frags(n, send, total=2, code=PC.high_quality_picture_fragment, first=True):
        out = []
        if first:
            out.append(bs.DataUnit(parse_info=bs.ParseInfo(parse_code=code), fragment_parse=bs.FragmentParse(
                fragment_header=bs.FragmentHeader(picture_number=n, fragment_slice_count=0),
                transform_parameters=bs.TransformParameters(slice_parameters=bs.SliceParameters(slices_x=total, slices_y=1)))))
        for x in send:
            out.append(bs.DataUnit(parse_info=bs.ParseInfo(parse_code=code), fragment_parse=bs.FragmentParse(
                fragment_header=bs.FragmentHeader(picture_number=n, fragment_slice_count=1, fragment_x_offset=x, fragment_y_offset=0))))
        return out

    def pad(k=3):
        return bs.DataUnit(parse_info=bs.ParseInfo(parse_code=PC.padding_data), padding=bs.Padding(bytes=b"\x00" * k))

    def aux(k=2):
        return bs.DataUnit(parse_info=bs.ParseInfo(parse_code=PC.auxiliary_data), auxiliary_data=bs.AuxiliaryData(bytes=b"\xAB" * k))

    def eos():
        return bs.DataUnit(parse_info=bs.ParseInfo(parse_code=PC.end_of_sequence))

    def ser(*seqs):
        f = BytesIO()
        bs.autofill_and_serialise_stream(f, bs.Stream(sequences=[bs.Sequence(data_units=list(u)) for u in seqs]))
        return f.getvalue()

    S = {}
    S["hq"] = ser([hdr(), hq_pic(0), eos()])
    S["hq2"] = ser([hdr(), hq_pic(5), pad(), hq_pic(6), aux(), eos()])
    S["empty"] = ser([hdr(), eos()])
    S["hdr_twice"] = ser([hdr(), hq_pic(0), hdr(), hq_pic(1), eos()])
    S["fields"] = ser([hdr(pcm=1, size=(4, 4)), hq_pic(0), hq_pic(1), eos()])
    S["fields_odd"] = ser([hdr(pcm=1, size=(4, 4)), hq_pic(0), eos()])
    S["fields_oddfirst"] = ser([hdr(pcm=1, size=(4, 4)), hq_pic(1), hq_pic(2), eos()])
    S["wrap"] = ser([hdr(), hq_pic(2 ** 32 - 1), hq_pic(0), eos()])
    S["skip"] = ser([hdr(), hq_pic(1), hq_pic(3), eos()])
    S["frag_ok"] = ser([hdr(), *frags(0, [0, 1]), eos()])
    S["frag_aux"] = ser([hdr(), *frags(0, [0]), aux(), *frags(0, [1], first=False), eos()])
    S["frag_incomplete"] = ser([hdr(), *frags(0, [0]), eos()])
    S["frag_restart"] = ser([hdr(), *frags(0, [0]), *frags(1, [0, 1]), eos()])
    S["frag_gap"] = ser([hdr(), *frags(0, [1]), eos()])
    S["frag_pic"] = ser([hdr(), *frags(0, [0]), hq_pic(1), eos()])
    S["frag_numchange"] = ser([hdr(), *frags(0, [0]), *frags(1, [1], first=False), eos()])
    S["two"] = ser([hdr(), hq_pic(0), eos()], [hdr(size=(8, 2)), hq_pic(7), eos()])
    S["inc_then_ok"] = ser([hdr(), *frags(0, [0]), eos()], [hdr(), hq_pic(0), eos()])
    S["ld"] = ser([hdr(profile=tables.Profiles.low_delay), ld_pic(0), eos()])
    S["level1"] = ser([hdr(level=1, bvf=1, size=None), hq_pic(0), eos()])
    S["ld_frag"] = ser([hdr(profile=tables.Profiles.low_delay, major_version=3), *frags(0, [0, 1], code=PC.low_delay_picture_fragment), eos()])
    S["ld_two"] = ser([hdr(profile=tables.Profiles.low_delay), ld_pic(0), pad(), ld_pic(1), eos()])
    S["no_eos"] = S["hq"][:-13]
    _CACHE["s"] = S
    return S


def stream_bytes(rng):
    S = _streams()
    names = sorted(S)
    data = bytearray(S[rng.choice(names)])
    r = rng.random()
    if r < 0.25:
        data += S[rng.choice(names)]
    elif r < 0.40 and len(data) > 1:
        del data[rng.randrange(len(data)):]
    elif r < 0.55 and data:
        data[rng.randrange(len(data))] ^= 1 << rng.randrange(8)
    elif r < 0.62 and data:
        i = rng.randrange(len(data))
        data[i:i] = bytes([rng.randrange(256)])
    elif r < 0.80:
        # field-aware: the parse code of one data unit replaced by another defined parse code (e.g. an HQ fragment inside a low-delay stream)
        import vc2_data_tables as tables

        starts = [i for i in range(len(data) - 4) if data[i:i + 4] == b"BBCD"]
        if starts:
            data[rng.choice(starts) + 4] = int(rng.choice(list(tables.ParseCodes)))
    return bytes(data)


def gen_state(rng):
    """A State as init_io leaves it at the start of a stream (what parse_stream / parse_sequence are called with)."""
    from vc2_conformance.pseudocode.state import State
    from vc2_conformance.decoder import io as dio

    state = State()
    dio.init_io(state, BytesIO(stream_bytes(rng)))
    return state


GENERATORS = {"dict:State": gen_state}


def drive_validator(rng):
    """Runs the real validator on one corpus stream (with seeded mutations); conformance errors are verdicts."""
    from vc2_conformance.pseudocode.state import State
    from vc2_conformance.decoder import io as dio
    from vc2_conformance import decoder

    data = stream_bytes(rng)
    drive_validator.last_input = {"stream_hex": data.hex()}
    state = State()
    dio.init_io(state, BytesIO(data))
    try:
        decoder.parse_stream(state)
    except decoder.ConformanceError:
        pass
    return drive_validator.last_input


MONITOR_DRIVER = drive_validator
