#!/usr/bin/env python3
"""Regenerates MANIFEST.json from props.py (claimed checks) and na.py (not applicable reasons)."""
import json, os, sys
HERE = os.path.dirname(os.path.dirname(os.path.abspath(__file__)))
sys.path.insert(0, HERE)
import props, na

ids = [json.loads(l)["id"] for l in open(os.path.join(HERE, "properties.jsonl"))]
checks = []
for pid in ids:
    if pid not in props.PROPS or pid not in props.CLAIMED:
        continue
    if pid in props.BROKEN:
        sys.exit("bounded module of %s does not import: %s" % (pid, props.BROKEN[pid]))
    P = props.PROPS[pid]
    M = P["manifest"]
    checks.append({
        "property_id": pid,
        "quick_cmd": "./verif check %s --tier quick" % pid,
        "thorough_cmd": "./verif check %s --tier thorough" % pid,
        "evidence_file": "evidence/%s.json" % pid,
        "replay_cmd_template": "./verif replay {path}",
        "engine": "pyvc",
        "level_claimed": {"category": M["category"], "text": M["text"], "design_ref": M.get("design_ref", "DESIGN.md section 5, " + pid)},
        "level_note": M["note"],
        "technique": M["technique"],
    })
nas = []
for pid in ids:
    if pid in props.PROPS and pid in props.CLAIMED:
        continue
    nas.append({"property_id": pid, "reason": na.REASONS.get(pid, "check not built yet (see DESIGN.md section 5 for the plan)")})
m = {
    "version": 1,
    "setup_cmd": "./setup.sh",
    "hooks": {
        "guard": "VC2_CONFORMANCE_VERIF",
        "enable": "no hooks: contracts are sidecar files under /verif/contracts keyed by the qualified name of the real function; the real source is read with ast on every run",
        "baseline_off_cmd": "cd /repo && /venv/bin/python -m pytest -ra -q -p no:cacheprovider --timeout=900 --continue-on-collection-errors",
        "source_commits": [],
        "add_only": True,
    },
    "engines": [{"name": "pyvc", "path": "pyvc/", "serves_properties": [c["property_id"] for c in checks],
                 "kind_free_text": "self-built deductive verifier: Python ast of the real functions (re-read from /repo each run) -> verification conditions against sidecar contracts/lemmas -> z3 5.1 (cvc5 on unknown); counter-models replayed on the real code; bounded native contract checks as the labelled stand-in"}],
    "checks": checks,
    "notes": "See DESIGN.md. Exit codes: 0 held (KNOWN-FINDING lines for listed findings), 1 VIOLATION, 3 checker error. unknown/timeout never map to a violation.",
    "not_applicable": nas,
}
json.dump(m, open(os.path.join(HERE, "MANIFEST.json"), "w"), indent=1)
try:
    import jsonschema
    jsonschema.validate(m, json.load(open("/root/.vp/MANIFEST.schema.json")))
    print("MANIFEST valid:", len(checks), "checks,", len(nas), "not applicable")
except ImportError:
    print("written (jsonschema not available for validation)")
