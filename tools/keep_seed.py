#!/usr/bin/env python3
"""keep_seed.py <seed_dir> <id> <property> : store a confirmed seeded change under /verif/seeded/<id>/."""
import json, os, shutil, sys
src, sid, pid = sys.argv[1:4]
conf = json.load(open(os.path.join(src, "confirm.json")))
assert conf["confirmed"], "not confirmed"
dst = os.path.join("/verif/seeded", sid)
os.makedirs(dst, exist_ok=True)
for f in ("patch.diff", "demo.py", "notes.md"):
    shutil.copy(os.path.join(src, f), os.path.join(dst, f))
notes = open(os.path.join(src, "notes.md")).read()
meta = {
    "id": sid, "property": pid,
    "needs_to_manifest": notes.strip().split("\n")[0:12],
    "confirmed_by": "tools/confirm_seed.py in a scratch worktree: demo exits 0 on the pinned tree and non-zero with the patch; "
                    "every test of BASELINE.json stable_pass still passes with the patch",
    "confirm": {k: conf[k] for k in ("demo_unchanged_exit", "demo_patched_exit", "pytest_tail", "n_missing")},
    "detected_by": None,
}
json.dump(meta, open(os.path.join(dst, "meta.json"), "w"), indent=1)
print("kept", dst)
