#!/usr/bin/env python3
"""confirm_seed.py <seed_dir> <worktree> : independently confirms a seeded change:
demo passes on the pinned tree, fails with the patch; the full pinned test suite (BASELINE stable_pass)
still passes with the patch.  Writes <seed_dir>/confirm.json.  The worktree is restored afterwards."""
import json, os, subprocess, sys, xml.etree.ElementTree as ET

seed, wt = sys.argv[1], sys.argv[2]
env = dict(os.environ, PYTHONPATH=wt, PATH="/venv/bin:" + os.environ["PATH"])
def sh(cmd, **kw):
    return subprocess.run(cmd, shell=True, cwd=wt, env=env, capture_output=True, text=True, **kw)
out = {}
sh("git checkout -- . && git clean -fdq -e 'seed_*'")
r = sh("/venv/bin/python %s/demo.py" % seed, timeout=1800)
out["demo_unchanged_exit"] = r.returncode
a = sh("git apply %s/patch.diff" % seed)
out["apply"] = a.returncode
r = sh("/venv/bin/python %s/demo.py" % seed, timeout=1800)
out["demo_patched_exit"] = r.returncode
out["demo_patched_tail"] = (r.stdout + r.stderr)[-400:]
junit = "/tmp/junit_%d.xml" % os.getpid()
t = sh("/venv/bin/python -m pytest -q -p no:cacheprovider --timeout=900 --continue-on-collection-errors -n 6 --junitxml=%s" % junit, timeout=7200)
out["pytest_tail"] = t.stdout.strip().split("\n")[-1]
passed = set()
for tc in ET.parse(junit).getroot().iter("testcase"):
    if not any(ch.tag in ("failure", "error", "skipped") for ch in tc):
        passed.add((tc.get("classname") + "::" + tc.get("name")).replace(wt, "/repo"))
os.unlink(junit)
base = set(json.load(open("/root/.vp/BASELINE.json"))["stable_pass"])
missing = sorted(base - passed)
out["baseline_tests"] = len(base)
out["baseline_tests_not_passing_with_patch"] = missing[:20]
out["n_missing"] = len(missing)
sh("git checkout -- . ")
out["confirmed"] = (out["demo_unchanged_exit"] == 0 and out["apply"] == 0 and out["demo_patched_exit"] != 0 and not missing)
json.dump(out, open(os.path.join(seed, "confirm.json"), "w"), indent=1)
print(seed, "CONFIRMED" if out["confirmed"] else "NOT-CONFIRMED", out["pytest_tail"], "missing", len(missing), missing[:3])
