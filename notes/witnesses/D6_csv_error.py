import io
from vc2_conformance.codec_features import read_codec_features_csv, InvalidCodecFeaturesError
src=open('/repo/tests/sample_codec_features.csv').read()
for name,txt in [("bigfield", "name," + "x"*200000 + "\n"), ("nul","name,a\x00b\n"), ("quote",'name,"abc\n'), ("cr", "name,a\rb\n")]:
    try:
        r=read_codec_features_csv(io.StringIO(txt)); print(name,"ok",r)
    except InvalidCodecFeaturesError as e: print(name,"ICFE",str(e)[:80])
    except Exception as e: print(name,"OTHER",type(e).__module__,type(e).__name__,str(e)[:80])
