import ast, sys, os, json
root='/repo/vc2_conformance'
mods=['decoder/io.py','decoder/stream.py','decoder/sequence_header.py','decoder/picture_syntax.py','decoder/fragment_syntax.py','decoder/transform_data_syntax.py','decoder/assertions.py','pseudocode/video_parameters.py','pseudocode/picture_decoding.py','pseudocode/parse_code_functions.py','pseudocode/slice_sizes.py','pseudocode/state.py']
out={}
for m in mods:
    tree=ast.parse(open(os.path.join(root,m)).read())
    for fn in [n for n in ast.walk(tree) if isinstance(n,ast.FunctionDef)]:
        args=[a.arg for a in fn.args.args]
        if 'state' not in args: continue
        R=set();Wr=set();T=set();G=set();D=set();calls=set();dyn=0
        for n in ast.walk(fn):
            if isinstance(n,ast.Subscript) and isinstance(n.value,ast.Name) and n.value.id=='state':
                k=n.slice
                if isinstance(k,ast.Constant):
                    if isinstance(n.ctx,ast.Load): R.add(k.value)
                    elif isinstance(n.ctx,ast.Store): Wr.add(k.value)
                    else: D.add(k.value)
                else: dyn+=1
            if isinstance(n,ast.Compare) and any(isinstance(o,(ast.In,ast.NotIn)) for o in n.ops) and isinstance(n.comparators[0],ast.Name) and n.comparators[0].id=='state' and isinstance(n.left,ast.Constant):
                T.add(n.left.value)
            if isinstance(n,ast.Call):
                f=n.func
                if isinstance(f,ast.Attribute) and isinstance(f.value,ast.Name) and f.value.id=='state' and f.attr in('get','setdefault') and n.args and isinstance(n.args[0],ast.Constant):
                    G.add((f.attr,n.args[0].value))
                elif isinstance(f,ast.Name): calls.add(f.id)
        # augmented assign counts as read+write
        for n in ast.walk(fn):
            if isinstance(n,ast.AugAssign) and isinstance(n.target,ast.Subscript) and isinstance(n.target.value,ast.Name) and n.target.value.id=='state' and isinstance(n.target.slice,ast.Constant):
                R.add(n.target.slice.value)
        out[m+':'+fn.name]=dict(reads=sorted(R),writes=sorted(Wr),tests=sorted(T),getset=sorted(G),dels=sorted(D),dyn=dyn,calls=sorted(calls))
for k,v in out.items():
    print(k); 
    for kk,vv in v.items():
        if vv: print('   ',kk,vv)
print(len(out),"functions")
