"""C01 - the validator accepts EXACTLY the structurally conformant data-unit histories (bounded stand-in, both directions).

The deductive part of C01 proves one direction only (accepted => every structural rule holds).  This module checks the
whole 'if and only if' over bounded histories by comparing the verdict of the REAL validator
(vc2_conformance.decoder.init_io + parse_stream on a State with an _output_picture_callback) with the verdict of a
reference monitor written from the property statement / the stream-structure rules of SMPTE ST 2042-1 (10.4, 10.5, 11.1,
11.2.2, 12.2, 14.2, C.2, C.3) - NOT from the code under check:

    monitor ACCEPT  ->  parse_stream must return normally                       (no over-rejection)
    monitor REJECT  ->  parse_stream must raise a ConformanceError (any class)   (no over-acceptance)
    monitor SILENT  ->  counted as inconclusive, verdict not asserted
    always          ->  any exception that is not a ConformanceError is a violation ("every rejection is reported as
                        a conformance error")

A history is a list of abstract data units (JSON-able dicts, see `_unit_bytes`).  Its byte stream is ASSEMBLED here from
individually valid data units: the bytes of every sequence header, picture, first fragment and slice are produced once by
the project's own serialiser (vc2_conformance.bitstream.autofill_and_serialise_stream) inside a well-formed stream and
cut out; the assembler then concatenates them and overwrites only byte-aligned literal fields (next/previous parse offset,
picture number, fragment slice count / x / y offsets), so offsets and numbers are fully controlled.  Pictures are tiny
(8x4 frame, all-zero slices) except under level 1 (176x120, the smallest format that level permits).

Reference monitor (function `monitor`), per sequence = units up to and including the first end-of-sequence:
  R-order    first unit is a sequence header, the sequence is closed by an end-of-sequence (a stream that ends without
             one is rejected)
  R-next     next_parse_offset: 0 on end-of-sequence; on pictures/fragments 0 or the true distance; on every other unit
             the true (non-zero) distance
  R-prev     previous_parse_offset: 0 on the first unit of a sequence, otherwise the true distance to the previous unit
  R-header   every sequence header is itself valid (HQ profile needs major_version >= 2) and every repeated sequence
             header is byte-identical with the first of the sequence
  R-profile  picture / fragment parse codes are those of the sequence's profile (LD <-> HQ)
  R-version  fragments need major_version >= 3; major_version is the smallest value that supports what the sequence
             uses (2 for the HQ profile, 3 for fragments or an asymmetric transform), (11.2.2)
  R-number   picture numbers (pictures and FIRST fragments) increase by 1 mod 2**32 within a sequence; with pictures as
             fields the first field of every frame has an even number and the sequence holds whole frames
  R-fragment first fragment has slice count 0 and may not start while a fragmented picture is incomplete; continuation
             fragments need a picture in progress, the same picture number, no more slices than remain and x/y offsets
             equal to the raster position of the next slice; no picture while a fragmented picture is incomplete; complete
             at end of sequence
  R-level    level 0: no restriction; levels 1-7: pictures or fragments but not both in one sequence; levels 64/65 (66):
             alternating sequence header, low-delay (high-quality) picture
SILENT (inconclusive, never asserted): sequence header / padding / auxiliary data between the fragments of one picture
(the statement does not say whether that counts as interleaving); a sequence without pictures whose major_version is not
minimal (the project applies an erratum there); a non-zero previous_parse_offset on the first unit of a later sequence that
points exactly at the previous sequence's end-of-sequence; levels other than those above.

clause -> family -> domain (E exhaustive over the stated scope, R seeded sample).  quick / thorough sizes in brackets.
  all rules, orderings   E1  every string over the unit alphabet {S same header, D differing header, P picture, Q picture
                             with asymmetric transform (v3 only), X picture of the other profile, A first fragment of a
                             2x1-slice picture, B1/B2 continuation fragment with 1/2 slices at the next raster position, W
                             one-slice fragment at a wrong position, N padding, U auxiliary data, E end of sequence} of
                             the form S w, naturally numbered from 2**32-2 (so three pictures wrap), correct offsets, for
                             the 12 configurations {LD, HQ} x major_version {1,2,3} x {frames, fields} at level 0.
                             quick: |w| <= 3 for LD v1 frames, HQ v2 fields, LD v3 fields, HQ v3 frames (+ all |w| = 4
                             ending in E) and LD v2 frames, |w| <= 2 (+ |w| = 3 ending in E) for the others; thorough:
                             |w| <= 4 for all (+ |w| = 5 ending in E for the four main ones).  Plus every string of
                             length <= 2 that does not start with S
  R-next, R-prev         E2  base histories (all strings of <= 2 [3] body items over {P, Q, fragmented picture, S, N, U}
                             that the monitor accepts, in LD v1 / HQ v3, one item less in HQ v2 / LD v3, plus two-sequence
                             streams) x every unit x every single offset fault (next: 0, true+-1, 13, 12, 1, true+256;
                             previous: 0, true+-1, 13, true+256) and every pair (next fault on unit i, previous fault /
                             correct on unit i+1)
  R-number               E3  1..3 [4] pictures, each plain or fragmented, first number in {0, 1, 2, 2**31-1, 2**31,
                             2**32-2, 2**32-1, 65535}, every later step in {+1, 0, +2, -1, +2**31}, frames and fields,
                             optional repeated header between pictures, a following second sequence with its own numbering
  R-fragment             E4  slice grids 2x2 and 3x2 [+ 1x1, 2x1, 3x1]: every composition of the slices into fragments
                             (accepted), each with ONE fragment replaced by every (count, x, y) in 1..n+1 x 0..sx+1 x
                             0..sy+1 [quick: 3x2 only HQ and only compositions into <= 3 fragments], a changed picture
                             number on one fragment, a dropped / duplicated fragment, a missing first fragment, the picture
                             abandoned after any number of fragments and followed by a complete one, every unit kind
                             inserted at every gap, fragments of the other profile; LD and HQ
  R-header               E5  base header x variants differing in one field (frame rate, scan format flag that re-states
                             the default = same meaning / different bytes, picture coding mode, major_version, clean area,
                             frame size) at every position of S P P E, as first and as repeated header, and in a second
                             sequence
  R-level                E6  level 1 (176x120): every string S w over {S, P, A, B2, N, E} with at most 2 [3] decoded
                             pictures, |w| <= 3 [4] for HQ v3, 2 [4] for LD v3 and HQ v2 [3], 1 [3] for LD v1, plus ten
                             arrangements of pictures and fragments in one sequence; levels 64, 65, 66: the picture-free
                             histories (S E, S S E, S N E, S U E, S A E, E, ...) which the ordering pattern rejects
                             [thorough: + level 3 (1280x720) with one or two pictures]
  all rules, long        R   seeded random streams of 1..3 conformant sequences (<= 6 pictures each, random
                             fragmentation, repeated headers, padding, auxiliary data, zero offsets, special first picture
                             numbers, level 0 and occasionally level 1) with 0, 1 or 2 random faults (delete / duplicate /
                             swap / insert unit, offset, picture number, fragment field, header variant, profile, whole
                             sequence configuration) [3500 / 60000 streams]
Bounds: at most 6 worker processes; per-case CPU limit CASE_SECONDS (over the limit = 'abandoned', never a violation).
NOT covered: accepting direction for levels 2-7 beyond one picture and for levels 64-66 (their pictures are full HD/UHD and
take minutes in the pure-Python decoder); non-zero slice payloads; histories longer than the stated lengths.
"""
import itertools
import multiprocessing
import random
import signal
import time

WORKERS = 6
CASE_SECONDS = 20.0
CHUNK = 100
M32 = 1 << 32

# parse codes, from Table 10.1 of the standard (checked against the live table as an eval fact)
PC_SH, PC_EOS, PC_AUX, PC_PAD = 0x00, 0x10, 0x20, 0x30
PC_PIC = {"ld": 0xC8, "hq": 0xE8}
PC_FRAG = {"ld": 0xCC, "hq": 0xEC}
PROFILE_OF = {"ld": 0, "hq": 3}
OTHER = {"ld": "hq", "hq": "ld"}

ACCEPT, REJECT, SILENT = "accept", "reject", "silent"


# ======================================================================================================================
# abstract units
# ======================================================================================================================
def sh(hk):
    return {"k": "sh", "h": list(hk)}


def pic(p, n, geo, syn, g=(2, 2), asym=False):
    return {"k": "pic", "p": p, "n": n % M32, "geo": geo, "syn": syn, "g": list(g), "asym": bool(asym)}


def frag(p, n, c, x, y, geo, syn, g=(2, 1), asym=False, at=0):
    """c == 0: first fragment (carries the transform parameters of a g[0] x g[1]-slice picture); c > 0: c slices declared
    at offsets (x, y); `at` = raster index of the first slice whose (all-zero) bytes are used as payload."""
    return {"k": "frag", "p": p, "n": n % M32, "c": c, "x": x, "y": y, "geo": geo, "syn": syn, "g": list(g), "asym": bool(asym), "at": at}


def pad(k=3):
    return {"k": "pad", "len": k}


def aux(k=2):
    return {"k": "aux", "len": k}


def eos():
    return {"k": "eos"}


def field_value(mode, correct):
    """Value written into a parse-offset field: None = the correct value; 'z' = 0; ['d', k] = correct + k; ['a', v] = v."""
    if mode is None:
        return correct
    if mode == "z":
        return 0
    if mode[0] == "d":
        return max(0, correct + mode[1])
    return mode[1]


# ======================================================================================================================
# header configurations: key (geo, profile, version, level, pcm, variant)
# ======================================================================================================================
def header_info(hk):
    geo, profile, version, level, pcm, var = hk
    if var == "pcm":
        pcm = 1 - pcm
    if var == "ver":
        version = 2 if version == 3 else 3
    valid = version >= 1 and (profile != "hq" or version >= 2)  # (11.2.2) HQ profile is not defined before version 2
    return {"geo": geo, "profile": profile, "version": version, "level": level, "pcm": pcm, "valid": valid}


def syn_of(version):
    return 3 if version >= 3 else 1


# ======================================================================================================================
# templates, built by the project's serialiser
# ======================================================================================================================
class Templates(object):
    """Serialised bytes of individually valid data units (lazy, cached).  Built before the worker processes fork."""

    def __init__(self):
        self.hdr = {}
        self._bodies = {}

    # ---- description dictionaries
    @staticmethod
    def _hdr_unit(hk):
        import vc2_data_tables as tables
        from vc2_conformance import bitstream as bs

        geo, profile, version, level, pcm, var = hk
        info = header_info(hk)
        sp = bs.SourceParameters()
        bvf = 0
        if geo == "tiny":
            w, h = (8, 8) if var == "size" else (8, 4)
            cw, ch = (6, 4) if var == "clean" else (w, h)
            sp["frame_size"] = bs.FrameSize(custom_dimensions_flag=True, frame_width=w, frame_height=h)
            sp["clean_area"] = bs.CleanArea(custom_clean_area_flag=True, clean_width=cw, clean_height=ch, left_offset=0, top_offset=0)
            if var == "fr":
                sp["frame_rate"] = bs.FrameRate(custom_frame_rate_flag=True, index=3)
            if var == "scan":  # re-states the default of base video format 0 (progressive): same meaning, different bytes
                sp["scan_format"] = bs.ScanFormat(custom_scan_format_flag=True, source_sampling=0)
        elif geo == "l1":
            bvf = 2 if var == "bvf" else 1
        elif geo == "l3":
            bvf = 9
        elif geo == "l64":
            bvf = 14
        elif geo == "l65":
            bvf = 9
        elif geo == "l66":
            bvf = 17
        else:
            raise AssertionError(geo)
        pp = bs.ParseParameters(major_version=info["version"], minor_version=0, profile=PROFILE_OF[profile], level=level)
        return bs.DataUnit(parse_info=bs.ParseInfo(parse_code=tables.ParseCodes.sequence_header),
                           sequence_header=bs.SequenceHeader(parse_parameters=pp, base_video_format=bvf, video_parameters=sp,
                                                             picture_coding_mode=info["pcm"]))

    @staticmethod
    def _tp(p, g, asym):
        from vc2_conformance import bitstream as bs

        if p == "ld":
            sl = bs.SliceParameters(slices_x=g[0], slices_y=g[1], slice_bytes_numerator=4, slice_bytes_denominator=1)
        else:
            sl = bs.SliceParameters(slices_x=g[0], slices_y=g[1], slice_prefix_bytes=0, slice_size_scaler=1)
        d = bs.TransformParameters(slice_parameters=sl)
        if asym:
            d["extended_transform_parameters"] = bs.ExtendedTransformParameters(asym_transform_flag=True, dwt_depth_ho=1)
        return d

    @staticmethod
    def _serialise(units):
        import io
        from vc2_conformance import bitstream as bs

        f = io.BytesIO()
        bs.autofill_and_serialise_stream(f, bs.Stream(sequences=[bs.Sequence(data_units=list(units))]))
        data = f.getvalue()
        out = []
        i = 0
        while i < len(data):
            assert data[i:i + 4] == b"BBCD", "serialised stream does not split at parse_info boundaries"
            nxt = int.from_bytes(data[i + 5:i + 9], "big")
            if nxt == 0:
                nxt = len(data) - i
            out.append(bytes(data[i:i + nxt]))
            i += nxt
        return out

    # ---- lookups
    def header(self, hk):
        hk = tuple(hk)
        if hk not in self.hdr:
            import vc2_data_tables as tables
            from vc2_conformance import bitstream as bs

            parts = self._serialise([self._hdr_unit(hk), bs.DataUnit(parse_info=bs.ParseInfo(parse_code=tables.ParseCodes.end_of_sequence))])
            assert len(parts) == 2 and parts[0][4] == PC_SH
            self.hdr[hk] = parts[0]
        return self.hdr[hk]

    def _build_body(self, geo, p, syn, g, asym):
        import vc2_data_tables as tables
        from vc2_conformance import bitstream as bs

        PC = tables.ParseCodes
        pcode = PC.low_delay_picture if p == "ld" else PC.high_quality_picture
        fcode = PC.low_delay_picture_fragment if p == "ld" else PC.high_quality_picture_fragment
        pcm = 0
        if geo == "tiny1":
            geo_h, pcm = "tiny", 1
        else:
            geo_h = geo
        level = {"tiny": 0, "l1": 1, "l3": 3}[geo_h]
        hk = (geo_h, p, 3 if syn == 3 else 2, level, pcm, "")
        n = g[0] * g[1]
        units = [self._hdr_unit(hk),
                 bs.DataUnit(parse_info=bs.ParseInfo(parse_code=pcode), picture_parse=bs.PictureParse(
                     picture_header=bs.PictureHeader(picture_number=0),
                     wavelet_transform=bs.WaveletTransform(transform_parameters=self._tp(p, g, asym)))),
                 bs.DataUnit(parse_info=bs.ParseInfo(parse_code=fcode), fragment_parse=bs.FragmentParse(
                     fragment_header=bs.FragmentHeader(picture_number=1, fragment_data_length=0, fragment_slice_count=0),
                     transform_parameters=self._tp(p, g, asym)))]
        for i in range(n):
            units.append(bs.DataUnit(parse_info=bs.ParseInfo(parse_code=fcode), fragment_parse=bs.FragmentParse(
                fragment_header=bs.FragmentHeader(picture_number=1, fragment_data_length=0, fragment_slice_count=1,
                                                  fragment_x_offset=i % g[0], fragment_y_offset=i // g[0]))))
        units.append(bs.DataUnit(parse_info=bs.ParseInfo(parse_code=PC.end_of_sequence)))
        parts = self._serialise(units)
        assert len(parts) == n + 4
        assert parts[1][4] == PC_PIC[p] and parts[2][4] == PC_FRAG[p]
        slices = []
        for i in range(n):
            fr = parts[3 + i]
            assert fr[4] == PC_FRAG[p] and fr[13:17] == (1).to_bytes(4, "big") and fr[19:21] == b"\x00\x01"
            slices.append(fr[25:])
        return {"pic": parts[1], "frag0": parts[2], "slices": slices, "frag1": parts[3:3 + n]}

    def body(self, geo, p, syn, g, asym):
        key = (geo, p, syn, tuple(g), bool(asym))
        if key not in self._bodies:
            self._bodies[key] = self._build_body(*key)
        return self._bodies[key]


def _parse_info(code, nxt=0, prv=0):
    return b"BBCD" + bytes([code]) + nxt.to_bytes(4, "big") + prv.to_bytes(4, "big")


def _unit_bytes(u, T):
    """Bytes of one abstract unit with zero parse offsets (the assembler fills them in)."""
    k = u["k"]
    if k == "sh":
        return bytearray(T.header(u["h"]))
    if k == "eos":
        return bytearray(_parse_info(PC_EOS))
    if k == "pad":
        return bytearray(_parse_info(PC_PAD) + b"\x00" * u["len"])
    if k == "aux":
        return bytearray(_parse_info(PC_AUX) + b"\xAB" * u["len"])
    b = T.body(u["geo"], u["p"], u["syn"], u["g"], u["asym"])
    if k == "pic":
        out = bytearray(b["pic"])
        out[13:17] = u["n"].to_bytes(4, "big")  # (12.2) picture_number, 32 bit literal directly after the parse_info
        return out
    assert k == "frag"
    if u["c"] == 0:
        out = bytearray(b["frag0"])
        out[13:17] = u["n"].to_bytes(4, "big")  # (14.2) picture_number
        return out
    sl = b["slices"]
    payload = b"".join(sl[(u["at"] + i) % len(sl)] for i in range(u["c"]))
    # (14.2) picture_number(4) fragment_data_length(2) fragment_slice_count(2) fragment_x_offset(2) fragment_y_offset(2)
    return bytearray(_parse_info(PC_FRAG[u["p"]]) + u["n"].to_bytes(4, "big") + b"\x00\x00" + u["c"].to_bytes(2, "big")
                     + u["x"].to_bytes(2, "big") + u["y"].to_bytes(2, "big") + payload)


def assemble(units, T):
    """-> (stream bytes, list of unit byte lengths)."""
    blobs = [_unit_bytes(u, T) for u in units]
    lens = [len(b) for b in blobs]
    first = True
    for i, (u, b) in enumerate(zip(units, blobs)):
        nxt = field_value(u.get("nx"), 0 if u["k"] == "eos" else lens[i])
        prv = field_value(u.get("pv"), 0 if first else lens[i - 1])
        b[5:9] = (nxt % M32).to_bytes(4, "big")
        b[9:13] = (prv % M32).to_bytes(4, "big")
        first = u["k"] == "eos"
    return b"".join(bytes(b) for b in blobs), lens


# ======================================================================================================================
# the reference monitor (written from the property statement)
# ======================================================================================================================
def monitor(units, lens):
    """-> (verdict, [definite reasons], [silent points])."""
    bad = []
    silent = []
    n = len(units)
    i = 0
    seq_no = 0
    while i < n:
        j = i
        while j < n and units[j]["k"] != "eos":
            j += 1
        closed = j < n
        if not closed:
            bad.append("R-order: stream ends without end-of-sequence (sequence %d)" % seq_no)
            j = n - 1
        _monitor_sequence(units, lens, i, j, closed, seq_no, bad, silent)
        i = j + 1
        seq_no += 1
    if bad:
        return REJECT, bad, silent
    if silent:
        return SILENT, bad, silent
    return ACCEPT, bad, silent


def _monitor_sequence(units, lens, i, j, closed, seq_no, bad, silent):
    # ---- parse offsets (10.5.1)
    for t in range(i, j + 1):
        u = units[t]
        k = u["k"]
        true_next = lens[t]
        nxt = field_value(u.get("nx"), 0 if k == "eos" else true_next) % M32
        if k == "eos":
            if nxt != 0:
                bad.append("R-next: unit %d end-of-sequence with non-zero next_parse_offset" % t)
        elif k in ("pic", "frag"):
            if nxt not in (0, true_next):
                bad.append("R-next: unit %d next_parse_offset %d, true distance %d" % (t, nxt, true_next))
        elif nxt != true_next:
            bad.append("R-next: unit %d (%s) next_parse_offset %d, true distance %d" % (t, k, nxt, true_next))
        prv = field_value(u.get("pv"), 0 if t == i else lens[t - 1]) % M32
        if t == i:
            if prv != 0:
                if seq_no > 0 and prv == lens[t - 1]:
                    silent.append("first unit of a later sequence points back at the previous end-of-sequence")
                else:
                    bad.append("R-prev: unit %d first of its sequence with previous_parse_offset %d" % (t, prv))
        elif prv != lens[t - 1]:
            bad.append("R-prev: unit %d previous_parse_offset %d, true distance %d" % (t, prv, lens[t - 1]))

    # ---- sequence header first
    first = units[i]
    if first["k"] != "sh":
        bad.append("R-order: sequence %d does not start with a sequence header" % seq_no)
        return  # nothing else is defined without the sequence's parameters
    cfg = header_info(first["h"])
    if not cfg["valid"]:
        bad.append("R-header: profile %s not available in major_version %d" % (cfg["profile"], cfg["version"]))
    profile, version, level, fields = cfg["profile"], cfg["version"], cfg["level"], cfg["pcm"] == 1

    last_number = None
    pictures = 0
    remaining = 0  # slices still missing from the fragmented picture in progress
    received = 0
    grid = None
    cur_number = None
    any_pic = any_frag = any_asym = False
    for t in range(i, j + 1):
        u = units[t]
        k = u["k"]
        if k == "sh":
            if t != i and _HEADER_BYTES(u["h"]) != _HEADER_BYTES(first["h"]):
                bad.append("R-header: unit %d sequence header differs from the first of the sequence" % t)
        if k in ("pic", "frag"):
            if u["p"] != profile:
                bad.append("R-profile: unit %d %s parse code in %s profile" % (t, u["p"], profile))
            if u["asym"]:
                any_asym = True
        if k == "frag":
            any_frag = True
            if version < 3:
                bad.append("R-version: unit %d fragment in major_version %d" % (t, version))
        if k == "pic":
            any_pic = True
            if remaining:
                bad.append("R-fragment: unit %d picture while a fragmented picture is incomplete" % t)
        if k == "frag" and u["c"] == 0 and remaining:
            bad.append("R-fragment: unit %d new first fragment while a fragmented picture is incomplete" % t)
        if k in ("sh", "pad", "aux") and remaining:
            silent.append("non-picture data unit between the fragments of a picture")
        if k == "pic" or (k == "frag" and u["c"] == 0):
            # (12.2), (14.2) picture numbering
            if last_number is not None and u["n"] != (last_number + 1) % M32:
                bad.append("R-number: unit %d picture number %d after %d" % (t, u["n"], last_number))
            if fields and pictures % 2 == 0 and u["n"] % 2 != 0:
                bad.append("R-number: unit %d first field of a frame has odd picture number %d" % (t, u["n"]))
            last_number = u["n"]
            pictures += 1
            if k == "frag":
                grid = tuple(u["g"])
                remaining = grid[0] * grid[1]
                received = 0
                cur_number = u["n"]
        elif k == "frag":
            if remaining == 0:
                bad.append("R-fragment: unit %d slices without a fragmented picture in progress" % t)
            else:
                if u["n"] != cur_number:
                    bad.append("R-fragment: unit %d picture number %d differs from the first fragment's %d" % (t, u["n"], cur_number))
                if u["c"] > remaining:
                    bad.append("R-fragment: unit %d carries %d slices, only %d remain" % (t, u["c"], remaining))
                if (u["x"], u["y"]) != (received % grid[0], received // grid[0]):
                    bad.append("R-fragment: unit %d offsets (%d, %d), next slice in raster order is (%d, %d)"
                               % (t, u["x"], u["y"], received % grid[0], received // grid[0]))
                got = min(u["c"], remaining)
                received += got
                remaining -= got
    if closed and remaining:
        bad.append("R-fragment: sequence %d ends with an incomplete fragmented picture" % seq_no)
    if fields and pictures % 2:
        bad.append("R-number: sequence %d has an odd number of fields" % seq_no)

    # ---- (11.2.2) major_version is the smallest that supports the sequence
    required = 2 if profile == "hq" else 1
    if any_frag or any_asym:
        required = 3
    if version > required:
        if pictures == 0:
            silent.append("picture-free sequence with non-minimal major_version")
        else:
            bad.append("R-version: major_version %d where %d suffices" % (version, required))

    # ---- (C.3) the level's data-unit ordering
    kinds = [("pic-" + units[t]["p"]) if units[t]["k"] == "pic" else units[t]["k"] for t in range(i, j + 1)]
    if level == 0:
        pass
    elif 1 <= level <= 7:
        if any_pic and any_frag:
            bad.append("R-level: level %d sequence uses both pictures and fragments" % level)
    elif level in (64, 65, 66):
        want = "pic-hq" if level == 66 else "pic-ld"
        body = kinds[:-1] if closed else kinds
        ok = len(body) % 2 == 0 and all(x == ("sh" if q % 2 == 0 else want) for q, x in enumerate(body))
        if not ok:
            bad.append("R-level: level %d sequence is not alternating sequence header / picture" % level)
    else:
        silent.append("level %d" % level)


_T = None  # Templates of this process (set by the hook before forking)


def _HEADER_BYTES(hk):
    """Payload bytes of a sequence header unit (byte identity is decided on the bytes the units are assembled from)."""
    return _T.header(hk)[13:]


# ======================================================================================================================
# running the real validator
# ======================================================================================================================
class _Abandon(BaseException):
    pass


def _on_timer(signum, frame):
    raise _Abandon()


def validate(data):
    """-> 'accept' | 'reject:<Class>' | 'crash:<Class>: msg' for the real validator on `data`."""
    import io
    from vc2_conformance.pseudocode.state import State
    from vc2_conformance import decoder

    state = State(_output_picture_callback=_ignore_picture)
    decoder.init_io(state, io.BytesIO(data))
    try:
        decoder.parse_stream(state)
    except decoder.ConformanceError as e:
        return "reject:" + type(e).__name__
    except _Abandon:
        raise
    except Exception as e:  # not a conformance error: reported by the caller as a violation
        return "crash:%s: %s" % (type(e).__name__, str(e)[:200])
    return "accept"


def _ignore_picture(*args, **kwargs):
    return None


def _judge(units):
    data, lens = assemble(units, _T)
    verdict, bad, silent = monitor(units, lens)
    signal.setitimer(signal.ITIMER_PROF, CASE_SECONDS)
    try:
        obs = validate(data)
    except _Abandon:
        return verdict, "abandoned", bad, silent, data
    finally:
        signal.setitimer(signal.ITIMER_PROF, 0)
    return verdict, obs, bad, silent, data


def _work(chunk):
    fam, start, cases = chunk
    res = {"fam": fam, "n": 0, "accept": 0, "reject": 0, "silent": 0, "abandoned": 0, "classes": {}, "fail": []}
    for off, units in enumerate(cases):
        verdict, obs, bad, silent, data = _judge(units)
        res["n"] += 1
        if obs == "abandoned":
            res["abandoned"] += 1
            continue
        res["classes"][obs] = res["classes"].get(obs, 0) + 1
        problem = None
        if obs.startswith("crash:"):
            problem = "the validator raised an exception that is not a ConformanceError"
        elif verdict == ACCEPT and obs != "accept":
            problem = "a structurally conformant history is rejected"
        elif verdict == REJECT and obs == "accept":
            problem = "a history that breaks a stream-structure rule is accepted"
        if problem:
            res["fail"].append({"index": start + off, "problem": problem, "units": units, "monitor": verdict, "reasons": bad[:4],
                                "silent": silent[:2], "observed": obs, "stream_hex": data.hex() if len(data) <= 4096 else data[:4096].hex() + "..."})
        elif verdict == SILENT:
            res["silent"] += 1
        else:
            res[verdict] += 1
    return res


def _worker_init():
    signal.signal(signal.SIGPROF, _on_timer)


# ======================================================================================================================
# families
# ======================================================================================================================
def natural(symbols, hk, g=(2, 1), n0=M32 - 2, variant="fr"):
    """Units for a string over the E1 alphabet, numbered / positioned 'naturally' by a trivial generator state."""
    info = header_info(hk)
    geo = hk[0]
    bgeo = "tiny1" if (geo == "tiny" and info["pcm"] == 1) else geo
    p, syn = info["profile"], syn_of(info["version"])
    out = []
    nxt = n0
    cur = None
    recv = 0
    for s in symbols:
        if s == "S":
            out.append(sh(hk))
        elif s == "D":
            out.append(sh(hk[:5] + (variant,)))
        elif s in ("P", "Q", "X"):
            out.append(pic(OTHER[p] if s == "X" else p, nxt, bgeo, syn, asym=(s == "Q" and syn == 3)))
            nxt += 1
        elif s == "A":
            out.append(frag(p, nxt, 0, 0, 0, bgeo, syn, g=g))
            cur = nxt
            nxt += 1
            recv = 0
        elif s in ("B1", "B2", "W"):
            c = 2 if s == "B2" else 1
            pos = recv + (1 if s == "W" else 0)
            out.append(frag(p, cur if cur is not None else nxt - 1, c, pos % g[0], pos // g[0], bgeo, syn, g=g, at=pos))
            if s != "W":
                recv += c
        elif s == "N":
            out.append(pad())
        elif s == "U":
            out.append(aux())
        elif s == "E":
            out.append(eos())
            nxt = n0
            cur = None
            recv = 0
        else:
            raise AssertionError(s)
    return out


MAIN_CONFIGS = {("ld", 1, 0), ("hq", 2, 1), ("ld", 3, 1), ("hq", 3, 0)}  # (profile, major_version, picture coding mode)


def fam_orderings(tier):
    """quick: the four MAIN_CONFIGS and LD v2 get the full depth, the other configurations one unit less."""
    L = 3 if tier == "quick" else 4
    cases = []
    for prof in ("ld", "hq"):
        for version in (1, 2, 3):
            for pcm in (0, 1):
                hk = ("tiny", prof, version, 0, pcm, "")
                main = (prof, version, pcm) in MAIN_CONFIGS
                sigma = ["S", "D", "P", "X", "A", "B1", "B2", "W", "N", "U", "E"] + (["Q"] if version == 3 else [])
                if not header_info(hk)["valid"]:
                    Lc = 1  # every history with this header is rejected at the header
                elif tier == "quick" and not (main or (prof, version, pcm) == ("ld", 2, 0)):
                    Lc = L - 1
                else:
                    Lc = L
                for ln in range(0, Lc + 1):
                    for w in itertools.product(sigma, repeat=ln):
                        cases.append(natural(("S",) + w, hk))
                if main or Lc < L:
                    for w in itertools.product(sigma, repeat=Lc):
                        cases.append(natural(("S",) + w + ("E",), hk))
                for ln in (1, 2):
                    for w in itertools.product(sigma, repeat=ln):
                        if w[0] != "S":
                            cases.append(natural(w, hk))
    return cases


def _with(units, idx, **kw):
    out = [dict(u) for u in units]
    out[idx].update(kw)
    return out


def fam_offsets(tier):
    L = 2 if tier == "quick" else 3
    NEXT = ["z", ["d", 1], ["d", -1], ["a", 13], ["a", 12], ["a", 1], ["d", 256]]
    PREV = ["z", ["d", 1], ["d", -1], ["a", 13], ["d", 256]]
    cases = []
    T = _T
    for prof, version in (("ld", 1), ("hq", 2), ("ld", 3), ("hq", 3)):
        hk = ("tiny", prof, version, 0, 0, "")
        items = [("P",), ("S",), ("N",), ("U",)] + ([("Q",), ("A", "B2"), ("A", "B1", "B1")] if version == 3 else [])
        bases = []
        Lc = L if (prof, version) in (("ld", 1), ("hq", 3)) else L - 1
        for ln in range(0, Lc + 1):
            for combo in itertools.product(items, repeat=ln):
                w = ("S",) + tuple(s for it in combo for s in it) + ("E",)
                units = natural(w, hk, n0=6)
                _, lens = assemble(units, T)
                if monitor(units, lens)[0] == ACCEPT:
                    bases.append(units)
        # two-sequence streams
        body = ("P",) if version < 3 else ("A", "B2")
        for w in (("S",) + body + ("E", "S") + body + ("E",), ("S", "E", "S") + body + ("N", "E")):
            units = natural(w, hk, n0=6)
            _, lens = assemble(units, T)
            if monitor(units, lens)[0] == ACCEPT:
                bases.append(units)
        for units in bases:
            cases.append(units)
            for i in range(len(units)):
                for m in NEXT:
                    cases.append(_with(units, i, nx=m))
                for m in PREV:
                    cases.append(_with(units, i, pv=m))
                if i + 1 < len(units):
                    for m in ("z", ["d", 1], ["d", -1]):
                        for m2 in (None, "z", ["d", 1], ["d", -1]):
                            c = _with(units, i, nx=m)
                            if m2 is not None:
                                c[i + 1]["pv"] = m2
                            cases.append(c)
    return cases


def fam_numbers(tier):
    K = 3 if tier == "quick" else 4
    FIRST = [0, 1, 2, (1 << 31) - 1, 1 << 31, M32 - 2, M32 - 1, 65535]
    STEPS = [1, 0, 2, -1, 1 << 31]
    cases = []
    for prof in ("hq", "ld"):
        for pcm in (0, 1):
            hk = ("tiny", prof, 3, 0, pcm, "")
            bgeo = "tiny1" if pcm else "tiny"
            for k in range(1, K + 1):
                if prof == "ld" and k == K and tier == "quick":
                    continue
                for kinds in itertools.product("PF", repeat=k):
                    for n0 in FIRST:
                        for steps in itertools.product(STEPS, repeat=k - 1):
                            nums = [n0]
                            for s in steps:
                                nums.append((nums[-1] + s) % M32)
                            units = [sh(hk)]
                            for q, (kind, num) in enumerate(zip(kinds, nums)):
                                if kind == "P":
                                    units.append(pic(prof, num, bgeo, 3, asym=True))
                                else:
                                    units.append(frag(prof, num, 0, 0, 0, bgeo, 3, g=(2, 1)))
                                    units.append(frag(prof, num, 2, 0, 0, bgeo, 3, g=(2, 1)))
                                if q == 0 and k >= 2 and (n0 % 3 == 0):
                                    units.append(sh(hk))  # a repeated header does not restart the numbering
                            units.append(eos())
                            cases.append(units)
            # a second sequence numbers its pictures independently of the first
            for n0 in (4, 5, M32 - 1):
                for m0 in (0, 1, 6, 7, M32 - 2, M32 - 1):
                    units = [sh(hk), pic(prof, n0, bgeo, 3, asym=True), pic(prof, n0 + 1, bgeo, 3, asym=True), eos(),
                             sh(hk), pic(prof, m0, bgeo, 3, asym=True), pic(prof, m0 + 1, bgeo, 3, asym=True), eos()]
                    cases.append(units)
    return cases


def _compositions(n):
    if n == 0:
        yield ()
        return
    for first in range(1, n + 1):
        for rest in _compositions(n - first):
            yield (first,) + rest


def fam_fragments(tier):
    cases = []
    grids = [(2, 2), (3, 2)] if tier == "quick" else [(1, 1), (2, 1), (3, 1), (2, 2), (3, 2)]
    for prof in ("hq", "ld"):
        hk = ("tiny", prof, 3, 0, 0, "")
        for g in grids:
            n = g[0] * g[1]
            for comp in _compositions(n):
                base = [sh(hk), frag(prof, 9, 0, 0, 0, "tiny", 3, g=g)]
                pos = 0
                for c in comp:
                    base.append(frag(prof, 9, c, pos % g[0], pos // g[0], "tiny", 3, g=g, at=pos))
                    pos += c
                base.append(eos())
                cases.append(base)
                fidx = list(range(2, 2 + len(comp)))
                full = not (tier == "quick" and (len(comp) > 3 or (prof == "ld" and g == (3, 2))))
                for fi in fidx:
                    if full:
                        for c in range(1, n + 2):
                            for x in range(0, g[0] + 2):
                                for y in range(0, g[1] + 2):
                                    if (c, x, y) != (base[fi]["c"], base[fi]["x"], base[fi]["y"]):
                                        cases.append(_with(base, fi, c=c, x=x, y=y))
                    for dn in (1, -1, 1 << 31):
                        cases.append(_with(base, fi, n=(9 + dn) % M32))
                    cases.append(base[:fi] + base[fi + 1:])  # dropped
                    cases.append(base[:fi] + [dict(base[fi])] + base[fi:])  # duplicated
                cases.append(base[:1] + base[2:])  # no first fragment
                # the picture abandoned after any number of fragments, followed by a complete well-formed one
                redo = [dict(u, n=10) for u in base[1:-1]]
                for cut in range(2, len(base) - 1):
                    cases.append(base[:cut] + redo + [eos()])
                cases.append(base[:-1] + redo + [eos()])  # (complete, then the next one: accepted)
                # every unit kind at every gap after the first fragment
                inserts = [pic(prof, 10, "tiny", 3, asym=True), pic(OTHER[prof], 10, "tiny", 3, asym=True), frag(prof, 10, 0, 0, 0, "tiny", 3, g=g),
                           frag(prof, 9, 0, 0, 0, "tiny", 3, g=g), sh(hk), pad(), aux(), eos()]
                if full or len(comp) <= 2:
                    for gap in range(2, len(base)):
                        for ins in inserts:
                            cases.append(base[:gap] + [dict(ins)] + base[gap:])
            # complete fragmented picture, then more slices / a picture / another fragmented picture
            whole = [sh(hk), frag(prof, 9, 0, 0, 0, "tiny", 3, g=g), frag(prof, 9, n, 0, 0, "tiny", 3, g=g)]
            cases.append(whole + [frag(prof, 9, 1, 0, 0, "tiny", 3, g=g), eos()])
            cases.append(whole + [frag(prof, 10, 1, 0, 0, "tiny", 3, g=g), eos()])
            cases.append(whole + [pic(prof, 10, "tiny", 3), eos()])
            cases.append(whole + [frag(prof, 10, 0, 0, 0, "tiny", 3, g=g), frag(prof, 10, n, 0, 0, "tiny", 3, g=g), eos()])
            cases.append([sh(hk), pic(prof, 8, "tiny", 3)] + whole[1:] + [eos()])
            # fragments of the other profile: a whole picture, only the first fragment, only the slices
            o = OTHER[prof]
            cases.append([sh(hk), frag(o, 9, 0, 0, 0, "tiny", 3, g=g), frag(o, 9, n, 0, 0, "tiny", 3, g=g), eos()])
            cases.append([sh(hk), frag(o, 9, 0, 0, 0, "tiny", 3, g=g), frag(prof, 9, n, 0, 0, "tiny", 3, g=g), eos()])
            cases.append([sh(hk), frag(prof, 9, 0, 0, 0, "tiny", 3, g=g), frag(o, 9, n, 0, 0, "tiny", 3, g=g), eos()])
            cases.append(whole + [frag(o, 10, 0, 0, 0, "tiny", 3, g=g), frag(o, 10, n, 0, 0, "tiny", 3, g=g), eos()])
    return cases


def fam_headers(tier):
    cases = []
    for prof, version, pcm in (("hq", 2, 0), ("ld", 1, 0), ("hq", 3, 1), ("ld", 3, 0)):
        hk = ("tiny", prof, version, 0, pcm, "")
        bgeo = "tiny1" if pcm else "tiny"
        syn = syn_of(version)
        asym = syn == 3
        variants = ["fr", "scan", "pcm", "clean", "size"] + (["ver"] if prof == "hq" else [])
        body = [pic(prof, 4, bgeo, syn, asym=asym), pic(prof, 5, bgeo, syn, asym=asym)]
        base = [sh(hk)] + body + [eos()]
        cases.append(base)
        for gap in (1, 2, 3):
            cases.append(base[:gap] + [sh(hk)] + base[gap:])
            for v in variants:
                cases.append(base[:gap] + [sh(hk[:5] + (v,))] + base[gap:])
                cases.append(base[:gap] + [sh(hk), sh(hk[:5] + (v,))] + base[gap:])
                # the variant as the sequence's first header, the base header as the differing repeat
                if v in ("fr", "scan", "clean"):
                    vb = [sh(hk[:5] + (v,))] + body + [eos()]
                    cases.append(vb)
                    cases.append(vb[:gap] + [sh(hk[:5] + (v,))] + vb[gap:])
                    cases.append(vb[:gap] + [sh(hk)] + vb[gap:])
        # a new sequence may change the header
        for v in ("fr", "scan", "clean"):
            cases.append(base + [sh(hk[:5] + (v,))] + body + [eos()])
            cases.append(base + [sh(hk[:5] + (v,))] + body + [sh(hk[:5] + (v,)), eos()])
            cases.append(base + [sh(hk[:5] + (v,))] + body + [sh(hk), eos()])
    return cases


def fam_levels(tier):
    cases = []
    # level 1, the smallest format (176x120)
    for prof, version, L in (("hq", 3, 3), ("ld", 3, 2), ("hq", 2, 2), ("ld", 1, 1)):
        if tier != "quick":
            L += 1 if prof == "hq" else 2
        hk = ("l1", prof, version, 1, 0, "")
        sigma = ["S", "P", "A", "B2", "N", "E"]
        for ln in range(0, L + 1):
            for w in itertools.product(sigma, repeat=ln):
                if sum(1 for s in w if s in ("P", "B2")) > (2 if tier == "quick" else 3):
                    continue
                cases.append(natural(("S",) + w, hk, variant="bvf"))
                if w and w[-1] != "E":
                    cases.append(natural(("S",) + w + ("E",), hk, variant="bvf"))
        if version == 3:  # pictures and fragments in one sequence, in several arrangements
            for w in (("P", "A", "B2"), ("A", "B2", "P"), ("P", "S", "A", "B2"), ("A", "B2", "N", "P"), ("P", "P", "A", "B2"), ("A", "B2", "A", "B2", "P"),
                      ("A", "B2", "P", "A", "B2"), ("P", "N", "S", "A", "B1", "B1"), ("A", "B2", "A", "B2"), ("A", "B1", "B1", "S", "A", "B2")):
                cases.append(natural(("S",) + w + ("E",), hk, variant="bvf"))
        cases.append(natural(("S", "D", "E"), hk, variant="bvf"))
        cases.append(natural(("S", "P", "D", "E"), hk, variant="bvf"))
    # levels 64-66: picture-free histories only (a conformant picture of these levels is full HD / UHD)
    for geo, prof, version, level in (("l64", "ld", 2, 64), ("l65", "ld", 2, 65), ("l66", "hq", 2, 66), ("l66", "hq", 3, 66)):
        hk = (geo, prof, version, level, 0, "")
        for w in (("S", "E"), ("S", "S", "E"), ("S", "N", "E"), ("S", "U", "E"), ("S", "S", "N", "E"), ("E",), ("S", "E", "S", "E"), ("S", "E", "S", "N", "E")):
            cases.append(natural(w, hk))
        cases.append([sh(hk), frag(prof, 0, 0, 0, 0, "tiny", syn_of(version), g=(2, 1)), eos()])
    if tier != "quick":
        for geo, level in (("l3", 3),):
            for prof in ("hq", "ld"):
                hk = (geo, prof, 3, level, 0, "")
                for w in (("S", "A", "B2", "E"), ("S", "A", "B2", "P", "E"), ("S", "A", "B2", "S", "N", "A", "B2", "E")):
                    cases.append(natural(w, hk))
    return cases


# ---- random conformant sequences with faults
def _rand_sequence(rng, allow_l1):
    geo, level = "tiny", 0
    if allow_l1 and rng.random() < 0.02:
        geo, level = "l1", 1
    prof = rng.choice(("ld", "hq"))
    version = rng.choice((1, 3)) if prof == "ld" else rng.choice((2, 3))
    pcm = rng.choice((0, 1)) if geo == "tiny" else 0
    hk = (geo, prof, version, level, pcm, rng.choice(("", "", "fr", "scan")) if geo == "tiny" else "")
    bgeo = "tiny1" if (geo == "tiny" and pcm) else geo
    syn = syn_of(version)
    k = rng.choice((0, 1, 1, 2, 2, 3, 4, 6)) if geo == "tiny" else rng.choice((1, 2))
    if pcm:
        k += k % 2
    if version == 3 and k == 0:
        k = 2
    n0 = rng.choice((0, 2, 4, M32 - 2, M32 - 4, (1 << 31) - 2, 1 << 16, rng.randrange(0, M32) & ~1))
    if not pcm and rng.random() < 0.5:
        n0 = (n0 + 1) % M32
    frag_only = level == 1 and version == 3
    units = [sh(hk)]

    def filler():
        while rng.random() < 0.25:
            units.append(rng.choice((sh(hk), pad(rng.randrange(0, 6)), aux(rng.randrange(0, 6)))))

    need3 = version == 3
    for q in range(k):
        filler()
        num = (n0 + q) % M32
        fragmented = version == 3 and (frag_only or rng.random() < 0.5 or (need3 and q == k - 1 and level == 1))
        if fragmented:
            g = rng.choice(((1, 1), (2, 1), (2, 2), (3, 2))) if geo == "tiny" else rng.choice(((2, 1), (2, 2)))
            units.append(frag(prof, num, 0, 0, 0, bgeo, syn, g=g))
            comp = rng.choice(list(_compositions(g[0] * g[1])))
            pos = 0
            for c in comp:
                if rng.random() < 0.04:
                    units.append(rng.choice((pad(1), aux(1), sh(hk))))  # statement silent: counted as inconclusive
                units.append(frag(prof, num, c, pos % g[0], pos // g[0], bgeo, syn, g=g, at=pos))
                pos += c
            need3 = False
        else:
            asym = version == 3 and level == 0 and (need3 or rng.random() < 0.5)
            units.append(pic(prof, num, bgeo, syn, g=rng.choice(((2, 2), (1, 1))) if geo == "tiny" else (2, 1), asym=asym))
            if asym:
                need3 = False
    filler()
    units.append(eos())
    for u in units:
        if u["k"] in ("pic", "frag") and rng.random() < 0.3:
            u["nx"] = "z"
    return units


def _seq_bounds(units, idx):
    a = idx
    while a > 0 and units[a - 1]["k"] != "eos":
        a -= 1
    b = idx
    while b < len(units) - 1 and units[b]["k"] != "eos":
        b += 1
    return a, b


def _context(units, idx):
    """(profile, geo, syn, header key) of the sequence around position idx (taken from its first header, if any)."""
    a, _ = _seq_bounds(units, min(idx, len(units) - 1))
    for t in range(a, len(units)):
        if units[t]["k"] == "sh":
            info = header_info(units[t]["h"])
            geo = info["geo"]
            return info["profile"], ("tiny1" if geo == "tiny" and info["pcm"] else geo), syn_of(info["version"]), tuple(units[t]["h"])
        if units[t]["k"] == "eos":
            break
    return "hq", "tiny", 3, ("tiny", "hq", 3, 0, 0, "")


def _fault(rng, units):
    if not units:
        return units
    units = [dict(u) for u in units]
    i = rng.randrange(len(units))
    u = units[i]
    op = rng.choice(("delete", "dup", "swap", "insert", "insert", "nx", "pv", "number", "number", "fragfield", "fragfield", "header", "profile", "config"))
    OFF = ("z", ["d", 1], ["d", -1], ["a", 13], ["a", 5], ["d", 7])
    if op == "delete":
        del units[i]
    elif op == "dup":
        units.insert(i, dict(u))
    elif op == "swap" and i + 1 < len(units):
        units[i], units[i + 1] = units[i + 1], units[i]
    elif op == "insert":
        prof, bgeo, syn, hk = _context(units, i)
        last = [x["n"] for x in units[:i] if x["k"] in ("pic", "frag")]
        num = (last[-1] + 1) % M32 if last else 0
        g = (2, 1) if bgeo.startswith("tiny") else (2, 1)
        new = rng.choice((pic(prof, num, bgeo, syn, g=(2, 2) if bgeo.startswith("tiny") else (2, 1), asym=(syn == 3 and bgeo.startswith("tiny"))),
                          frag(prof, num, 0, 0, 0, bgeo, syn, g=g), frag(prof, (num - 1) % M32, 1, 0, 0, bgeo, syn, g=g),
                          sh(hk), pad(2), aux(0), eos()))
        units.insert(i, new)
    elif op == "nx":
        u["nx"] = rng.choice(OFF)
    elif op == "pv":
        u["pv"] = rng.choice(OFF)
    elif op == "number":
        cands = [t for t, x in enumerate(units) if x["k"] in ("pic", "frag")]
        if cands:
            t = rng.choice(cands)
            units[t]["n"] = (units[t]["n"] + rng.choice((1, -1, 2, 1 << 31, 1 << 16, rng.randrange(M32)))) % M32
    elif op == "fragfield":
        cands = [t for t, x in enumerate(units) if x["k"] == "frag" and x["c"] > 0]
        if cands:
            t = rng.choice(cands)
            f = units[t]
            which = rng.choice(("c+", "c-", "x+", "x-", "y+", "y-", "xy", "lin"))
            if which == "c+":
                f["c"] += 1
            elif which == "c-" and f["c"] > 1:
                f["c"] -= 1
            elif which == "x+":
                f["x"] += 1
            elif which == "x-" and f["x"] > 0:
                f["x"] -= 1
            elif which == "y+":
                f["y"] += 1
            elif which == "y-" and f["y"] > 0:
                f["y"] -= 1
            elif which == "xy":
                f["x"], f["y"] = f["y"], f["x"]
            elif which == "lin" and f["y"] > 0:  # same linear index, different coordinates
                f["x"], f["y"] = f["x"] + f["g"][0], f["y"] - 1
    elif op == "header":
        cands = [t for t, x in enumerate(units) if x["k"] == "sh" and x["h"][0] == "tiny"]
        if cands:
            t = rng.choice(cands)
            h = list(units[t]["h"])
            h[5] = rng.choice([v for v in ("", "fr", "scan", "pcm", "clean") if v != h[5]])
            units[t]["h"] = h
    elif op == "profile":
        cands = [t for t, x in enumerate(units) if x["k"] in ("pic", "frag")]
        if cands:
            t = rng.choice(cands)
            units[t]["p"] = OTHER[units[t]["p"]]
    elif op == "config":
        # another profile / version / coding mode for a whole sequence (all its identical headers change together;
        # pictures are re-encoded in the syntax of the new major_version so that every unit stays individually valid)
        a, b = _seq_bounds(units, i)
        if units[a]["k"] == "sh" and units[a]["h"][0] == "tiny":
            old = tuple(units[a]["h"])
            new = list(old)
            what = rng.choice(("profile", "version", "pcm"))
            if what == "profile":
                new[1] = OTHER[new[1]]
            elif what == "version":
                new[2] = rng.choice([v for v in (1, 2, 3) if v != new[2]])
            else:
                new[4] = 1 - new[4]
            info = header_info(tuple(new))
            for t in range(a, b + 1):
                x = units[t]
                if x["k"] == "sh" and tuple(x["h"]) == old:
                    x["h"] = list(new)
                elif x["k"] in ("pic", "frag"):
                    x["syn"] = syn_of(info["version"])
                    if x["syn"] != 3:
                        x["asym"] = False
                    x["geo"] = "tiny1" if info["pcm"] else "tiny"
    return units


def fam_random(tier, seed):
    rng = random.Random("C01-histories-%s" % seed)
    N = 3500 if tier == "quick" else 60000
    cases = []
    for _ in range(N):
        units = []
        for _s in range(rng.choice((1, 1, 1, 2, 2, 3))):
            units += _rand_sequence(rng, allow_l1=True)
        for _f in range(rng.choice((0, 0, 0, 1, 1, 1, 1, 1, 2, 2))):
            units = _fault(rng, units)
        cases.append(units)
    return cases


FAMILIES = [
    ("E1 orderings", "all rules: every ordering of data units up to the stated length, 12 profile/version/coding-mode configurations, level 0", True),
    ("E2 offsets", "R-next / R-prev: every single and adjacent-pair parse-offset fault on every unit of every accepted short history", True),
    ("E3 numbers", "R-number: first picture number x step pattern x plain/fragmented pictures x frames/fields, second sequences", True),
    ("E4 fragments", "R-fragment: every fragmentation of small slice grids, one fragment replaced by every (count, x, y), number changes, drops, duplicates, every unit kind inserted at every gap", True),
    ("E5 headers", "R-header: repeated sequence headers, identical or differing in one field (including same meaning / different bytes)", True),
    ("E6 levels", "R-level: level 1 orderings with pictures and fragments (176x120), levels 64-66 picture-free histories", True),
    ("R random", "all rules: seeded random streams of 1-3 conformant sequences with 0-2 random faults", False),
]


# ======================================================================================================================
# the hook
# ======================================================================================================================
def check(rep, tier, seed):
    global _T
    from pyvc import frontend

    frontend.ensure_repo_on_path()
    import vc2_data_tables as tables
    from vc2_conformance import decoder  # noqa: F401  (imported before forking)

    t0 = time.time()
    _T = Templates()
    PC = tables.ParseCodes
    rep.add_eval_fact("parse codes used by the assembler equal the live ParseCodes table",
                      (int(PC.sequence_header), int(PC.end_of_sequence), int(PC.auxiliary_data), int(PC.padding_data), int(PC.low_delay_picture),
                       int(PC.high_quality_picture), int(PC.low_delay_picture_fragment), int(PC.high_quality_picture_fragment))
                      == (PC_SH, PC_EOS, PC_AUX, PC_PAD, PC_PIC["ld"], PC_PIC["hq"], PC_FRAG["ld"], PC_FRAG["hq"]), "")

    # ---- the assembler's continuation fragments are byte-identical with the serialiser's
    same = True
    detail = ""
    for geo in ("tiny", "tiny1", "l1"):
        for p in ("ld", "hq"):
            for syn in (1, 3):
                for g in ((2, 1), (2, 2)) + (((3, 2), (1, 1)) if geo != "l1" else ()):
                    b = _T.body(geo, p, syn, g, False)
                    for i, ref in enumerate(b["frag1"]):
                        mine = _unit_bytes(frag(p, 1, 1, i % g[0], i // g[0], geo, syn, g=g, at=i), _T)
                        if bytes(mine[:5]) + bytes(mine[13:]) != ref[:5] + ref[13:]:
                            same = False
                            detail = repr((geo, p, syn, g, i))
    rep.add_eval_fact("continuation fragments built by the assembler are byte-identical (apart from the parse offsets) with those of the project's serialiser", same, detail)

    # ---- generate, run.  The most common templates are built before the workers fork (the rest are built on demand in
    # the workers); the families are generated while the workers already run (slow level-1 family first).
    signal.signal(signal.SIGPROF, _on_timer)
    for geo in ("tiny", "tiny1"):
        for p in ("ld", "hq"):
            for syn in (1, 3):
                for asym in ((False, True) if syn == 3 else (False,)):
                    for g in ((1, 1), (2, 1), (2, 2), (3, 2)):
                        _T.body(geo, p, syn, g, asym)
    for prof in ("ld", "hq"):
        for version in (1, 2, 3):
            for pcm in (0, 1):
                for var in ("", "fr", "scan", "pcm", "clean", "size"):
                    _T.header(("tiny", prof, version, 0, pcm, var))
            _T.header(("l1", prof, version, 1, 0, ""))
    gens = [fam_orderings, fam_offsets, fam_numbers, fam_fragments, fam_headers, fam_levels, None]
    order = [5, 6, 0, 1, 2, 3, 4]
    sizes = [0] * len(gens)
    samples = [[] for _ in gens]

    def chunks():
        for fi in order:
            gen = gens[fi]
            cases = fam_random(tier, seed) if gen is None else gen(tier)
            sizes[fi] = len(cases)
            samples[fi] = [_brief(c) for c in (cases[len(cases) // 3], cases[(2 * len(cases)) // 3])] if cases else []
            for s in range(0, len(cases), CHUNK):
                yield (fi, s, cases[s:s + CHUNK])

    ctx = multiprocessing.get_context("fork")
    agg = [{"n": 0, "accept": 0, "reject": 0, "silent": 0, "abandoned": 0, "classes": {}, "fail": []} for _ in gens]
    pool = ctx.Pool(WORKERS, initializer=_worker_init)
    try:
        for res in pool.imap_unordered(_work, chunks()):
            a = agg[res["fam"]]
            for k in ("n", "accept", "reject", "silent", "abandoned"):
                a[k] += res[k]
            for k, v in res["classes"].items():
                a["classes"][k] = a["classes"].get(k, 0) + v
            a["fail"].extend(res["fail"])
    finally:
        pool.terminate()
        pool.join()
    signal.setitimer(signal.ITIMER_PROF, 0)

    all_classes = set()
    for fi, (name, what, exhaustive) in enumerate(FAMILIES):
        a = agg[fi]
        assert a["n"] == sizes[fi], "lost cases in family %s" % name
        a["fail"].sort(key=lambda f: f["index"])
        for f in a["fail"][:3]:
            rep.violation("history-%s-%d" % (name.split()[0], f["index"]),
                          {"what": "%s (%s)" % (f["problem"], name),
                           "inputs": {"family": name, "index": f["index"], "tier": tier, "seed": seed, "units": f["units"], "stream_hex": f["stream_hex"]},
                           "expected": {"monitor": f["monitor"], "rules_broken": f["reasons"], "silent_points": f["silent"]},
                           "observed": f["observed"]})
        classes = sorted(k for k in a["classes"] if k.startswith("reject:"))
        all_classes.update(classes)
        rep.add_bounded(name, what, a["n"], exhaustive, distinct=a["accept"] + a["reject"], samples=samples[fi],
                        note="monitor accept & accepted: %d; monitor reject & ConformanceError: %d; inconclusive (statement silent): %d; abandoned (CPU limit): %d; "
                             "disagreements: %d; distinct ConformanceError classes seen: %d (%s)"
                             % (a["accept"], a["reject"], a["silent"], a["abandoned"], len(a["fail"]), len(classes), ", ".join(c.split(":")[1] for c in classes)))
    rep.extra_coverage["C01 bounded histories"] = {"validator_runs": sum(sizes), "wall_seconds": round(time.time() - t0, 1),
                                                   "conformance_error_classes_exercised": sorted(c.split(":")[1] for c in all_classes)}


def _brief(units):
    out = []
    for u in units:
        s = u["k"]
        if s == "sh":
            s += ":" + "/".join(str(x) for x in u["h"][1:])
        elif s == "pic":
            s += ":%s#%d" % (u["p"], u["n"])
        elif s == "frag":
            s += ":%s#%d c%d@(%d,%d)" % (u["p"], u["n"], u["c"], u["x"], u["y"])
        if u.get("nx") is not None:
            s += " nx=%s" % (u["nx"],)
        if u.get("pv") is not None:
            s += " pv=%s" % (u["pv"],)
        out.append(s)
    return out


REGISTER = {
    "C01": dict(
        extra=[check],
        level="other",
        assumptions=[
            "BOUNDED (never counted as proved), both directions of the 'if and only if': the verdict of the real parse_stream is compared with a reference monitor written "
            "from the property statement on every history of the families E1-E6 (exhaustive over the stated small scopes) and R (seeded random), see bounded_checks; "
            "monitor accept => accepted, monitor reject => ConformanceError, any other exception is a violation",
            "histories are assembled from data units serialised by the project's own serialiser (all-zero slices, 8x4 frames; 176x120 under level 1); only byte-aligned "
            "literal fields (parse offsets, picture number, fragment slice count and offsets) are overwritten",
            "INCONCLUSIVE, never asserted: sequence header / padding / auxiliary data between the fragments of a picture; picture-free sequences with a non-minimal "
            "major_version; a first previous_parse_offset of a later sequence pointing at the preceding end-of-sequence",
            "NOT covered: accepted histories of levels 64-66 and (beyond one picture) levels 2-7: their pictures are HD/UHD and take minutes in the pure-Python decoder; "
            "non-zero slice payloads",
        ],
        manifest=dict(
            category="other",
            technique="reference monitor written from the statement vs. the real validator on exhaustively enumerated short data-unit histories and seeded random long ones",
            text="Both directions of acceptance == structural conformance over bounded histories (orderings, offsets, picture numbers, fragments, headers, levels).",
            note="Bounded stand-in; see assumptions for the scopes and the inconclusive cases.",
        ),
    )
}
