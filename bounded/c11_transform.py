"""C11 - the parts of the wavelet round trip outside the verified subset (2-D interleaving, level loops,
padding: nested-array views and list plumbing) as a BOUNDED native check, plus two ground facts that tie the
proved 1-D lemmas (contracts/c11_lifting.py) to the real oned_analysis / oned_synthesis:

* call trace: for each of the live LIFTING_FILTERS, oned_synthesis applies the stages in order with the
  synthesis lifting functions and oned_analysis applies them in reverse order with the opposite-sign
  functions (the order the per-filter lemmas replay);
* native round trip idwt_pad_removal(idwt(dwt(dwt_pad_addition(p)))) == p and subband shapes ==
  subband_width/height for all filter pairs, depths and sizes in the stated box.  Never counted as proved."""
import copy
import itertools
import random


def check(rep, tier, seed):
    from pyvc import frontend

    frontend.ensure_repo_on_path()
    from vc2_data_tables import LIFTING_FILTERS, WaveletFilters, LiftingFilterTypes
    from vc2_conformance.pseudocode import picture_decoding as pd
    from vc2_conformance.pseudocode import picture_encoding as pe
    from vc2_conformance.pseudocode.state import State
    from vc2_conformance.pseudocode.slice_sizes import subband_width, subband_height

    # ---- ground fact 1: the analysis table maps every type to the opposite-sign lifting function
    opposite = {pd.lift1: pd.lift2, pd.lift2: pd.lift1, pd.lift3: pd.lift4, pd.lift4: pd.lift3}
    ok = all(pe.ANALYSIS_LIFTING_FUNCTION_TYPES[t] is opposite[pd.SYNTHESIS_LIFTING_FUNCTION_TYPES[t]] for t in LiftingFilterTypes)
    ok &= [pd.SYNTHESIS_LIFTING_FUNCTION_TYPES[LiftingFilterTypes(k)] for k in (1, 2, 3, 4)] == [pd.lift1, pd.lift2, pd.lift3, pd.lift4]
    rep.add_eval_fact("lifting tables: SYNTHESIS maps types 1..4 to lift1..lift4 and ANALYSIS maps each type to the opposite-sign function", ok)
    # ---- ground fact 2: call traces of the real oned_synthesis / oned_analysis for every filter
    ok = True
    detail = ""
    for w in WaveletFilters:
        stages = LIFTING_FILTERS[w].stages
        for fn, table, order in ((pd.oned_synthesis, pd.SYNTHESIS_LIFTING_FUNCTION_TYPES, list(stages)),
                                 (pe.oned_analysis, pe.ANALYSIS_LIFTING_FUNCTION_TYPES, list(reversed(stages)))):
            trace = []
            saved = dict(table)
            try:
                for t, f in saved.items():
                    table[t] = (lambda f: (lambda A, L, D, taps, S: trace.append((f.__name__, L, D, tuple(taps), S))))(f)
                fn([0, 0, 0, 0], w)
            finally:
                table.update(saved)
            want = [(saved[s.lift_type].__name__, s.L, s.D, tuple(s.taps), s.S) for s in order]
            if trace != want:
                ok = False
                detail = "filter %s %s: %r != %r" % (w, fn.__name__, trace, want)
    rep.add_eval_fact("call traces: oned_synthesis applies stages in order and oned_analysis in reverse order, with the table's functions and the stage's (L, D, taps, S), for all %d filters" % len(list(WaveletFilters)), ok, detail)

    # ---- bounded native round trip
    rng = random.Random(seed)
    maxd = 2 if tier == "quick" else 3
    sizes = [(w, h) for w in (1, 2, 3, 5, 6) for h in (1, 2, 3, 5, 6)] if tier == "quick" else [(w, h) for w in range(1, 8) for h in range(1, 8)]
    evals = 0
    fails = 0
    samples = []
    filters = list(WaveletFilters)
    for wi in filters:
        for wiho in filters:
            for d in range(0, maxd + 1):
                for dh in range(0, maxd + 1):
                    # a few sizes per configuration (all sizes for the symmetric default pair), always one needing >= 2 padding rows
                    if wi == wiho and int(wi) <= 1:
                        use = sizes
                    else:
                        use = [(3, 5), (1, 1)] + [rng.choice(sizes)]
                    for (w, h) in use:
                        st = State(wavelet_index=wi, wavelet_index_ho=wiho, dwt_depth=d, dwt_depth_ho=dh,
                                   luma_width=w, luma_height=h, color_diff_width=w, color_diff_height=h)
                        kind = evals % 3
                        if kind == 0:
                            pic = [[(x * 7 + y * 13) % 251 - 100 for x in range(w)] for y in range(h)]
                        elif kind == 1:
                            pic = [[rng.choice([-(2 ** 40), 2 ** 40 - 1, 0, 1, -1, 255]) for x in range(w)] for y in range(h)]
                        else:
                            pic = [[rng.randint(-1024, 1023) for x in range(w)] for y in range(h)]
                        orig = copy.deepcopy(pic)
                        evals += 1
                        try:
                            work = copy.deepcopy(pic)
                            pe.dwt_pad_addition(st, work, "Y")
                            top = d + dh + 1
                            shape_ok = len(work) == subband_height(st, top, "Y") and all(len(r) == subband_width(st, top, "Y") for r in work)
                            rows_distinct = len(set(id(r) for r in work)) == len(work)
                            coeffs = pe.dwt(st, work)
                            for lv, bands in coeffs.items():
                                for o, a in bands.items():
                                    shape_ok &= len(a) == subband_height(st, lv, "Y") and all(len(r) == subband_width(st, lv, "Y") for r in a)
                            out = pd.idwt(st, coeffs)
                            pd.idwt_pad_removal(st, out, "Y")
                            good = out == orig and shape_ok and rows_distinct
                            obs = None if good else {"roundtrip_equal": out == orig, "shapes_match_slice_geometry": shape_ok, "padding_rows_distinct_objects": rows_distinct}
                        except Exception as e:
                            good = False
                            obs = repr(e)
                        if not good:
                            fails += 1
                            if fails <= 3:
                                rep.violation("roundtrip-%d" % fails, {
                                    "what": "dwt_pad_addition -> dwt -> idwt -> idwt_pad_removal does not return the picture / subband shapes differ from the slice geometry",
                                    "inputs": {"wavelet_index": int(wi), "wavelet_index_ho": int(wiho), "dwt_depth": d, "dwt_depth_ho": dh, "picture": orig},
                                    "observed": obs})
                        if len(samples) < 3 and d == 2 and dh == 1:
                            samples.append({"wavelet_index": int(wi), "wavelet_index_ho": int(wiho), "dwt_depth": d, "dwt_depth_ho": dh, "size": [w, h]})
    rep.add_bounded("2-D wavelet round trip and subband shapes", "all 7x7 filter pairs x depths 0..%d x 0..%d x {3x5, 1x1, one seeded size from %d sizes} "
                    "(all sizes for the two default symmetric pairs) x three value patterns incl. +-2^40" % (maxd, maxd, len(sizes)),
                    evals, False, distinct=evals, samples=samples)


REGISTER = {"C11": dict(extra=[check])}
