"""Contract language: what sidecar files under /verif/contracts import.

Sidecar files are ordinary Python modules.  They are *imported* (so that lemma
functions and contract clauses have a native semantics, used for replaying
counterexamples on the real code and for bounded checks) and their source is
*parsed* (the symbolic semantics).  Nothing here is ever imported by /repo.
"""
import ast
import inspect
import sys

from . import frontend
from .symexec import LEMMAS, SPEC_NATIVE, LemmaSrc, Registry, SpecFun

REG = Registry()
REG.classes = {}
REG.transparent_invariants = {}
REG.builtin_method_effects = {}
REG.opaque_classes = {}
REG.used_opaque = set()
REG.dict_universes = {}


class PreFail(Exception):
    """Native evaluation: the inputs do not satisfy the precondition (not a counterexample)."""


class ContractViolation(AssertionError):
    """Native evaluation: a contract clause is false on the real code."""


# ---- native ghost runtime ------------------------------------------------


def requires(c):
    if not c:
        raise PreFail()


def ensures(c):
    if not c:
        raise ContractViolation("ensures clause false")


def decreases(m):
    pass


def use(name, *args):
    ar, build, native, grid = LEMMAS[name]
    if not native(*args):
        raise RuntimeError("ground lemma %s false at %r" % (name, args))


def unfold(f, *args):
    pass


def assume_(c):
    if not c:
        raise PreFail()


def cover(c):
    pass


def implies(a, b):
    return (not a) or bool(b)


def ite(c, a, b):
    return a if c else b


def forall(*args, **kw):
    if len(args) == 3:
        lo, hi, f = args
        return all(f(j) for j in range(lo, hi))
    raise RuntimeError("unbounded forall has no native semantics")


def exists(*args, **kw):
    if len(args) == 3:
        lo, hi, f = args
        return any(f(j) for j in range(lo, hi))
    raise RuntimeError("unbounded exists has no native semantics")


def has(d, k):
    return k in d


def store(arr, i, v):
    a = list(arr)
    while len(a) <= i:
        a.append(0)
    a[i] = v
    return a


def define(f):
    pass


def is_fresh(x):
    return True


def lo_has(m, level, orient):
    return level in m and orient in m[level]


def lo_row(m, level):
    return level in m


def lo_get(m, level, orient):
    return m[level][orient]


def gheight(a):
    return len(a)


def gwidth(a):
    return len(a[0]) if len(a) else 0


def content(f):
    """Bytes of a file-like object / list (native twin of the ghost view)."""
    if hasattr(f, "getvalue"):
        return f.getvalue()
    return list(f)


def elems(x):
    return list(x)


def fpos(f):
    return f.tell()


def flen(f):
    return len(f.getvalue())


def length(x):
    return len(x)


def field(obj, name):
    return getattr(obj, name)


pow2 = SPEC_NATIVE["pow2"]
blen = SPEC_NATIVE["blen"]
bitof = SPEC_NATIVE["bitof"]
band = SPEC_NATIVE["band"]
bor = SPEC_NATIVE["bor"]


# ---- declarations ----------------------------------------------------------


def fields(**kw):
    """Declare heap field types: int bool optint str ref:<kind>."""
    for k, v in kw.items():
        if REG.fields.get(k, v) != v:
            raise RuntimeError("conflicting type for field %s" % k)
        REG.fields[k] = v


def fields_dict(d):
    fields(**d)


def transparent(*fqs):
    for fq in fqs:
        REG.transparent.add(fq)


def _sidecar_of(fn):
    mod = sys.modules[fn.__module__]
    return mod


_SIDE_AST = {}


def _module_funcdefs(mod):
    if mod.__name__ not in _SIDE_AST:
        src = inspect.getsource(mod)
        tree = ast.parse(src)
        _SIDE_AST[mod.__name__] = {n.name: n for n in tree.body if isinstance(n, ast.FunctionDef)}
        for n in tree.body:
            if isinstance(n, ast.ClassDef):
                _SIDE_AST[mod.__name__]["class:" + n.name + ":" + str(n.lineno)] = n
    return _SIDE_AST[mod.__name__]


def _ann(a):
    if a.annotation is None:
        return "int"
    if isinstance(a.annotation, ast.Constant):
        return a.annotation.value
    return ast.unparse(a.annotation)


def lemma(fn):
    mod = _sidecar_of(fn)
    node = _module_funcdefs(mod)[fn.__name__]
    params = [(a.arg, _ann(a)) for a in node.args.args]
    ls = LemmaSrc(fn.__name__, node, mod.__name__, mod.__file__, params)
    ls.sidecar_globals = mod.__dict__
    ls.native = fn
    REG.lemmas[fn.__name__] = ls
    fn.__lemma__ = ls
    return fn


def inline(fn):
    """A sidecar helper whose body is inlined symbolically (like a transparent real function)."""
    mod = _sidecar_of(fn)
    node = _module_funcdefs(mod)[fn.__name__]
    fn.__pyvc_inline__ = (node, mod)
    return fn


def specfun(fn):
    mod = _sidecar_of(fn)
    node = _module_funcdefs(mod)[fn.__name__]
    params = [(a.arg, _ann(a)) for a in node.args.args]
    sf = SpecFun(fn.__name__, node, mod.__name__, params)
    sf.native = fn
    REG.specfuns[fn.__name__] = sf
    fn.__specfun__ = sf
    return fn


class Contract(object):
    def __init__(self, fq, cls, mod):
        self.fq = fq
        self.short = fq.split(".")[-1] if "." in fq else fq
        fsrc = frontend.get_function(fq)
        self.module = fsrc.module
        self.sidecar_globals = mod.__dict__
        self.sidecar = mod.__name__
        g = lambda k, d: getattr(cls, k, d)
        self.args = dict(g("args", {}))
        self.result = g("result", None)
        self.requires = [_parse(s) for s in g("requires", [])]
        self.ensures = [_parse(s) for s in g("ensures", [])]
        self.modifies = [_parse(s) for s in g("modifies", [])]
        self.invariants = {k: [_parse(s) for s in v] for k, v in g("invariants", {}).items()}
        self.raises = []
        raises = g("raises", {})
        for name, cond in raises.items():
            self.raises.append((name, None, _parse(cond) if cond else None))
        rx = g("raises_exact", False)
        # raises_exact: True = every class with a condition is raised IF AND ONLY IF its condition holds;
        # a list of class names = only those; a condition on a class not listed is "raised ONLY IF"
        self.raises_exact_names = None if rx is True else (set(rx) if rx else set())
        self.raises_exact = bool(rx)
        self.trusted = g("trusted", None)  # reason string: contract assumed, body not verified
        self.ghost = {k: [_parse(x) for x in v] for k, v in g("ghost", {}).items()}
        self.str_domains = dict(g("str_domains", {}))
        self.split_on = list(g("split_on", []))
        self.properties = g("properties", [])

    def resolve_classes(self):
        out = []
        for (name, _, cond) in self.raises:
            if name.startswith("@"):
                out.append((name, None, cond))  # the class passed as that parameter
                continue
            cls = self.sidecar_globals.get(name)
            if cls is None:
                try:
                    cls = frontend.resolve_name(self.module, name)
                except KeyError:
                    import builtins

                    cls = getattr(builtins, name)
            out.append((name, cls, cond))
        self.raises = out


def is_exact(contract, name):
    return contract.raises_exact and (contract.raises_exact_names is None or name in contract.raises_exact_names)


def _parse(s):
    return (s, ast.parse(s.strip(), mode="eval").body)


def spec(fq):
    def deco(cls):
        mod = sys.modules[cls.__module__]
        c = Contract(fq, cls, mod)
        c.resolve_classes()
        REG.contracts[fq] = c
        return cls

    return deco


def register_class(name, fq):
    REG.classes[name] = fq


def opaque_class(fq, kind, reason):
    """Instances are opaque objects; their methods are given trusted models (listed in the evidence)."""
    REG.opaque_classes[fq] = kind
    REG.opaque_calls[fq] = reason


def dict_universe(clsname, keys):
    REG.dict_universes[clsname] = list(keys)
