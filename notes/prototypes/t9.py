import z3,time
def prove(name, f, hyps=(), timeout=30000):
    s=z3.Solver(); s.set("timeout",timeout)
    for h in hyps: s.add(h)
    s.add(z3.Not(f)); t=time.time(); r=s.check(); print(name, "PROVED" if r==z3.unsat else r, "%.2fs"%(time.time()-t))
    if r==z3.sat: print("   model:", s.model())
W0,Q,n,sx,t_=z3.Ints('W0 Q n sx t')
# with witness t = W0/n  and named products
M=z3.Int('M')   # M = t*Q  (slice width at level L)
WL=z3.Int('WL')
hy=[n>=1,Q>=1,W0>=0,W0==n*t_,M==t_*Q,WL==n*M,sx>=0,sx<n]
a=z3.Int('a'); b=z3.Int('b')
# lemma div_mul_cancel instances: (n*X) div n == X
X=z3.Int('X')
def dmc(X): return z3.Implies(n>=1,(n*X)/n==X)
prove("S3 => (hinted)", ( (WL*(sx+1))/n-(WL*sx)/n==WL/n ), hyps=hy+[WL*(sx+1)==n*(M*(sx+1)), WL*sx==n*(M*sx), dmc(M*(sx+1)), dmc(M*sx), dmc(M), M*(sx+1)==M*sx+M])
W,c=z3.Ints('W c')
prove("S3 <= final (hinted)", W%n==0, hyps=[n>=1,W>=0,(W*n)/n==c*n, (n*W)/n==W, W*n==n*W, (n*c)%n==0, c*n==n*c])
# LD lemma with coefficient-bits fact
sb,lb,P,yl=z3.Ints('sb lb P yl'); T=8*sb-7
prove("LD ylen fits", z3.Implies(z3.And(sb>=1,lb>=0,P>=T,P>=1, z3.Implies(T>=2,lb>=1), z3.Or(yl==0,yl>=4), yl<=T-lb), yl<P))
