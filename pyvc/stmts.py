"""Statement execution (see symexec.py for the model)."""
import ast

import z3

from .symexec import (
    AIA,
    AIB,
    AII,
    Exec,
    LoopCtl,
    NONE,
    St,
    SV,
    Unsupported,
    _same_heap,
    as_int,
    lift_conc,
    merge_states,
    mk_bool,
    mk_conc,
    mk_int,
    mk_ref,
    mk_tuple,
    sv_ite,
    truth,
)


def assigned_names(stmts):
    out = set()

    class V(ast.NodeVisitor):
        def visit_Name(self, n):
            if isinstance(n.ctx, (ast.Store, ast.Del)):
                out.add(n.id)

        def visit_FunctionDef(self, n):
            out.add(n.name)

        def visit_Lambda(self, n):
            pass

    for s in stmts:
        V().visit(s)
    return out


class Runner(Exec):
    # ------------------------------------------------------------------
    def run_block(self, st, stmts):
        for s in stmts:
            if st.dead:
                return
            m = getattr(self, "st_" + type(s).__name__, None)
            if m is None:
                raise Unsupported("statement %s" % type(s).__name__, s)
            m(st, s)

    def run_block_split(self, st, stmts):
        """Like run_block, but `if` statements fork the rest of the block instead of merging (path splitting):
        returns the list of states that reach the end of the block."""
        ctx = self.ctx
        for i, s in enumerate(stmts):
            if st.dead:
                return []
            if isinstance(s, ast.If):
                c = truth(ctx, st, self.ev(st, s.test), s.test)
                if st.dead:
                    return []
                outs = []
                for cond, body in ((c, s.body), (z3.Not(c), s.orelse)):
                    if z3.is_false(z3.simplify(cond)):
                        continue
                    b = st.fork(cond)
                    outs.extend(self.run_block_split(b, list(body) + list(stmts[i + 1:])))
                return outs
            self.run_block(st, [s])
        return [] if st.dead else [st]

    def st_Pass(self, st, s):
        pass

    def st_Expr(self, st, s):
        if isinstance(s.value, ast.Constant):
            return
        self.ev(st, s.value)

    def st_FunctionDef(self, st, s):
        # a nested function: calls to it are inlined in the environment of the enclosing function (closure)
        st.env[s.name] = mk_conc(LocalFn(s))
        st.defd[s.name] = z3.BoolVal(True)

    def st_Global(self, st, s):
        raise Unsupported("global statement", s)

    def st_Assert(self, st, s):
        ctx = self.ctx
        fr = ctx.frames[-1]
        v = self.ev(st, s.test)
        t = truth(ctx, st, v, s)
        label = "assert"
        txt = ast.unparse(s.test)
        if s.msg is not None and isinstance(s.msg, ast.Constant):
            txt = "%s: %s" % (s.msg.value, txt)
        ctx.oblige(st, t, label, s, txt)
        ctx.assume(st, t)

    def assign_target(self, st, tgt, val, node):
        ctx = self.ctx
        if isinstance(tgt, ast.Name):
            st.env[tgt.id] = val
            st.defd[tgt.id] = z3.BoolVal(True)
            return
        if isinstance(tgt, (ast.Tuple, ast.List)):
            if val.k == "conc":
                val = lift_conc(ctx, val, node)
            if val.k != "tuple" or len(val.z) != len(tgt.elts):
                raise Unsupported("tuple unpacking of %s" % val.k, node)
            for t, v in zip(tgt.elts, val.z):
                self.assign_target(st, t, v, node)
            return
        if isinstance(tgt, ast.Subscript):
            base = self.ev(st, tgt.value)
            if base.k == "ref":
                kind = base.x or ""
                if kind.startswith("dict"):
                    key = self.const_key(st, tgt.slice)
                    self.store_key(st, base, key, val, node)
                    return
                if kind.startswith("list") or kind == "bytearray":
                    idx = as_int(ctx, st, self.ev(st, tgt.slice), node)
                    self.store_elem(st, base, idx, val, node)
                    return
            raise Unsupported("subscript store on %s/%s" % (base.k, base.x), node)
        if isinstance(tgt, ast.Attribute):
            base = self.ev(st, tgt.value)
            if base.k == "ref":
                self.store_field(st, base, tgt.attr, val, node)
                return
            raise Unsupported("attribute store on %s" % base.k, node)
        raise Unsupported("assignment target %s" % type(tgt).__name__, node)

    def st_Assign(self, st, s):
        val = self.ev(st, s.value)
        for tgt in s.targets:
            self.assign_target(st, tgt, val, s)

    def st_AnnAssign(self, st, s):
        if s.value is not None:
            self.assign_target(st, s.target, self.ev(st, s.value), s)

    def st_AugAssign(self, st, s):
        ctx = self.ctx
        tgt = s.target
        load = ast.copy_location(_as_load(tgt), tgt)
        cur = self.ev(st, load)
        rhs = self.ev(st, s.value)
        if cur.k == "tuple" and rhs.k == "tuple" and isinstance(s.op, ast.Add):
            val = mk_tuple(cur.z + rhs.z)
        else:
            x = as_int(ctx, st, cur, s)
            y = as_int(ctx, st, rhs, s)
            val = mk_int(self.arith(st, s.op, x, y, s))
        self.assign_target(st, tgt, val, s)

    def st_Delete(self, st, s):
        ctx = self.ctx
        for tgt in s.targets:
            if isinstance(tgt, ast.Subscript):
                base = self.ev(st, tgt.value)
                if base.k == "ref" and (base.x or "").startswith("dict"):
                    key = self.const_key(st, tgt.slice)
                    has = ctx.field_array(st, "has_" + key, AIB)
                    ctx.oblige(st, has[base.z], "key-present", s, "del state[%r]: key present" % key)
                    ctx.set_field_array(st, "has_" + key, z3.Store(has, base.z, z3.BoolVal(False)))
                    continue
            raise Unsupported("del of %s" % type(tgt).__name__, s)

    def st_If(self, st, s):
        ctx = self.ctx
        c = truth(ctx, st, self.ev(st, s.test), s.test)
        if st.dead:
            return
        cs = z3.simplify(c)
        if z3.is_true(cs):
            self.run_block(st, s.body)
            return
        if z3.is_false(cs):
            self.run_block(st, s.orelse)
            return
        a = st.fork(c)
        b = st.fork(z3.Not(c))
        self.run_block(a, s.body)
        self.run_block(b, s.orelse)
        merge_states(ctx, [a, b], st)

    def st_Return(self, st, s):
        ctx = self.ctx
        v = self.ev(st, s.value) if s.value is not None else NONE
        if st.dead:
            return
        ctx.frames[-1].returns.append((st.fork(), v))
        st.dead = True

    def st_Break(self, st, s):
        self.ctx.frames[-1].loops[-1].breaks.append(st.fork())
        st.dead = True

    def st_Continue(self, st, s):
        self.ctx.frames[-1].loops[-1].continues.append(st.fork())
        st.dead = True

    # ---- exceptions ------------------------------------------------------
    def deliver_raise(self, st, cls, node=None):
        if st.dead:
            return
        self.ctx.exc_stack[-1].append((st.fork(), cls, node))
        st.dead = True

    def st_Raise(self, st, s):
        ctx = self.ctx
        if s.exc is None:
            cur = getattr(ctx, "current_exc", None)
            if cur is None:
                raise Unsupported("bare raise outside handler", s)
            self.deliver_raise(st, cur, s)
            return
        exc = s.exc
        argvals = []
        if isinstance(exc, ast.Call):
            clsv = self.ev(st, exc.func)
            for a in list(exc.args) + [k.value for k in exc.keywords]:
                v = self.ev_tolerant(st, a)
                if isinstance(a, ast.Starred) and v is not None and v.k == "tuple":
                    argvals.extend(v.z)
                else:
                    argvals.append(v)
        else:
            clsv = self.ev(st, exc)
        if clsv.k != "conc" or not (isinstance(clsv.z, type) and issubclass(clsv.z, BaseException)):
            raise Unsupported("raise of non-class", s)
        for ((txt, node), glob, why) in self.reg.raise_requires.get(clsv.z, []):
            from .calls import contract_frame
            from .symexec import Frame

            fr0 = ctx.frames[-1]
            fr = Frame("raise-requires", fr0.modname)
            fr.locals_assigned = set()
            fr.sidecar_globals = glob
            fr.loop_ordinals = {}
            fr.invariants = {}
            fr.old_state = fr0.old_state
            ctx.frames.append(fr)
            try:
                extra = {"a%d" % i: v for i, v in enumerate(argvals) if v is not None}
                z = self.ev_spec(st, node, extra)
            finally:
                ctx.frames.pop()
            ctx.oblige(st, z, "explainable", s, "%s can be explained: %s (%s)" % (clsv.z.__name__, txt, why))
        self.deliver_raise(st, clsv.z, s)

    def ev_tolerant(self, st, e):
        """Evaluate for safety obligations only; values are irrelevant (exception args, formatting)."""
        try:
            return self.ev(st, e)
        except Unsupported:
            if isinstance(e, ast.Starred):
                return self.ev_tolerant(st, e.value)
            for child in ast.iter_child_nodes(e):
                if isinstance(child, ast.expr):
                    self.ev_tolerant(st, child)
                elif isinstance(child, ast.keyword):
                    self.ev_tolerant(st, child.value)
            return SV("str", self.ctx.fresh("opaque"))

    def st_Try(self, st, s):
        ctx = self.ctx
        if s.finalbody:
            raise Unsupported("try/finally", s)
        ctx.exc_stack.append([])
        self.run_block(st, s.body)
        raised = ctx.exc_stack.pop()
        if not st.dead and s.orelse:
            self.run_block(st, s.orelse)
        outs = [st.fork()] if not st.dead else []
        for (est, cls, node) in raised:
            handled = False
            for h in s.handlers:
                if h.type is None:
                    hcls = (BaseException,)
                else:
                    hv = self.ev(est, h.type)
                    if hv.k == "tuple":
                        hcls = tuple(x.z for x in hv.z)
                    else:
                        hcls = (hv.z,)
                if issubclass(cls, hcls):
                    if h.name:
                        est.env[h.name] = mk_conc(ExcInstance(cls))
                        est.defd[h.name] = z3.BoolVal(True)
                    prev = getattr(ctx, "current_exc", None)
                    ctx.current_exc = cls
                    self.run_block(est, h.body)
                    ctx.current_exc = prev
                    if not est.dead:
                        outs.append(est)
                    handled = True
                    break
            if not handled:
                ctx.exc_stack[-1].append((est, cls, node))
        if outs:
            merge_states(ctx, outs, st)
        else:
            st.dead = True

    # ---- loops -----------------------------------------------------------
    def loop_invariants(self, node):
        fr = self.ctx.frames[-1]
        ordn = fr.loop_ordinals.get(id(node))
        inv = fr.invariants.get(ordn)
        if inv is None:
            raise Unsupported("loop %s in %s has no invariant in the contract" % (ordn, fr.unit), node)
        return ordn, inv

    def st_While(self, st, s):
        if s.orelse:
            raise Unsupported("while/else", s)
        self.do_loop(st, s, None)

    def st_For(self, st, s):
        ctx = self.ctx
        if s.orelse:
            raise Unsupported("for/else", s)
        it = s.iter
        # for x in <constant sequence>: unrolled (complete: the table is finite and read live)
        if isinstance(it, ast.Call) and isinstance(it.func, ast.Name) and it.func.id in ("zip", "count") and it.func.id not in st.env:
            import itertools

            fobj = self.ev(st, it.func)
            if it.func.id == "count" and fobj.k == "conc" and fobj.z is itertools.count and len(it.args) <= 1:
                lo = as_int(ctx, st, self.ev(st, it.args[0]), s) if it.args else z3.IntVal(0)
                self.do_loop(st, s, ("count", lo))
                return
            if it.func.id == "zip" and fobj.k == "conc" and fobj.z is zip and len(it.args) == 2:
                sa, sb = self.ev(st, it.args[0]), self.ev(st, it.args[1])
                if all(x.k == "ref" and (x.x or "").startswith("list") for x in (sa, sb)):
                    self.do_loop(st, s, ("zip", sa, sb))
                    return
            raise Unsupported("for over %s(...)" % it.func.id, s)
        if not (isinstance(it, ast.Call) and isinstance(it.func, ast.Name) and it.func.id in ("range", "reversed", "enumerate")):
            seq = self.ev(st, it)
            if seq.k == "conc" and isinstance(seq.z, (list, tuple)):
                self.unroll(st, s, [lift_conc(ctx, mk_conc(x), s) for x in seq.z])
                return
            if seq.k == "tuple":
                self.unroll(st, s, seq.z)
                return
            if seq.k == "ref" and (seq.x or "").startswith("list"):
                self.do_loop(st, s, ("list", seq))
                return
            raise Unsupported("for over %s" % seq.k, s)
        if it.func.id == "range":
            args = [as_int(ctx, st, self.ev(st, a), s) for a in it.args]
            if len(args) == 1:
                lo, hi, step = z3.IntVal(0), args[0], 1
            elif len(args) == 2:
                lo, hi, step = args[0], args[1], 1
            else:
                stp = z3.simplify(args[2])
                if not z3.is_int_value(stp) or stp.as_long() not in (1, -1):
                    raise Unsupported("range step not +-1", s)
                lo, hi, step = args[0], args[1], stp.as_long()
            los, his = z3.simplify(lo), z3.simplify(hi)
            fr = ctx.frames[-1]
            ordn = fr.loop_ordinals.get(id(s))
            if (
                z3.is_int_value(los)
                and z3.is_int_value(his)
                and fr.invariants.get(ordn) is None
                and abs(his.as_long() - los.as_long()) <= 64
            ):
                vals = range(los.as_long(), his.as_long(), step)
                self.unroll(st, s, [mk_int(v) for v in vals])
                return
            self.do_loop(st, s, ("range", lo, hi, step))
            return
        if (it.func.id == "reversed" and len(it.args) == 1 and isinstance(it.args[0], ast.Call) and isinstance(it.args[0].func, ast.Name)
                and it.args[0].func.id == "range" and "range" not in st.env and len(it.args[0].args) in (1, 2)):
            # reversed(range(a, b)): b-1, b-2, ..., a
            rargs = [as_int(ctx, st, self.ev(st, a), s) for a in it.args[0].args]
            lo, hi = (z3.IntVal(0), rargs[0]) if len(rargs) == 1 else (rargs[0], rargs[1])
            self.do_loop(st, s, ("range", hi - 1, lo - 1, -1))
            return
        if it.func.id in ("reversed", "enumerate") and len(it.args) == 1:
            seq = self.ev(st, it.args[0])
            if seq.k == "tuple" or (seq.k == "conc" and isinstance(seq.z, (list, tuple))):
                items = seq.z if seq.k == "tuple" else [lift_conc(ctx, mk_conc(x), s) for x in seq.z]
                if it.func.id == "reversed":
                    self.unroll(st, s, list(reversed(items)))
                else:
                    self.unroll(st, s, [mk_tuple([mk_int(z3.IntVal(i)), x]) for i, x in enumerate(items)])
                return
            if seq.k == "ref" and (seq.x or "").startswith("list"):
                self.do_loop(st, s, ("rlist" if it.func.id == "reversed" else "enum", seq))
                return
        raise Unsupported("for over %s(...)" % it.func.id, s)

    def unroll(self, st, s, items):
        ctx = self.ctx
        fr = ctx.frames[-1]
        ctl = LoopCtl()
        fr.loops.append(ctl)
        exits = []
        for it in items:
            if st.dead:
                break
            self.assign_target(st, s.target, it, s)
            self.run_block(st, s.body)
            if ctl.continues:
                merge_states(ctx, [st] + ctl.continues, st)
                ctl.continues = []
            if ctl.breaks:
                exits.extend(ctl.breaks)
                ctl.breaks = []
        fr.loops.pop()
        if exits:
            merge_states(ctx, [st] + exits, st)

    def do_loop(self, st, s, mode):
        ctx = self.ctx
        fr = ctx.frames[-1]
        ordn, invs = self.loop_invariants(s)
        tag = "loop%d" % ordn
        hidden = "__it%d" % ordn
        body = list(s.body)
        # --- set up the hidden counter for `for` loops
        opaque = mode is not None and mode[0] == "opaque"
        if opaque:
            # iteration over an opaque iterable: any number of iterations, loop variable unconstrained
            lo, step = z3.IntVal(0), 1
            hi = ctx.fresh("opaque_len")
            ctx.assume(st, hi >= 0)
            st.env[hidden] = mk_int(lo)
            st.defd[hidden] = z3.BoolVal(True)
            hi_c = ctx.fresh("hi")
            lo_c = ctx.fresh("lo")
            ctx.assume(st, z3.And(hi_c == hi, lo_c == lo))
            hi, lo = hi_c, lo_c
        elif mode is not None:
            if mode[0] == "range":
                _, lo, hi, step = mode
                st.env[hidden] = mk_int(lo)
            elif mode[0] == "count":
                # itertools.count(lo): no upper bound; the loop only ends by return/break/raise
                lo, step, hi = mode[1], 1, None
                st.env[hidden] = mk_int(lo)
            elif mode[0] == "rlist":
                seq = mode[1]
                lnz = ctx.field_array(st, "len", AII)[seq.z]
                ctx.assume(st, lnz >= 0)
                lo, step, hi = lnz - 1, -1, z3.IntVal(-1)
                st.env[hidden] = mk_int(lo)
            elif mode[0] == "zip":
                la = ctx.field_array(st, "len", AII)[mode[1].z]
                lb = ctx.field_array(st, "len", AII)[mode[2].z]
                ctx.assume(st, z3.And(la >= 0, lb >= 0))
                lo, step, hi = z3.IntVal(0), 1, z3.If(la < lb, la, lb)
                st.env[hidden] = mk_int(lo)
            else:
                seq = mode[1]
                lo, step = z3.IntVal(0), 1
                hi = ctx.field_array(st, "len", AII)[seq.z]
                ctx.assume(st, hi >= 0)
                st.env[hidden] = mk_int(lo)
            st.defd[hidden] = z3.BoolVal(True)
            # the loop bound is evaluated once (Python semantics of range)
            lo_c = ctx.fresh("lo")
            if hi is None:
                ctx.assume(st, lo_c == lo)
                lo = lo_c
            else:
                hi_c = ctx.fresh("hi")
                ctx.assume(st, z3.And(hi_c == hi, lo_c == lo))
                hi, lo = hi_c, lo_c

        def bind_loopvar_names(state):
            # inside invariants the loop variable name (for tuple targets: the first name) and `_k` denote the hidden counter
            if mode is None:
                return {}
            out = {"_k": state.env[hidden]}
            if isinstance(s.target, ast.Name) and mode[0] not in ("rlist",):
                out[s.target.id] = state.env[hidden]
            elif isinstance(s.target, ast.Tuple) and mode[0] == "enum" and isinstance(s.target.elts[0], ast.Name):
                out[s.target.elts[0].id] = state.env[hidden]
            return out

        def range_inv(state):
            k = state.env[hidden].z
            if hi is None:
                return lo <= k
            if step == 1:
                return z3.And(lo <= k, z3.Or(k <= hi, k == lo))
            return z3.And(k <= lo, z3.Or(k >= hi, k == lo))

        def check_invs(state, phase):
            extra = bind_loopvar_names(state)
            for i, (txt, node) in enumerate(invs):
                z = self.ev_spec(state, node, extra)
                ctx.oblige(state, z, "%s.%s" % (tag, phase), s, "invariant %d: %s" % (i + 1, txt))

        def assume_invs(state):
            extra = bind_loopvar_names(state)
            if mode is not None:
                ctx.assume(state, range_inv(state))
            for (txt, node) in invs:
                ctx.assume(state, self.ev_spec(state, node, extra))

        # 1. invariant holds on entry
        self.run_ghost(st, "%s.before" % tag)
        check_invs(st, "init")
        # 2. havoc everything the loop may modify
        names = assigned_names(body) | ({hidden} if mode is not None else set())
        if mode is not None:
            names |= assigned_names([ast.Assign(targets=[s.target], value=ast.Constant(0))])
        if mode is None:
            names |= assigned_names([ast.Expr(s.test)])
        heap_mods = self.block_heap_effects(st, body + ([ast.Expr(s.test)] if mode is None else []), names)
        pre = st.fork()
        fr.loop_entry = getattr(fr, "loop_entry", {})
        fr.loop_entry[ordn] = pre
        for n in sorted(names):
            if n in st.env:
                st.env[n] = self.havoc_like(st.env[n], n)
                if n in st.defd and not z3.is_true(st.defd[n]):
                    st.defd[n] = ctx.fresh("def_" + n, z3.BoolSort())
        for (refz, field, cond) in heap_mods:
            arr = ctx.field_array(st, field, None)
            if refz is None:
                st.heap[field] = ctx.fresh("Hv_" + field, arr.sort())
            else:
                fv = ctx.fresh("hv_" + field, arr.sort().range())
                if cond is not None:
                    fv = z3.If(cond, fv, arr[refz])
                ctx.set_field_array(st, field, z3.Store(arr, refz, fv))
        assume_invs(st)
        # 3. one arbitrary iteration
        ctl = LoopCtl()
        fr.loops.append(ctl)
        self.run_ghost(st, "%s.head" % tag)
        if mode is None:
            c = truth(ctx, st, self.ev(st, s.test), s.test)
            exit_st = st.fork(z3.Not(c))
            body_st = st.fork(c)
        else:
            k = st.env[hidden].z
            guard = z3.BoolVal(True) if hi is None else ((k < hi) if step == 1 else (k > hi))
            exit_st = st.fork(z3.Not(guard))
            if hi is None:
                exit_st.dead = True
            body_st = st.fork(guard)
            if mode[0] in ("range", "count"):
                self.assign_target(body_st, s.target, mk_int(k), s)
            elif mode[0] == "opaque":
                self.assign_target(body_st, s.target, SV("str", ctx.fresh("opaque_item")), s)
            elif mode[0] == "enum":
                self.assign_target(body_st, s.target, mk_tuple([mk_int(k), self.load_elem(body_st, mode[1], k, s, in_range=True)]), s)
            elif mode[0] == "zip":
                self.assign_target(body_st, s.target, mk_tuple([self.load_elem(body_st, mode[1], k, s, in_range=True), self.load_elem(body_st, mode[2], k, s, in_range=True)]), s)
            else:
                self.assign_target(body_st, s.target, self.load_elem(body_st, mode[1], k, s, in_range=True), s)
            body_st.env[hidden] = mk_int(k + step)
            # ghost name `_k`: index of the current element at body_start, of the next one at body_end (as in the invariants)
            body_st.env["_k"] = mk_int(k)
            body_st.defd["_k"] = z3.BoolVal(True)
        self.run_ghost(body_st, "%s.body_start" % tag)
        contract = getattr(fr, "contract", None)
        if contract is not None and ordn in getattr(contract, "split_loops", []):
            ends = self.run_block_split(body_st, body) + ctl.continues
        else:
            for bi, bstmt in enumerate(body):
                if body_st.dead:
                    break
                self.run_block(body_st, [bstmt])
                # ghost statements between the statements of a loop body: "loopN.after_stmtK" (K counts from 1)
                self.run_ghost(body_st, "%s.after_stmt%d" % (tag, bi + 1))
            ends = [body_st] + ctl.continues
        fr.loops.pop()
        for e in ends:
            if not e.dead:
                if mode is not None:
                    e.env["_k"] = e.env[hidden]
                    e.defd["_k"] = z3.BoolVal(True)
                self.run_ghost(e, "%s.body_end" % tag)
                check_invs(e, "preserve")
        # 4. after the loop
        if mode is not None and mode[0] == "opaque" and isinstance(s.target, ast.Name):
            exit_st.env[s.target.id] = SV("str", ctx.fresh("opaque_item"))
            exit_st.defd[s.target.id] = ctx.fresh("def_item", z3.BoolSort())
        elif mode is not None and isinstance(s.target, ast.Name) and mode[0] in ("range", "count"):
            # Python leaves the last value in the loop variable
            k = exit_st.env[hidden].z
            exit_st.env[s.target.id] = mk_int(k - step)
            prevd = pre.defd.get(s.target.id, z3.BoolVal(False)) if s.target.id in pre.env else z3.BoolVal(False)
            exit_st.defd[s.target.id] = z3.simplify(z3.Or(prevd, k != lo))
        if mode is not None:
            for x in [exit_st] + ctl.breaks:
                x.env["_k"] = x.env.get(hidden, exit_st.env[hidden])
                x.defd["_k"] = z3.BoolVal(True)
        merge_states(ctx, [exit_st] + ctl.breaks, st)
        self.run_ghost(st, "%s.after" % tag)

    def run_ghost(self, st, where):
        """Ghost statements the contract attaches to a program point (lemma uses, unfoldings, asserts)."""
        fr = self.ctx.frames[-1]
        c = getattr(fr, "contract", None)
        if c is None or st.dead:
            return
        for (txt, node) in c.ghost.get(where, []):
            if isinstance(node, ast.NamedExpr):
                # ghost variable:  (g_name := spec-expression)
                saved = self.ctx.spec_mode
                self.ctx.spec_mode = True
                try:
                    v = self.ev(st.fork(), node.value)
                finally:
                    self.ctx.spec_mode = saved
                st.env[node.target.id] = v
                st.defd[node.target.id] = z3.BoolVal(True)
                continue
            if isinstance(node, ast.Call) and isinstance(node.func, ast.Name) and node.func.id == "check":
                z = self.ev_spec(st, node.args[0])
                self.ctx.oblige(st, z, "ghost-assert", None, "%s: %s" % (where, txt))
                self.ctx.assume(st, z)
            else:
                # ghost calls (use/unfold/lemma calls): argument expressions are specification terms (no
                # safety obligations); lemma preconditions and measures are still checked (force=True)
                tmp = st.fork()
                saved = self.ctx.spec_mode
                self.ctx.spec_mode = True
                try:
                    self.ev(tmp, node)
                finally:
                    self.ctx.spec_mode = saved

    def havoc_like(self, v, name):
        ctx = self.ctx
        if v.k == "int":
            return mk_int(ctx.fresh(name))
        if v.k == "bool":
            return mk_bool(ctx.fresh(name, z3.BoolSort()))
        if v.k == "optint":
            return SV("optint", (ctx.fresh(name + "_none", z3.BoolSort()), ctx.fresh(name)))
        if v.k == "ref":
            return SV("ref", ctx.fresh(name), v.x)
        if v.k == "optref":
            return SV("optref", (ctx.fresh(name + "_none", z3.BoolSort()), ctx.fresh(name)), v.x)
        if v.k == "str":
            return SV("str", ctx.fresh(name))
        if v.k == "tuple":
            return mk_tuple([self.havoc_like(x, name) for x in v.z])
        if v.k == "none":
            return v
        if v.k == "array":
            return SV("array", ctx.fresh(name, AII))
        if v.k == "conc":
            lifted = lift_conc(ctx, v)
            if lifted.k != "conc":
                return self.havoc_like(lifted, name)
            return v
        raise Unsupported("cannot havoc %s of kind %s" % (name, v.k))

    # ---- syntactic heap effects of a block (for loop havoc) ----------------
    def block_heap_effects(self, st, stmts, assigned):
        """[(ref z3 term or None, heap array name)] possibly modified by stmts (over-approximation)."""
        from .calls import callee_effects

        ctx = self.ctx
        out = []

        def add(refz, field, cond=None):
            for i, (r, f, c) in enumerate(out):
                if f == field and (r is None or (refz is not None and r.eq(refz))):
                    if c is not None and (cond is None or not c.eq(cond)):
                        out[i] = (r, f, None)
                    return
            if refz is None:
                out[:] = [(r, f, c) for (r, f, c) in out if f != field]
            out.append((refz, field, cond))

        def stable_ref(expr):
            """z3 ref of expr evaluated at the loop head if it cannot change in the loop."""
            for n in ast.walk(expr):
                if isinstance(n, ast.Name) and n.id in assigned:
                    return None
                if isinstance(n, ast.Call):
                    return None
            try:
                saved = ctx.spec_mode
                ctx.spec_mode = True
                v = self.ev(st.fork(), expr)
                ctx.spec_mode = saved
            except Unsupported:
                ctx.spec_mode = saved
                return None
            return v

        def probe(expr):
            """Kind of an expression (evaluated at the loop head, ignoring stability): only the SV kind is used."""
            saved = ctx.spec_mode
            ctx.spec_mode = True
            try:
                return self.ev(st.fork(), expr)
            except Unsupported:
                return None
            finally:
                ctx.spec_mode = saved

        def store_target(tgt):
            if isinstance(tgt, (ast.Tuple, ast.List)):
                for t in tgt.elts:
                    store_target(t)
            elif isinstance(tgt, ast.Subscript) and (probe(tgt.value) is not None and probe(tgt.value).k in ("lorow", "gridrow")
                                                     or probe(tgt.value) is not None and probe(tgt.value).k == "ref"
                                                     and str(probe(tgt.value).x).startswith(("lomap", "grid"))):
                pv = probe(tgt.value)
                if pv.k in ("lorow", "gridrow"):
                    owner = stable_ref(tgt.value.value) if isinstance(tgt.value, ast.Subscript) else None
                else:
                    owner = stable_ref(tgt.value)
                rz = owner.z if (owner is not None and owner.k == "ref") else None
                if pv.k == "gridrow" or (pv.k == "ref" and str(pv.x).startswith("grid")):
                    add(rz, "g_val")
                else:
                    add(rz, "lo_row")
                    add(rz, "lo_has")
                    add(rz, "lo_val")
            elif isinstance(tgt, ast.Subscript):
                base = stable_ref(tgt.value)
                key = None
                if isinstance(tgt.slice, ast.Constant) and isinstance(tgt.slice.value, str):
                    key = tgt.slice.value
                if key is not None:
                    rz = base.z if (base is not None and base.k == "ref") else None
                    add(rz, "has_" + key)
                    for f in self.field_arrays_of(key):
                        add(rz, f)
                else:
                    rz = base.z if (base is not None and base.k == "ref") else None
                    add(rz, "elem")
            elif isinstance(tgt, ast.Attribute):
                base = stable_ref(tgt.value)
                rz = base.z if (base is not None and base.k == "ref") else None
                for f in self.field_arrays_of(tgt.attr):
                    add(rz, f)

        class V(ast.NodeVisitor):
            def visit_Assign(v, n):
                for t in n.targets:
                    store_target(t)
                v.generic_visit(n)

            def visit_AugAssign(v, n):
                store_target(n.target)
                v.generic_visit(n)

            def visit_Delete(v, n):
                for t in n.targets:
                    store_target(t)

            def visit_For(v, n):
                store_target(n.target)
                v.generic_visit(n)

            def visit_Call(v, n):
                for eff in callee_effects(self, st, n, assigned, stable_ref):
                    add(*eff)
                v.generic_visit(n)

        for s in stmts:
            V().visit(s)
        # a condition is only usable if nothing it reads can change inside the loop
        modified = set(f for (_, f, _) in out)
        final = []
        for (r, f, c) in out:
            if c is not None and (_arrays_in(c) & modified):
                c = None
            if r is not None and (_arrays_in(r) & modified):
                # the target object is read from a field the loop itself may overwrite: which object is
                # modified is not known at the loop head -> the whole field is havocked (frame via invariant)
                r, c = None, None
            final.append((r, f, c))
        # whole-field entries subsume ref-specific ones
        whole = set(f for (r, f, c) in final if r is None)
        return [(r, f, c) for (r, f, c) in final if r is None or f not in whole]

    def field_arrays_of(self, key):
        t = self.field_type(key)
        if t == "any":
            return []
        if t == "optint":
            return ["val_" + key, "none_" + key]
        return ["val_" + key]

    # ---- spec-mode evaluation -------------------------------------------
    def ev_spec(self, st, node, extra_env=None):
        """Evaluate a contract clause (no safety obligations, no side effects) to a z3 Bool."""
        ctx = self.ctx
        tmp = st.fork()
        tmp.pc = list(st.pc)
        if extra_env:
            for k, v in extra_env.items():
                tmp.env[k] = v
                tmp.defd[k] = z3.BoolVal(True)
        saved = ctx.spec_mode
        ctx.spec_mode = True
        try:
            v = self.ev(tmp, node)
        finally:
            ctx.spec_mode = saved
        return truth(ctx, tmp, v, node)


def _arrays_in(e):
    """Heap field names whose array constants occur in a z3 term."""
    out = set()
    seen = set()
    stack = [e]
    while stack:
        t = stack.pop()
        if t.get_id() in seen:
            continue
        seen.add(t.get_id())
        if z3.is_const(t) and t.decl().kind() == z3.Z3_OP_UNINTERPRETED:
            n = t.decl().name()
            for pre in ("H0_", "Hv_", "H_"):
                if n.startswith(pre):
                    out.add(n[len(pre):].split("!")[0])
        elif z3.is_app(t):
            stack.extend(t.children())
        elif z3.is_quantifier(t):
            stack.append(t.body())
    return out


class LocalFn(object):
    def __init__(self, node):
        self.node = node


class ExcInstance(object):
    def __init__(self, cls):
        self.cls = cls


def _as_load(t):
    import copy

    t2 = copy.deepcopy(t)
    for n in ast.walk(t2):
        if hasattr(n, "ctx"):
            n.ctx = ast.Load()
    return t2
