import io as _io, struct
from vc2_conformance.bitstream import Stream, Sequence, DataUnit, ParseInfo, SequenceHeader, ParseParameters
from vc2_conformance.bitstream.vc2_autofill import autofill_and_serialise_stream
from vc2_data_tables import ParseCodes
import vc2_conformance.decoder as dec
from vc2_conformance.pseudocode.state import State
def pi(code, nxt, prev):
    return b"BBCD"+bytes([code])+struct.pack(">II",nxt,prev)
def ser(stream):
    f=_io.BytesIO(); autofill_and_serialise_stream(f, stream); return f.getvalue()
sh = ser(Stream(sequences=[Sequence(data_units=[
    DataUnit(parse_info=ParseInfo(parse_code=ParseCodes.sequence_header), sequence_header=SequenceHeader(parse_parameters=ParseParameters(major_version=3, profile=3))),
    DataUnit(parse_info=ParseInfo(parse_code=ParseCodes.end_of_sequence))])]))
def run(b):
    st=State(); dec.init_io(st, _io.BytesIO(b))
    try:
        dec.parse_stream(st); print("ACCEPT")
    except dec.ConformanceError as e:
        print("ConformanceError", type(e).__name__)
    except Exception as e:
        print("OTHER", type(e).__name__, repr(e))
run(sh)
hdr_len = len(sh)-13
seq_hdr_unit = sh[:hdr_len]
frag = pi(0xEC, 0, hdr_len) + struct.pack(">IHHHH", 0, 0, 1, 0, 0)
run(seq_hdr_unit + frag)
