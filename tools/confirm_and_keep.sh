#!/bin/sh
# confirm_and_keep.sh <PID> <worktree> : confirms every seed_k of a seeding worktree (tools/confirm_seed.py), keeps the
# confirmed ones as /verif/seeded/<PID>-<n> (next free n) and removes the worktree.
PID="$1"; WT="$2"
cd /verif
for s in "$WT"/seed_*; do
  [ -f "$s/patch.diff" ] || continue
  [ -f "$s/confirm.json" ] || python3 tools/confirm_seed.py "$s" "$WT"
  if python3 -c "import json,sys;sys.exit(0 if json.load(open('$s/confirm.json'))['confirmed'] else 1)"; then
    n=1; while [ -e "seeded/$PID-$n" ]; do n=$((n+1)); done
    python3 tools/keep_seed.py "$s" "$PID-$n" "$PID"
  else
    echo "NOT CONFIRMED: $s"; cat "$s/confirm.json" | head -30
  fi
done
git -C /repo worktree remove --force "$WT"
git -C /repo worktree prune
