"""C13 - slices tile every subband; low-delay slice sizes sum exactly.

All functions of pseudocode/slice_sizes.py are transparent (their real bodies
are inlined).  `state` is built in each lemma as a dictionary literal holding
exactly the keys the functions read, with arbitrary integer values.
"""
from pyvc.api import *
from vc2_conformance.pseudocode.slice_sizes import (
    slice_bottom,
    slice_bytes,
    slice_left,
    slice_right,
    slice_top,
    slices_have_same_dimensions,
    subband_height,
    subband_width,
)

transparent(
    "vc2_conformance.pseudocode.slice_sizes.subband_width",
    "vc2_conformance.pseudocode.slice_sizes.subband_height",
    "vc2_conformance.pseudocode.slice_sizes.slice_bytes",
    "vc2_conformance.pseudocode.slice_sizes.slice_left",
    "vc2_conformance.pseudocode.slice_sizes.slice_right",
    "vc2_conformance.pseudocode.slice_sizes.slice_top",
    "vc2_conformance.pseudocode.slice_sizes.slice_bottom",
    "vc2_conformance.pseudocode.slice_sizes.slices_have_same_dimensions",
)

fields(
    luma_width="int",
    luma_height="int",
    color_diff_width="int",
    color_diff_height="int",
    dwt_depth="int",
    dwt_depth_ho="int",
    slices_x="int",
    slices_y="int",
    slice_bytes_numerator="int",
    slice_bytes_denominator="int",
)

PROPERTY = "C13"


@inline
def mkstate(lw, lh, cw, ch, d, dh, nx, ny):
    return {
        "luma_width": lw,
        "luma_height": lh,
        "color_diff_width": cw,
        "color_diff_height": ch,
        "dwt_depth": d,
        "dwt_depth_ho": dh,
        "slices_x": nx,
        "slices_y": ny,
    }


@inline
def comp(luma):
    return "Y" if luma else "C1"


# ---------------------------------------------------------------------------
# S1: slices tile each subband: adjacent, ordered intervals from 0 to the subband size.


@lemma
def S1_tiling_x(lw: int, cw: int, d: int, dh: int, nx: int, sx: int, level: int, luma: bool):
    requires(lw >= 0 and cw >= 0 and d >= 0 and dh >= 0 and nx >= 1)
    requires(0 <= level and level <= d + dh and 0 <= sx and sx < nx)
    state = {"luma_width": lw, "luma_height": 0, "color_diff_width": cw, "color_diff_height": 0,
             "dwt_depth": d, "dwt_depth_ho": dh, "slices_x": nx, "slices_y": 1}
    c = "Y" if luma else "C1"
    W = subband_width(state, level, c)
    assert W >= 0, "S1.width-nonneg"
    use("mul_mono", sx, sx + 1, W)
    use("mul_comm", W, sx)
    use("mul_comm", W, sx + 1)
    use("div_mono", W * sx, W * (sx + 1), nx)
    use("div_mul_cancel", nx, W)
    use("mul_comm", nx, W)
    assert slice_left(state, 0, c, level) == 0, "S1.first-slice-starts-at-0"
    assert slice_right(state, nx - 1, c, level) == W, "S1.last-slice-ends-at-width"
    assert slice_left(state, sx, c, level) <= slice_right(state, sx, c, level), "S1.ordered"
    assert slice_right(state, sx, c, level) == slice_left(state, sx + 1, c, level), "S1.adjacent"
    assert subband_width(state, level, "C2") == subband_width(state, level, "C1"), "S1.C2-like-C1"


@lemma
def S1_tiling_y(lh: int, ch: int, d: int, dh: int, ny: int, sy: int, level: int, luma: bool):
    requires(lh >= 0 and ch >= 0 and d >= 0 and dh >= 0 and ny >= 1)
    requires(0 <= level and level <= d + dh and 0 <= sy and sy < ny)
    state = {"luma_width": 0, "luma_height": lh, "color_diff_width": 0, "color_diff_height": ch,
             "dwt_depth": d, "dwt_depth_ho": dh, "slices_x": 1, "slices_y": ny}
    c = "Y" if luma else "C1"
    H = subband_height(state, level, c)
    assert H >= 0, "S1.height-nonneg"
    use("mul_mono", sy, sy + 1, H)
    use("mul_comm", H, sy)
    use("mul_comm", H, sy + 1)
    use("div_mono", H * sy, H * (sy + 1), ny)
    use("div_mul_cancel", ny, H)
    use("mul_comm", ny, H)
    assert slice_top(state, 0, c, level) == 0, "S1.first-slice-starts-at-0"
    assert slice_bottom(state, ny - 1, c, level) == H, "S1.last-slice-ends-at-height"
    assert slice_top(state, sy, c, level) <= slice_bottom(state, sy, c, level), "S1.ordered"
    assert slice_bottom(state, sy, c, level) == slice_top(state, sy + 1, c, level), "S1.adjacent"
    assert subband_height(state, level, "C2") == subband_height(state, level, "C1"), "S1.C2-like-C1"


# "disjoint, in order, covering every coefficient exactly once" as an existence/uniqueness statement
# derived from the chain above: every coordinate belongs to exactly one slice.


@lemma
def S1_left_monotone(W: int, nx: int, a: int, b: int):
    """(W*a)//nx is monotone in a: slices left of sx end at or before slice sx starts."""
    requires(W >= 0 and nx >= 1 and 0 <= a and a <= b)
    ensures((W * a) // nx <= (W * b) // nx)
    use("mul_mono", a, b, W)
    use("mul_comm", W, a)
    use("mul_comm", W, b)
    use("div_mono", W * a, W * b, nx)
    assert (W * a) // nx <= (W * b) // nx, "S1.monotone"


@lemma
def S1_exactly_once(lw: int, cw: int, d: int, dh: int, nx: int, level: int, luma: bool, x: int, s1: int, s2: int):
    """A coefficient column x cannot lie in two different slices (disjointness)."""
    requires(lw >= 0 and cw >= 0 and d >= 0 and dh >= 0 and nx >= 1)
    requires(0 <= level and level <= d + dh)
    requires(0 <= s1 and s1 < s2 and s2 < nx)
    state = {"luma_width": lw, "luma_height": 0, "color_diff_width": cw, "color_diff_height": 0,
             "dwt_depth": d, "dwt_depth_ho": dh, "slices_x": nx, "slices_y": 1}
    c = "Y" if luma else "C1"
    W = subband_width(state, level, c)
    assert W >= 0
    S1_left_monotone(W, nx, s1 + 1, s2)
    in1 = slice_left(state, s1, c, level) <= x and x < slice_right(state, s1, c, level)
    in2 = slice_left(state, s2, c, level) <= x and x < slice_right(state, s2, c, level)
    assert not (in1 and in2), "S1.disjoint"


# ---------------------------------------------------------------------------
# S2: subband dimensions match the padded picture for the transform.


@lemma
def S2_padding_minimal(w: int, n: int):
    """The padded size scale*ceil(w/scale) is the smallest multiple of scale that is >= w."""
    requires(w >= 0 and n >= 0)
    scale = pow2(n)
    m = (w + scale - 1) // scale
    use("div_def", w + scale - 1, scale)
    assert scale * m >= w and scale * m - w < scale, "S2.padding-minimal"


@lemma
def S2_padded_width_dc(lw: int, cw: int, d: int, dh: int, luma: bool):
    requires(lw >= 0 and cw >= 0 and d >= 0 and dh >= 0)
    state = {"luma_width": lw, "luma_height": 0, "color_diff_width": cw, "color_diff_height": 0,
             "dwt_depth": d, "dwt_depth_ho": dh, "slices_x": 1, "slices_y": 1}
    c = "Y" if luma else "C1"
    w = lw if luma else cw
    scale = pow2(dh + d)
    m = (w + scale - 1) // scale
    use("div_mul_cancel", scale, m)
    assert subband_width(state, 0, c) * scale == scale * m, "S2.dc-width"


@lemma
def S2_padded_width_level(lw: int, cw: int, d: int, dh: int, level: int, luma: bool):
    """W_level * 2**(dh+d-level+1) == padded picture width, for every level >= 1."""
    requires(lw >= 0 and cw >= 0 and d >= 0 and dh >= 0 and 1 <= level and level <= d + dh)
    state = {"luma_width": lw, "luma_height": 0, "color_diff_width": cw, "color_diff_height": 0,
             "dwt_depth": d, "dwt_depth_ho": dh, "slices_x": 1, "slices_y": 1}
    c = "Y" if luma else "C1"
    w = lw if luma else cw
    scale = pow2(dh + d)
    m = (w + scale - 1) // scale
    k = dh + d - level + 1
    j = level - 1
    P = pow2(k)
    Q = pow2(j)
    use("pow2_add", k, j)
    assert scale == P * Q
    use("mul_assoc", P, Q, m)
    assert scale * m == P * (Q * m)
    use("div_mul_div", P, Q, m)
    W = subband_width(state, level, c)
    assert W == Q * m, "S2.level-width-quotient"
    use("mul_comm", Q * m, P)
    assert W * P == scale * m, "S2.level-width"


@lemma
def S2_padded_height_ho(lh: int, ch: int, d: int, dh: int, level: int, luma: bool):
    """Horizontal-only levels (and the DC band) keep the full vertically-decimated height."""
    requires(lh >= 0 and ch >= 0 and d >= 0 and dh >= 0 and 0 <= level and level <= dh)
    state = {"luma_width": 0, "luma_height": lh, "color_diff_width": 0, "color_diff_height": ch,
             "dwt_depth": d, "dwt_depth_ho": dh, "slices_x": 1, "slices_y": 1}
    c = "Y" if luma else "C1"
    h = lh if luma else ch
    scale = pow2(d)
    m = (h + scale - 1) // scale
    use("div_mul_cancel", scale, m)
    assert subband_height(state, level, c) * scale == scale * m, "S2.ho-level-height"


@lemma
def S2_padded_height_level(lh: int, ch: int, d: int, dh: int, level: int, luma: bool):
    requires(lh >= 0 and ch >= 0 and d >= 0 and dh >= 0 and dh < level and level <= d + dh)
    state = {"luma_width": 0, "luma_height": lh, "color_diff_width": 0, "color_diff_height": ch,
             "dwt_depth": d, "dwt_depth_ho": dh, "slices_x": 1, "slices_y": 1}
    c = "Y" if luma else "C1"
    h = lh if luma else ch
    scale = pow2(d)
    m = (h + scale - 1) // scale
    k = dh + d - level + 1
    j = level - dh - 1
    P = pow2(k)
    Q = pow2(j)
    use("pow2_add", k, j)
    assert scale == P * Q
    use("mul_assoc", P, Q, m)
    assert scale * m == P * (Q * m)
    use("div_mul_div", P, Q, m)
    H = subband_height(state, level, c)
    assert H == Q * m, "S2.level-height-quotient"
    use("mul_comm", Q * m, P)
    assert H * P == scale * m, "S2.level-height"


# ---------------------------------------------------------------------------
# S3: slices_have_same_dimensions(state) is true exactly when all slices have the same dimensions.
#
# "=>": if the DC width W0 is a multiple of slices_x then at every level the width W_L = W0 * 2**j
#       is too, and (W_L*(sx+1))//nx - (W_L*sx)//nx == W_L//nx for every sx.
# "<=": if all slice widths of the DC band are equal to some c then left(sx) == c*sx (induction on
#       sx, lemma S3_equal_widths_linear) and in particular W0 == left(nx) == c*nx.


@lemma
def S3_flag_definition(lw: int, lh: int, cw: int, ch: int, d: int, dh: int, nx: int, ny: int):
    """The flag is exactly 'all four DC dimensions are multiples of the slice counts'."""
    requires(lw >= 0 and lh >= 0 and cw >= 0 and ch >= 0 and d >= 0 and dh >= 0 and nx >= 1 and ny >= 1)
    state = {"luma_width": lw, "luma_height": lh, "color_diff_width": cw, "color_diff_height": ch,
             "dwt_depth": d, "dwt_depth_ho": dh, "slices_x": nx, "slices_y": ny}
    flag = slices_have_same_dimensions(state)
    expect = (subband_width(state, 0, "Y") % nx == 0 and subband_height(state, 0, "Y") % ny == 0
              and subband_width(state, 0, "C1") % nx == 0 and subband_height(state, 0, "C1") % ny == 0)
    assert flag == expect, "S3.flag"


@lemma
def S3_level_width_is_multiple_of_dc(lw: int, cw: int, d: int, dh: int, level: int, luma: bool):
    """W_level == W_0 * 2**(level-1) for level >= 1: divisibility of the DC band carries to every level."""
    requires(lw >= 0 and cw >= 0 and d >= 0 and dh >= 0 and 1 <= level and level <= d + dh)
    ensures(subband_width(mkstate(lw, 0, cw, 0, d, dh, 1, 1), level, comp(luma))
            == subband_width(mkstate(lw, 0, cw, 0, d, dh, 1, 1), 0, comp(luma)) * pow2(level - 1))
    state = {"luma_width": lw, "luma_height": 0, "color_diff_width": cw, "color_diff_height": 0,
             "dwt_depth": d, "dwt_depth_ho": dh, "slices_x": 1, "slices_y": 1}
    c = "Y" if luma else "C1"
    w = lw if luma else cw
    scale = pow2(dh + d)
    m = (w + scale - 1) // scale
    W0 = subband_width(state, 0, c)
    W = subband_width(state, level, c)
    k = dh + d - level + 1
    j = level - 1
    use("div_mul_cancel", scale, m)
    use("pow2_add", k, j)
    use("mul_assoc", pow2(k), pow2(j), m)
    use("div_mul_div", pow2(k), pow2(j), m)
    use("mul_comm", pow2(j), m)
    assert W == W0 * pow2(j), "S3.level-multiple"


@lemma
def S3_level_height_is_multiple_of_dc(lh: int, ch: int, d: int, dh: int, level: int, luma: bool):
    requires(lh >= 0 and ch >= 0 and d >= 0 and dh >= 0 and 1 <= level and level <= d + dh)
    ensures(subband_height(mkstate(0, lh, 0, ch, d, dh, 1, 1), level, comp(luma))
            == subband_height(mkstate(0, lh, 0, ch, d, dh, 1, 1), 0, comp(luma)) * (1 if level <= dh else pow2(level - dh - 1)))
    state = {"luma_width": 0, "luma_height": lh, "color_diff_width": 0, "color_diff_height": ch,
             "dwt_depth": d, "dwt_depth_ho": dh, "slices_x": 1, "slices_y": 1}
    c = "Y" if luma else "C1"
    h = lh if luma else ch
    scale = pow2(d)
    m = (h + scale - 1) // scale
    H0 = subband_height(state, 0, c)
    H = subband_height(state, level, c)
    use("div_mul_cancel", scale, m)
    if level <= dh:
        assert H == H0, "S3.ho-level-same-height"
    else:
        k = dh + d - level + 1
        j = level - dh - 1
        use("pow2_add", k, j)
        use("mul_assoc", pow2(k), pow2(j), m)
        use("div_mul_div", pow2(k), pow2(j), m)
        use("mul_comm", pow2(j), m)
        assert H == H0 * pow2(j), "S3.level-multiple"


@lemma
def S3_divisible_implies_equal(W: int, n: int, s: int):
    """=>: if n divides W then every slice of a dimension W has size exactly W//n."""
    requires(W >= 0 and n >= 1 and W % n == 0 and 0 <= s and s < n)
    ensures((W * (s + 1)) // n - (W * s) // n == W // n)
    q = W // n
    assert W == n * q
    use("mul_assoc", n, q, s)
    use("mul_assoc", n, q, s + 1)
    use("mul_comm", n * q, s)
    use("mul_comm", n * q, s + 1)
    use("div_mul_cancel", n, q * s)
    use("div_mul_cancel", n, q * (s + 1))
    use("mul_distr", q, s, 1)
    assert (W * (s + 1)) // n - (W * s) // n == q, "S3.forward"


@lemma
def S3_divisible_scales(W0: int, p: int, n: int):
    """n | W0  ==>  n | W0*p (so the per-level subbands inherit divisibility)."""
    requires(W0 >= 0 and p >= 1 and n >= 1 and W0 % n == 0)
    ensures((W0 * p) % n == 0)
    q = W0 // n
    use("mul_assoc", n, q, p)
    use("mod_mul", n, q * p)
    assert (W0 * p) % n == 0, "S3.scales"


@specfun
def slice_size(W, n, t):
    """Size of slice t of a dimension of W coefficients cut into n slices (13.5.6.2)."""
    return (W * (t + 1)) // n - (W * t) // n


@lemma
def S3_slice_size_is_real(lw: int, d: int, dh: int, nx: int, sx: int):
    """slice_size() above is what the real slice_left/slice_right compute."""
    requires(lw >= 0 and d >= 0 and dh >= 0 and nx >= 1 and 0 <= sx and sx < nx)
    state = {"luma_width": lw, "luma_height": 0, "color_diff_width": 0, "color_diff_height": 0,
             "dwt_depth": d, "dwt_depth_ho": dh, "slices_x": nx, "slices_y": 1}
    W = subband_width(state, 0, "Y")
    unfold(slice_size, W, nx, sx)
    assert slice_right(state, sx, "Y", 0) - slice_left(state, sx, "Y", 0) == slice_size(W, nx, sx), "S3.slice-size-is-real"


@lemma
def S3_equal_widths_linear(W: int, n: int, c: int, s: int):
    """<=: if every slice has the same size c then slice s starts at c*s (induction on s)."""
    requires(W >= 0 and n >= 1 and 0 <= s and s <= n)
    requires(forall(0, n, lambda t: slice_size(W, n, t) == c, trigger=lambda t: slice_size(W, n, t)))
    ensures((W * s) // n == c * s)
    decreases(s)
    if s > 0:
        S3_equal_widths_linear(W, n, c, s - 1)
        unfold(slice_size, W, n, s - 1)
        assert (W * s) // n - (W * (s - 1)) // n == c
        use("mul_distr", c, s - 1, 1)


@lemma
def S3_equal_implies_divisible(W: int, n: int, c: int):
    """<=: if every slice has the same size c then W == c*n, i.e. n divides W."""
    requires(W >= 0 and n >= 1)
    requires(forall(0, n, lambda t: slice_size(W, n, t) == c, trigger=lambda t: slice_size(W, n, t)))
    S3_equal_widths_linear(W, n, c, n)
    use("div_mul_cancel", n, W)
    use("mul_comm", n, W)
    use("mul_comm", c, n)
    use("mod_mul", n, c)
    assert W == c * n, "S3.backward-size"
    assert W % n == 0, "S3.backward"


@lemma
def S3_forward_x(lw: int, cw: int, d: int, dh: int, nx: int, level: int, luma: bool, sx: int):
    """flag => same widths: if nx divides the DC width, every slice at every level is W_level//nx wide."""
    requires(lw >= 0 and cw >= 0 and d >= 0 and dh >= 0 and nx >= 1)
    requires(0 <= level and level <= d + dh and 0 <= sx and sx < nx)
    requires(subband_width(mkstate(lw, 0, cw, 0, d, dh, nx, 1), 0, comp(luma)) % nx == 0)
    state = mkstate(lw, 0, cw, 0, d, dh, nx, 1)
    c = comp(luma)
    W0 = subband_width(state, 0, c)
    W = subband_width(state, level, c)
    assert W0 >= 0
    if level >= 1:
        S3_level_width_is_multiple_of_dc(lw, cw, d, dh, level, luma)
        S3_divisible_scales(W0, pow2(level - 1), nx)
        use("mul_pos", W0, pow2(level - 1))
        assert W == W0 * pow2(level - 1)
    assert W >= 0
    assert W % nx == 0
    S3_divisible_implies_equal(W, nx, sx)
    assert slice_right(state, sx, c, level) - slice_left(state, sx, c, level) == W // nx, "S3.forward-x"


@lemma
def S3_forward_y(lh: int, ch: int, d: int, dh: int, ny: int, level: int, luma: bool, sy: int):
    requires(lh >= 0 and ch >= 0 and d >= 0 and dh >= 0 and ny >= 1)
    requires(0 <= level and level <= d + dh and 0 <= sy and sy < ny)
    requires(subband_height(mkstate(0, lh, 0, ch, d, dh, 1, ny), 0, comp(luma)) % ny == 0)
    state = mkstate(0, lh, 0, ch, d, dh, 1, ny)
    c = comp(luma)
    H0 = subband_height(state, 0, c)
    H = subband_height(state, level, c)
    assert H0 >= 0
    if level >= 1:
        S3_level_height_is_multiple_of_dc(lh, ch, d, dh, level, luma)
        if level > dh:
            S3_divisible_scales(H0, pow2(level - dh - 1), ny)
            use("mul_pos", H0, pow2(level - dh - 1))
            assert H == H0 * pow2(level - dh - 1)
    assert H >= 0
    assert H % ny == 0
    S3_divisible_implies_equal(H, ny, sy)
    assert slice_bottom(state, sy, c, level) - slice_top(state, sy, c, level) == H // ny, "S3.forward-y"


@lemma
def S3_slice_size_is_real_y(lh: int, d: int, dh: int, ny: int, sy: int):
    requires(lh >= 0 and d >= 0 and dh >= 0 and ny >= 1 and 0 <= sy and sy < ny)
    state = mkstate(0, lh, 0, 0, d, dh, 1, ny)
    H = subband_height(state, 0, "Y")
    unfold(slice_size, H, ny, sy)
    assert slice_bottom(state, sy, "Y", 0) - slice_top(state, sy, "Y", 0) == slice_size(H, ny, sy), "S3.slice-size-is-real-y"


# ---------------------------------------------------------------------------
# S4: low-delay slice byte counts are non-negative and sum to floor(slices*N/D).


@specfun
def sum_slice_bytes(N, D, k):
    """Sum over slice numbers < k of ((n+1)*N)//D - (n*N)//D."""
    return 0 if k <= 0 else sum_slice_bytes(N, D, k - 1) + (k * N) // D - ((k - 1) * N) // D


@lemma
def S4_slice_bytes_is_summand(N: int, D: int, nx: int, ny: int, sx: int, sy: int):
    """The real slice_bytes() is the summand for slice number sy*slices_x+sx, and it is >= 0."""
    requires(N >= 0 and D >= 1 and nx >= 1 and ny >= 1 and 0 <= sx and sx < nx and 0 <= sy and sy < ny)
    state = {"slices_x": nx, "slices_y": ny, "slice_bytes_numerator": N, "slice_bytes_denominator": D}
    k = sy * nx + sx
    b = slice_bytes(state, sx, sy)
    assert b == ((k + 1) * N) // D - (k * N) // D, "S4.summand"
    use("mul_mono", k, k + 1, N)
    use("div_mono", k * N, (k + 1) * N, D)
    assert b >= 0, "S4.non-negative"


@lemma
def S4_partial_sums(N: int, D: int, k: int):
    """Telescoping: the first k slices occupy exactly floor(k*N/D) bytes."""
    requires(N >= 0 and D >= 1 and k >= 0)
    ensures(sum_slice_bytes(N, D, k) == (k * N) // D)
    decreases(k)
    unfold(sum_slice_bytes, N, D, k)
    if k > 0:
        S4_partial_sums(N, D, k - 1)


@lemma
def S4_picture_total(N: int, D: int, nx: int, ny: int):
    requires(N >= 0 and D >= 1 and nx >= 1 and ny >= 1)
    use("mul_pos", nx, ny)
    S4_partial_sums(N, D, ny * nx)
    assert sum_slice_bytes(N, D, ny * nx) == (ny * nx * N) // D, "S4.total"


@lemma
def S4_raster_numbering_is_bijective(nx: int, ny: int, sx: int, sy: int):
    """Slice numbers sy*nx+sx enumerate 0..nx*ny-1 exactly once (so summing over (sy,sx) is summing over k)."""
    requires(nx >= 1 and ny >= 1 and 0 <= sx and sx < nx and 0 <= sy and sy < ny)
    k = sy * nx + sx
    use("mul_mono", sy, ny - 1, nx)
    use("mul_comm", sy, nx)
    use("mul_comm", ny - 1, nx)
    use("mul_distr", nx, ny, -1)
    use("mul_comm", nx, ny)
    use("mul_pos", sy, nx)
    assert 0 <= k and k < ny * nx, "S4.in-range"
    use("div_mul_cancel", nx, sy)
    assert (k - sx) // nx == sy


# ---- facts the validator's index-safety proofs use (C02) -------------------------------------------------


@lemma
def subband_dims_nonneg(lw: int, lh: int, cw: int, ch: int, d: int, dh: int, level: int, luma: bool):
    requires(lw >= 0 and lh >= 0 and cw >= 0 and ch >= 0 and d >= 0 and dh >= 0 and 0 <= level and level <= d + dh)
    ensures(subband_width(mkstate(lw, lh, cw, ch, d, dh, 1, 1), level, comp(luma)) >= 0)
    ensures(subband_height(mkstate(lw, lh, cw, ch, d, dh, 1, 1), level, comp(luma)) >= 0)
    w = lw if luma else cw
    h = lh if luma else ch
    sw = pow2(dh + d)
    sh = pow2(d)
    use("div_nonneg", w + sw - 1, sw)
    use("mul_pos", sw, (w + sw - 1) // sw)
    use("div_nonneg", h + sh - 1, sh)
    use("mul_pos", sh, (h + sh - 1) // sh)
    use("pow2_small", dh + d - level + 1)
    use("div_nonneg", sw * ((w + sw - 1) // sw), sw)
    use("div_nonneg", sw * ((w + sw - 1) // sw), pow2(dh + d - level + 1))
    use("div_nonneg", sh * ((h + sh - 1) // sh), sh)
    use("div_nonneg", sh * ((h + sh - 1) // sh), pow2(dh + d - level + 1))


@lemma
def slice_bounds_in_range(H: int, n: int, s: int):
    """0 <= (H*s)//n <= (H*(s+1))//n <= H for a slice index 0 <= s < n."""
    requires(H >= 0 and n >= 1 and 0 <= s and s < n)
    ensures(0 <= (H * s) // n and (H * s) // n <= (H * (s + 1)) // n and (H * (s + 1)) // n <= H)
    use("mul_pos", H, s)
    use("div_nonneg", H * s, n)
    use("mul_mono", s, s + 1, H)
    use("mul_comm", H, s)
    use("mul_comm", H, s + 1)
    use("div_mono", H * s, H * (s + 1), n)
    use("mul_mono", s + 1, n, H)
    use("mul_comm", H, n)
    use("div_mono", H * (s + 1), H * n, n)
    use("div_mul_cancel", n, H)
    use("mul_comm", n, H)


@specfun
def SBH(lw, lh, cw, ch, d, dh, L, luma):
    """subband_height as a function of the six integers it reads (uninterpreted in VCs unless unfolded)."""
    return subband_height(mkstate(lw, lh, cw, ch, d, dh, 1, 1), L, comp(luma))


@specfun
def SBW(lw, lh, cw, ch, d, dh, L, luma):
    return subband_width(mkstate(lw, lh, cw, ch, d, dh, 1, 1), L, comp(luma))


@lemma
def padded_dims_cover_picture(lw: int, lh: int, cw: int, ch: int, d: int, dh: int, luma: bool):
    """The padded picture size (subband dimensions one level above the top level, which is what dwt_pad_addition pads to and
    what the inverse transform returns) is at least the picture size: padding removal only ever deletes."""
    requires(lw >= 0 and lh >= 0 and cw >= 0 and ch >= 0 and d >= 0 and dh >= 0)
    ensures(SBW(lw, lh, cw, ch, d, dh, d + dh + 1, 1 if luma else 0) >= (lw if luma else cw))
    ensures(SBH(lw, lh, cw, ch, d, dh, d + dh + 1, 1 if luma else 0) >= (lh if luma else ch))
    unfold(SBW, lw, lh, cw, ch, d, dh, d + dh + 1, 1 if luma else 0)
    unfold(SBH, lw, lh, cw, ch, d, dh, d + dh + 1, 1 if luma else 0)
    w = lw if luma else cw
    h = lh if luma else ch
    use("div_def", w + pow2(dh + d) - 1, pow2(dh + d))
    use("div_def", h + pow2(d) - 1, pow2(d))
    use("pow2_small", 0)
