"""C14 - lossy encoding fills slices to the byte budget with the smallest qindex (encoder/pictures.py).

Spec functions (written from the statement / the bounded-block semantics of C20, not from the code):
  segl(v)        bits of the signed exp-Golomb code of v
  pre_bits(c,n)  bits of the first n coefficients, all coded
  cbits(c,n)     bits a bounded block needs for the first n coefficients: trailing zeros cost nothing (past the end
                 of a bounded block the reader sees 1s, i.e. zeros), everything up to the last non-zero value is coded
"""
from pyvc.api import *
from pyvc import models  # noqa: F401
from contracts import c20_lemmas  # noqa: F401  (contracts of exp_golomb_length / signed_exp_golomb_length)
from contracts.c20_writer import eg_len
from vc2_conformance.encoder.pictures import calculate_coeffs_bits

EP = "vc2_conformance.encoder.pictures."


@inline
def segl(v):
    return 1 if v == 0 else eg_len(abs(v)) + 1


@specfun
def pre_bits(c: "array", n):
    return 0 if n <= 0 else pre_bits(c, n - 1) + segl(c[n - 1])


@specfun
def cbits(c: "array", n):
    return 0 if n <= 0 else (pre_bits(c, n) if c[n - 1] != 0 else cbits(c, n - 1))


@lemma
def cbits_nonneg(c: "array", n: int):
    """Block lengths are never negative (induction over the number of coefficients)."""
    ensures(cbits(c, n) >= 0 and pre_bits(c, n) >= 0)
    decreases(n if n > 0 else 0)
    unfold(cbits, c, n)
    unfold(pre_bits, c, n)
    if n > 0:
        cbits_nonneg(c, n - 1)
        use("blen_def", abs(c[n - 1]) + 1)


@spec(EP + "calculate_coeffs_bits")
class _calculate_coeffs_bits:
    args = {"coeffs": "list:int"}
    result = "int"
    requires = []
    modifies = []
    raises = {}
    ensures = ["result == cbits(content(coeffs), length(coeffs))", "result >= 0"]
    invariants = {
        1: [
            # _k: index of the next element to visit (going down); elements above it have been visited
            "num_bits >= 0",
            "implies(skip_zeros, num_bits == 0 and cbits(content(coeffs), length(coeffs)) == cbits(content(coeffs), _k + 1))",
            "implies(not skip_zeros, cbits(content(coeffs), length(coeffs)) == num_bits + pre_bits(content(coeffs), _k + 1))",
        ],
    }
    ghost = {
        "loop1.body_start": ["unfold(cbits, content(coeffs), _k + 1)", "unfold(pre_bits, content(coeffs), _k + 1)",
                             'use("blen_def", abs(content(coeffs)[_k]) + 1)'],
        "loop1.after": ["unfold(cbits, content(coeffs), 0)", "unfold(pre_bits, content(coeffs), 0)"],
    }


# ---- quantisation of one set of coefficients, and the block lengths quantize_to_fit compares with its target ----

from vc2_conformance.pseudocode.quantization import forward_quant  # noqa: E402
from vc2_conformance.encoder.pictures import quantize_coeffs  # noqa: E402

transparent(
    "vc2_conformance.pseudocode.quantization.forward_quant",
    "vc2_conformance.pseudocode.quantization.quant_factor",
    "vc2_conformance.pseudocode.vc2_math.sign",
)

fields(coeff_values="ref:list:int", quant_matrix_values="ref:list:int")


@specfun
def fq(c, q, m):
    """Coefficient c coded with slice index q where the quantisation matrix says m: forward_quant with index max(0, q - m)
    (13.3.1: the matrix value is subtracted from the slice's index, clamped at 0).  Opaque everywhere except in the
    verification of quantize_coeffs, where it is tied to the real forward_quant."""
    return forward_quant(c, max(0, q - m))


@inline
def qarr(cv, qm, q):
    """The coefficients cv coded with slice index q."""
    return mkarray(lambda i: fq(cv[i], q, qm[i]))


@spec(EP + "quantize_coeffs")
class _quantize_coeffs:
    args = {"qindex": "int", "coeff_values": "list:int", "quant_matrix_values": "list:int"}
    result = "list:int"
    requires = []
    modifies = []
    raises = {}
    ensures = [
        "is_fresh(result)",
        "length(result) == min(length(coeff_values), length(quant_matrix_values))",
        "content(result) == qarr(content(coeff_values), content(quant_matrix_values), qindex)",
    ]
    ghost = {"entry": ["define(fq)"]}


@specfun
def qbits(cv: "array", qm: "array", ncv, nqm, q):
    """Bits a bounded block needs for the min(ncv, nqm) coefficients quantised with index q (opaque: unfolded where the code computes it)."""
    return cbits(qarr(cv, qm, q), min(ncv, nqm))


@inline
def ceil_to(x, a):
    return ((x + a - 1) // a) * a


@inline
def set_n(cc):
    return min(length(cc.coeff_values), length(cc.quant_matrix_values))


@inline
def set_bits(cc, q):
    return qbits(content(cc.coeff_values), content(cc.quant_matrix_values), length(cc.coeff_values), length(cc.quant_matrix_values), q)


@inline
def total_len(coeff_sets, q, align):
    """Sum over the 2 (LD: Y, C) or 3 (HQ: Y, C1, C2) coefficient sets of their block lengths, each rounded up to a multiple of align bits."""
    return (ceil_to(set_bits(coeff_sets[0], q), align) + ceil_to(set_bits(coeff_sets[1], q), align)
            + (ceil_to(set_bits(coeff_sets[2], q), align) if length(coeff_sets) == 3 else 0))


@inline
def quantised_as(lst, cc, q):
    """lst holds exactly the coefficients of cc quantised with index q."""
    return length(lst) == set_n(cc) and content(lst) == qarr(content(cc.coeff_values), content(cc.quant_matrix_values), q)


@spec(EP + "quantize_to_fit")
class _quantize_to_fit:
    args = {"target_size": "int", "coeff_sets": "list:obj:ComponentCoeffs", "align_bits": "int", "minimum_qindex": "int"}
    arg_cases = [{"coeff_sets": "list:obj:ComponentCoeffs#2"}, {"coeff_sets": "list:obj:ComponentCoeffs#3"}]
    result = "tuple:int,list:list:int"
    requires = ["target_size >= 0", "align_bits >= 1", "minimum_qindex >= 0", "length(coeff_sets) == 2 or length(coeff_sets) == 3"]
    modifies = []
    raises = {}
    ensures = [
        # the property: the SMALLEST index, not below the requested minimum, whose coefficients fit the budget
        "result[0] >= minimum_qindex",
        "total_len(coeff_sets, result[0], align_bits) <= target_size",
        "forall(minimum_qindex, result[0], lambda q: total_len(coeff_sets, q, align_bits) > target_size, trigger=lambda q: set_bits(coeff_sets[0], q))",
        # and what is returned is exactly the coefficients quantised with that index
        "length(result[1]) == length(coeff_sets)",
        "quantised_as(result[1][0], coeff_sets[0], result[0])",
        "quantised_as(result[1][1], coeff_sets[1], result[0])",
        "implies(length(coeff_sets) == 3, quantised_as(result[1][2], coeff_sets[2], result[0]))",
    ]
    invariants = {
        1: ["forall(minimum_qindex, _k, lambda q: total_len(coeff_sets, q, align_bits) > target_size, trigger=lambda q: set_bits(coeff_sets[0], q))"],
    }
    ghost = {
        "loop1.body_start": [
            "unfold(qbits, content(coeff_sets[0].coeff_values), content(coeff_sets[0].quant_matrix_values), length(coeff_sets[0].coeff_values), length(coeff_sets[0].quant_matrix_values), _k)",
            "unfold(qbits, content(coeff_sets[1].coeff_values), content(coeff_sets[1].quant_matrix_values), length(coeff_sets[1].coeff_values), length(coeff_sets[1].quant_matrix_values), _k)",
            "unfold(qbits, content(coeff_sets[2].coeff_values), content(coeff_sets[2].quant_matrix_values), length(coeff_sets[2].coeff_values), length(coeff_sets[2].quant_matrix_values), _k)",
        ],
    }


@inline
def ceil_units(x, a):
    """Smallest number of a-bit units that hold x bits."""
    return (x + a - 1) // a


@spec(EP + "calculate_hq_length_field")
class _calculate_hq_length_field:
    args = {"coeffs": "list:int", "slice_size_scaler": "int"}
    result = "int"
    requires = ["slice_size_scaler >= 1"]
    modifies = []
    raises = {}
    ensures = ["result == ceil_units(cbits(content(coeffs), length(coeffs)), 8 * slice_size_scaler)"]


fields(slice_y_length="int", slice_c1_length="int", slice_c2_length="int", qindex="int",
       y_transform="ref:list:int", c1_transform="ref:list:int", c2_transform="ref:list:int", c_transform="ref:list:int")


@inline
def lbits(lst):
    return cbits(content(lst), length(lst))


@spec(EP + "make_hq_slice")
class _make_hq_slice:
    args = {"y_transform": "list:int", "c1_transform": "list:int", "c2_transform": "list:int", "total_length": "optint", "qindex": "int",
            "slice_size_scaler": "int"}
    result = "dict:HQSlice"
    requires = [
        "slice_size_scaler >= 1",
        # when the slice has a fixed size, the caller has made the three blocks fit it and the size fits an 8-bit field
        "implies(total_length is not None, ceil_units(lbits(y_transform), 8 * slice_size_scaler) + ceil_units(lbits(c1_transform), 8 * slice_size_scaler)"
        " + ceil_units(lbits(c2_transform), 8 * slice_size_scaler) <= total_length and total_length <= 255)",
    ]
    modifies = []
    raises = {}
    ensures = [
        "is_fresh(result)",
        "has(result, 'qindex') and has(result, 'slice_y_length') and has(result, 'slice_c1_length') and has(result, 'slice_c2_length')",
        "has(result, 'y_transform') and has(result, 'c1_transform') and has(result, 'c2_transform')",
        "result['qindex'] == qindex",
        "result['y_transform'] == y_transform and result['c1_transform'] == c1_transform and result['c2_transform'] == c2_transform",
        # every component's block fits the space its length field announces (lengths count slice_size_scaler-byte units)
        "result['slice_y_length'] * 8 * slice_size_scaler >= lbits(y_transform)",
        "result['slice_c1_length'] * 8 * slice_size_scaler >= lbits(c1_transform)",
        "result['slice_c2_length'] * 8 * slice_size_scaler >= lbits(c2_transform)",
        "result['slice_y_length'] >= 0 and result['slice_c1_length'] >= 0 and result['slice_c2_length'] >= 0",
        # fixed-size slice: the three fields add up to exactly the slice's size and each fits its 8-bit field
        "implies(total_length is not None, result['slice_y_length'] + result['slice_c1_length'] + result['slice_c2_length'] == total_length)",
        "implies(total_length is not None, result['slice_y_length'] <= 255 and result['slice_c1_length'] <= 255 and result['slice_c2_length'] <= 255)",
        # free-size slice: the smallest fields that hold the blocks
        "implies(total_length is None, result['slice_y_length'] == ceil_units(lbits(y_transform), 8 * slice_size_scaler)"
        " and result['slice_c1_length'] == ceil_units(lbits(c1_transform), 8 * slice_size_scaler)"
        " and result['slice_c2_length'] == ceil_units(lbits(c2_transform), 8 * slice_size_scaler))",
    ]
    ghost = {
        "entry": [
            "cbits_nonneg(content(y_transform), length(y_transform))",
            "cbits_nonneg(content(c1_transform), length(c1_transform))",
            "cbits_nonneg(content(c2_transform), length(c2_transform))",
            'use("ceil_units_bounds", lbits(y_transform), 8 * slice_size_scaler)',
            'use("ceil_units_bounds", lbits(c1_transform), 8 * slice_size_scaler)',
            'use("ceil_units_bounds", lbits(c2_transform), 8 * slice_size_scaler)',
        ],
    }


@spec(EP + "make_ld_slice")
class _make_ld_slice:
    args = {"y_transform": "list:int", "c_transform": "list:int", "qindex": "int"}
    result = "dict:LDSlice"
    requires = []
    modifies = []
    raises = {}
    ensures = [
        "is_fresh(result)",
        "has(result, 'qindex') and has(result, 'slice_y_length') and has(result, 'y_transform') and has(result, 'c_transform')",
        "result['qindex'] == qindex and result['y_transform'] == y_transform and result['c_transform'] == c_transform",
        # the luma block gets exactly the bits it needs; the colour-difference block gets the rest of the slice
        "result['slice_y_length'] == lbits(y_transform)",
    ]


@spec(EP + "get_safe_lossy_hq_slice_size_scaler")
class _get_safe_scaler:
    args = {"picture_bytes": "int", "num_slices": "int"}
    result = "int"
    requires = ["num_slices >= 1"]
    modifies = []
    raises = {}
    ensures = [
        "result >= 1",
        # large enough: the biggest slice's payload, in units of `result` bytes, fits an 8-bit length field ...
        "255 * result >= ceil_units(picture_bytes, num_slices) - 4",
        # ... and the smallest such scaler
        "result == 1 or 255 * (result - 1) < ceil_units(picture_bytes, num_slices) - 4",
    ]


# ---- native generators for the bounded stand-in (used when an obligation is undecided, and by bounded/c14_*.py) ----


def _gen_coeffs(rng, n=None):
    n = rng.randint(0, 6) if n is None else n
    return [rng.choice([0, 0, rng.randint(-3, 3), rng.randint(-40, 40), rng.randint(-5000, 5000)]) for _ in range(n)]


def _gen_component(rng):
    from vc2_conformance.encoder.pictures import ComponentCoeffs

    n = rng.randint(0, 5)
    return ComponentCoeffs(coeff_values=_gen_coeffs(rng, n), quant_matrix_values=[rng.randint(0, 6) for _ in range(n)])


GENERATORS = {
    "list:int": _gen_coeffs,
    "list:obj:ComponentCoeffs": lambda rng: [_gen_component(rng) for _ in range(rng.choice([2, 3]))],
    "param:minimum_qindex": lambda rng: rng.choice([0, 0, rng.randint(0, 12), rng.randint(0, 60)]),
    "param:target_size": lambda rng: rng.choice([rng.randint(0, 24), rng.randint(0, 200)]),
    "param:align_bits": lambda rng: rng.choice([1, 1, 8, 8, 16, rng.randint(1, 24)]),
    "param:slice_size_scaler": lambda rng: rng.choice([1, 1, 2, 3, rng.randint(1, 9)]),
}
