"""Generic bounded stand-in: the sidecar contracts of a property, checked natively (run-time contract checking of the real
functions on seeded generated inputs).  Covers (a) `bounded_ensures` clauses and `bounded_only` contracts, which the verifier
does not attempt, and (b) the proved contracts as well - redundant where the proof succeeds, but it turns an obligation that a
code change makes *undecided* (solver unknown: no counter-model to replay) into a concrete failing input.  Never counted as proved."""
import importlib
import time


def make_hook(modules, seconds_quick=4.0, seconds_thorough=40.0, only=None):
    def hook(rep, tier, seed):
        from pyvc import api, frontend
        from pyvc.nativefn import bounded_contract

        frontend.ensure_repo_on_path()
        mods = [importlib.import_module("contracts." + m) for m in modules]
        names = set(m.__name__ for m in mods)
        budget = seconds_quick if tier == "quick" else seconds_thorough
        todo = [fq for fq, c in sorted(api.REG.contracts.items()) if c.sidecar in names and not c.trusted and not (only and c.short not in only)]
        from concurrent.futures import ThreadPoolExecutor

        with ThreadPoolExecutor(min(8, max(1, len(todo)))) as pool:  # each job runs in its own guarded child process
            outs = list(pool.map(_one, [(fq, seed, budget) for fq in todo]))
        for fq, r in zip(todo, outs):
            c = api.REG.contracts[fq]
            label = "native contract check of %s%s" % (fq, " (bounded_only: %s)" % c.bounded_only if getattr(c, "bounded_only", None) else "")
            if not r.get("ran"):
                rep.extra_assumptions.append("NOT bounded-checked: %s (%s)" % (fq, r.get("reason")))
                continue
            rep.add_bounded(label, "seeded generated inputs (generators in contracts/%s.py), %.0f s budget; clauses: requires/ensures/raises%s"
                            % (c.sidecar.split(".")[-1], budget, " + bounded_ensures" if getattr(c, "bounded_ensures", None) else ""),
                            r.get("evaluations", 0), False)
            d = r.get("fail")
            if d is not None:
                rep.violation("native-" + c.short, {"what": "the real function violates its contract on a generated input", "function": fq,
                                                    "inputs": _jsonable(d.get("inputs")), "observed": str(d.get("detail"))[:2000], "clause": d.get("what")})
    return hook


def _one(job):
    fq, seed, budget = job
    from pyvc import api
    from pyvc.nativefn import bounded_contract

    from pyvc import native

    def run():
        return bounded_contract(api.REG.contracts[fq], seed, seconds=budget, budget=200000)

    r = native.guarded(run, (), budget)  # child process: wall-clock limit and address-space cap
    f = r.get("fail")
    if f is not None:
        r = dict(r, fail=_jsonable(f.as_dict() if hasattr(f, "as_dict") else f))
    return r


def _jsonable(x):
    import json

    try:
        json.dumps(x)
        return x
    except TypeError:
        if isinstance(x, dict):
            return {str(k): _jsonable(v) for k, v in x.items()}
        return repr(x)[:4000]
