"""Discharging obligations: z3 5.1 first, cvc5 on unknown; ground refinement of spec functions on sat."""
import concurrent.futures as cf
import os
import subprocess
import tempfile
import time

import z3

from .symexec import SPEC_NATIVE, is_nonlinear

Z3_TIMEOUT_MS = int(os.environ.get("PYVC_Z3_TIMEOUT_MS", "20000"))
CVC5_TIMEOUT_S = int(os.environ.get("PYVC_CVC5_TIMEOUT_S", "60"))


def _spec_apps(exprs):
    seen = {}
    stack = list(exprs)
    visited = set()
    while stack:
        e = stack.pop()
        if e.get_id() in visited:
            continue
        visited.add(e.get_id())
        if z3.is_quantifier(e):
            stack.append(e.body())
            continue
        if z3.is_app(e):
            if e.decl().name() in SPEC_NATIVE and e.decl().kind() == z3.Z3_OP_UNINTERPRETED:
                seen[e.get_id()] = e
            stack.extend(e.children())
    return list(seen.values())


def _has_quant(exprs):
    stack = list(exprs)
    visited = set()
    while stack:
        e = stack.pop()
        if e.get_id() in visited:
            continue
        visited.add(e.get_id())
        if z3.is_quantifier(e):
            return True
        if z3.is_app(e):
            stack.extend(e.children())
    return False


def check_smt2(smt2, want=(), timeout_ms=None, use_cvc5=True):
    """Returns dict(status=unsat|sat|unknown, solver, seconds, model={name: str}, rounds, reason)."""
    t0 = time.time()
    timeout_ms = timeout_ms or Z3_TIMEOUT_MS
    ctx = z3.Context()
    asserts = z3.parse_smt2_string(smt2, ctx=ctx)
    asserts = list(asserts)
    hasq = _has_quant(asserts)
    apps = _spec_apps(asserts)
    # portfolio: short default attempt first, then other seeds / arithmetic settings with growing budgets
    # (quantifier instantiation and nonlinear arithmetic are seed-sensitive; a slow query is retried, never guessed)
    budget = timeout_ms
    attempts = [({}, min(5000, budget)), ({"smt.random_seed": 7}, min(10000, budget)), ({"smt.arith.nl": False}, min(8000, budget)),
                ({"smt.random_seed": 23}, budget), ({"smt.random_seed": 101}, 2 * budget)]
    rounds = 0
    used = ""
    for (cfg, tmo) in attempts:
        s = z3.Solver(ctx=ctx)
        s.set("timeout", int(tmo))
        if hasq:
            s.set("smt.mbqi", False)
        for k, v in cfg.items():
            s.set(k, v)
        s.add(*asserts)
        r = s.check()
        while r == z3.sat and rounds < 8:
            # ground refinement: make the model's spec functions agree with their native definitions
            m = s.model()
            added = 0
            for a in apps:
                try:
                    argv = [m.eval(c, model_completion=True) for c in a.children()]
                    if not all(z3.is_int_value(v) for v in argv):
                        continue
                    args = [v.as_long() for v in argv]
                    name = a.decl().name()
                    if name == "pow2" and not (0 <= args[0] <= 4096):
                        continue
                    if name == "bitof" and not (args[0] >= 0 and 0 <= args[1] <= 4096):
                        continue
                    want_v = SPEC_NATIVE[name](*args)
                    got = m.eval(a, model_completion=True)
                    if z3.is_int_value(got) and got.as_long() != want_v:
                        ground = a.decl()(*[z3.IntVal(x, ctx=ctx) for x in args]) == z3.IntVal(want_v, ctx=ctx)
                        s.add(ground)
                        asserts.append(ground)
                        added += 1
                except Exception:
                    continue
            if not added:
                break
            rounds += 1
            r = s.check()
        used = ",".join("%s=%s" % kv for kv in cfg.items())
        if r != z3.unknown:
            break
    out = {"status": str(r), "solver": "z3-" + z3.get_version_string() + ((" (" + used + ")") if used else ""), "rounds": rounds, "model": {}, "reason": ""}
    if r == z3.sat:
        m = s.model()
        vals = {}
        for d in m.decls():
            if d.arity() == 0:
                try:
                    vals[d.name()] = str(m[d])
                except Exception:
                    pass
        out["model"] = {k: v for k, v in vals.items() if (not want or k in want)}
        out["model_text"] = str(m)[:4000]
    elif r == z3.unknown:
        out["reason"] = s.reason_unknown()
        if use_cvc5:
            c = check_cvc5(smt2)
            if c["status"] == "unsat":
                out.update(c)
            else:
                out["reason"] += "; cvc5: " + c["status"] + " " + c.get("reason", "")
    out["seconds"] = time.time() - t0
    return out


def check_cvc5(smt2, timeout_s=None):
    timeout_s = timeout_s or CVC5_TIMEOUT_S
    t0 = time.time()
    text = "(set-logic ALL)\n" + smt2
    if "(check-sat)" not in text:
        text += "\n(check-sat)\n"
    with tempfile.NamedTemporaryFile("w", suffix=".smt2", delete=False) as f:
        f.write(text)
        path = f.name
    try:
        p = subprocess.run(
            ["/usr/bin/cvc5", "--tlimit=%d" % (timeout_s * 1000), path],
            capture_output=True,
            text=True,
            timeout=timeout_s + 10,
        )
        ans = p.stdout.strip().split("\n")[0] if p.stdout.strip() else "unknown"
        if ans not in ("sat", "unsat", "unknown"):
            return {"status": "unknown", "solver": "cvc5-1.0.3", "reason": (p.stdout + p.stderr)[:300], "seconds": time.time() - t0}
        return {"status": ans, "solver": "cvc5-1.0.3", "seconds": time.time() - t0, "reason": ""}
    except subprocess.TimeoutExpired:
        return {"status": "unknown", "solver": "cvc5-1.0.3", "reason": "timeout", "seconds": time.time() - t0}
    finally:
        os.unlink(path)


RACE_SEEDS = (3, 11, 42, 1234)
RACE_TIMEOUT_MS = int(os.environ.get("PYVC_RACE_TIMEOUT_MS", "45000"))


def race_job(args):
    """One extra attempt at an obligation the sequential portfolio left undecided: a fresh solver with another
    random seed and a longer budget.  Only 'unsat' is ever taken from it (an undecided obligation stays undecided)."""
    oid, path, seed = args
    t0 = time.time()
    try:
        with open(path) as f:
            smt2 = f.read()
        ctx = z3.Context()
        asserts = list(z3.parse_smt2_string(smt2, ctx=ctx))
        s = z3.Solver(ctx=ctx)
        s.set("timeout", RACE_TIMEOUT_MS)
        if _has_quant(asserts):
            s.set("smt.mbqi", False)
        s.set("smt.random_seed", seed)
        s.add(*asserts)
        r = str(s.check())
    except Exception as e:  # solver crash is 'unknown', never a verdict
        r = "unknown"
    return {"id": oid, "status": r, "solver": "z3-%s (race, smt.random_seed=%d)" % (z3.get_version_string(), seed), "seconds": time.time() - t0,
            "model": {}, "rounds": 0, "reason": ""}


def _job(args):
    oid, smt2, want, timeout_ms = args
    try:
        if isinstance(smt2, tuple):
            # (linear-only variant, full text): the cheaper query first; fewer hypotheses is always sound for 'unsat'
            lin, full = smt2
            r = None
            if lin is not None:
                r0 = check_smt2(lin, want, 4000, use_cvc5=False)
                if r0["status"] == "unsat":
                    r0["solver"] += " (nonlinear hypotheses dropped)"
                    r = r0
            if r is None:
                r = check_smt2(full, want, timeout_ms)
        else:
            r = check_smt2(smt2, want, timeout_ms)
    except Exception as e:  # solver crash is 'unknown', never a verdict
        r = {"status": "unknown", "solver": "z3", "seconds": 0.0, "model": {}, "reason": "solver error: %r" % (e,), "rounds": 0}
    r["id"] = oid
    return r


def discharge(obls, jobs=None, timeout_ms=None):
    """obls: list of symexec.Obl.  Returns {id: result dict}."""
    jobs = jobs or int(os.environ.get("PYVC_JOBS", str(os.cpu_count() or 4)))
    work = []
    results = {}
    for o in obls:
        g = z3.simplify(o.goal)
        if z3.is_true(g):
            results[o.id] = {"id": o.id, "status": "unsat", "solver": "simplify", "seconds": 0.0, "model": {}, "rounds": 0, "reason": ""}
            continue
        full = o.to_smt2()
        lin = None
        if any(is_nonlinear(h) for h in o.hyps) and not is_nonlinear(o.goal):
            lin = o.to_smt2(linear_only=True)
        work.append((o.id, (lin, full), (), timeout_ms))
    if work:
        if jobs <= 1 or len(work) == 1:
            for w in work:
                results[w[0]] = _job(w)
        else:
            with cf.ProcessPoolExecutor(max_workers=min(jobs, len(work))) as ex:
                for r in ex.map(_job, work, chunksize=1):
                    results[r["id"]] = r
    return results
