"""C07 - automatic field filling preserves explicit values and computes derived ones.  BOUNDED stand-in.

The code under check (vc2_conformance/bitstream/vc2_autofill.py, version_constraints.py, the default tables of
vc2_fixeddicts.py) works on nested dictionaries, sentinels and a serialiser driven by generators; it is outside
the verified subset.  The same contract that a deductive proof would use is checked here natively: every stream
description of a stated finite domain is given to the REAL functions and the result is compared with an oracle
written from the property statement and from SMPTE ST 2042-1 (11.2.2 version rules, 10.5.1 parse offsets,
12.2 / 14.2 picture numbers).  Nothing here is ever reported as proved.

A stream description is held as a JSON-able *spec*: {"sequences": [[unit, ...], ...]}, unit = {"f": {dotted path:
value}} where a value is an int/bool, "AUTO" (the AUTO sentinel), "EMPTY" (create the container only),
["bytes", n, k] (n bytes (7*i+k) & 255) or ["list", v, ...].  A path that is absent is an omitted field.

clause -> oracle -> domain
 T  tables (ground facts): vc2_default_values_with_auto == vc2_default_values except exactly the five documented
    AUTO fields; the six preset / wavelet / parse-code / profile version rules agree, over the whole live enums,
    with thresholds pinned here from ST 2042-1:2017 (11.2.2).
 P  autofill_picture_number (called directly): omitted/AUTO numbers count up from the previous picture of the
    same sequence (0 at a sequence start, modulo 2^32), are repeated on the non-first fragments of a picture,
    explicit numbers and all other explicit entries are untouched (anything the function adds besides must be
    the documented default of that field).  EXHAUSTIVE: all sequences up to length L over a
    13-symbol alphabet of data units (pictures / first fragments / later fragments x omitted, AUTO, explicit 5,
    explicit 2^32-1, missing containers, omitted fragment_slice_count; padding; sequence header) that are
    well formed (a later fragment only inside a fragmented picture), and all two-sequence streams of such
    sequences up to length 2.  L = 4 quick, 5 thorough.
 V  autofill_major_version (called directly): every omitted/AUTO major_version of a sequence equals the minimum
    version its OWN sequence requires (oracle: 3 for fragments, v3-only presets that are actually selected,
    asymmetric transforms; else 2 for the high-quality profile; else 1), explicit versions untouched, extended
    transform parameters dropped exactly where documented (AUTO header in force and version < 3), nothing else
    changed (an added entry must hold its documented default).  EXHAUSTIVE over (profile x omitted/AUTO x 172 preset atoms x 5 picture atoms) and (profile x
    omitted/AUTO x picture kind x 3 wavelet x 27 extended-transform atoms x 3 preset atoms), all ordered pairs
    and triples of 14 representative sequences (multi-sequence streams), mixed explicit/AUTO headers in one
    sequence, plus seeded random multi-feature headers.
 S  autofill_and_serialise_stream end to end, observed on the DESERIALISED output: (S1) every explicit value
    appears unchanged, (S2) every omitted field holds its documented default (vc2_default_values; zero fill for
    alignment bits / payload bytes / list tails), (S3) omitted/AUTO next/previous parse offsets equal the true
    byte distances between the parse-info headers (found in the output bytes), 0 for the last / first unit of a
    sequence, 13 + payload length for auxiliary/padding units, (S4) picture numbers as in P, (S5) major_version
    as in V.  SEEDED RANDOM streams (0..3 sequences; random unit lists; each field independently omitted / AUTO /
    explicit; fragments, repeated headers, payloads of 0..70000 bytes, every preset index, asymmetric transforms,
    explicit slices) - N_free streams, and an EXHAUSTIVE family of padding/auxiliary layouts.
 X  cross-check with the validator (vc2_conformance.decoder): seeded random VALID streams whose offsets,
    picture numbers and versions are all left to autofill must be accepted; a rejection by one of the
    parse-offset / picture-number / version rules is a violation (any other rejection is a checker error: the
    generator promised a valid stream).  N_valid streams; the S oracles are applied to them as well.

Bounds: quick N_free=4000 N_valid=1600 L=4; thorough N_free=60000 N_valid=24000 L=5.  At most 8 worker processes.
An exception from the code under check on a description of these domains is a violation (the statement covers
every description that can be serialised, and the generators only build such descriptions)."""
import io
import itertools
import random
import types

AUTO_S = "AUTO"
EMPTY = "EMPTY"
MISSING = object()
M32 = 1 << 32

PC = "parse_info.parse_code"
NPO = "parse_info.next_parse_offset"
PPO = "parse_info.previous_parse_offset"
SEQ_HDR, EOS, AUX, PAD, LD_PIC, HQ_PIC, LD_FRAG, HQ_FRAG = 0x00, 0x10, 0x20, 0x30, 0xC8, 0xE8, 0xCC, 0xEC
PICTURES = (LD_PIC, HQ_PIC)
FRAGMENTS = (LD_FRAG, HQ_FRAG)
PH_PN = "picture_parse.picture_header.picture_number"
FH = "fragment_parse.fragment_header."
FH_PN = FH + "picture_number"
FH_FSC = FH + "fragment_slice_count"
PP = "sequence_header.parse_parameters."
MV = PP + "major_version"
VP = "sequence_header.video_parameters."
PIC_TP = "picture_parse.wavelet_transform.transform_parameters."
FRAG_TP = "fragment_parse.transform_parameters."
ETP = "extended_transform_parameters."

# ST 2042-1:2017 (11.2.2): first preset index that exists only from major_version 3 on (written from the standard's
# tables: frame rates 12.. , signal ranges 5.. , colour specs 5.. , primaries / matrices / transfer functions 4..)
FIRST_V3_INDEX = {"frame_rate": 12, "signal_range": 5, "color_spec": 5, "color_primaries": 4, "color_matrix": 4, "transfer_function": 4}
PRESET_CLASS = {"frame_rate": ("FrameRate", "custom_frame_rate_flag"), "signal_range": ("SignalRange", "custom_signal_range_flag"),
                "color_spec": ("ColorSpec", "custom_color_spec_flag"), "color_primaries": ("ColorPrimaries", "custom_color_primaries_flag"),
                "color_matrix": ("ColorMatrix", "custom_color_matrix_flag"), "transfer_function": ("TransferFunction", "custom_transfer_function_flag")}
# the five fields documented as supporting AUTO (vc2_autofill module documentation)
AUTO_FIELDS = {("ParseInfo", "next_parse_offset"), ("ParseInfo", "previous_parse_offset"), ("ParseParameters", "major_version"),
               ("PictureHeader", "picture_number"), ("FragmentHeader", "picture_number")}
LIST_CONTAINERS = ("hq_slices", "ld_slices")

_T = None


def _load():
    """Import the code under check (honours VERIF_REPO) once per process tree."""
    global _T
    if _T is not None:
        return _T
    from pyvc import frontend

    frontend.ensure_repo_on_path()
    import vc2_conformance.bitstream.vc2_fixeddicts as fd
    import vc2_conformance.bitstream.vc2_autofill as af
    from vc2_conformance.bitstream import vc2
    from vc2_conformance.bitstream.io import BitstreamReader
    from vc2_conformance.bitstream.serdes import Deserialiser
    from vc2_conformance.pseudocode.state import State
    from vc2_conformance import decoder
    from vc2_conformance.decoder import exceptions as dexc
    from bitarray import bitarray

    T = types.SimpleNamespace(fd=fd, af=af, vc2=vc2, BitstreamReader=BitstreamReader, Deserialiser=Deserialiser, State=State,
                              decoder=decoder, dexc=dexc, bitarray=bitarray, AUTO=af.AUTO, defaults=fd.vc2_default_values)
    names = {"parse_info": "ParseInfo", "sequence_header": "SequenceHeader", "parse_parameters": "ParseParameters",
             "video_parameters": "SourceParameters", "frame_size": "FrameSize", "color_diff_sampling_format": "ColorDiffSamplingFormat",
             "scan_format": "ScanFormat", "frame_rate": "FrameRate", "pixel_aspect_ratio": "PixelAspectRatio", "clean_area": "CleanArea",
             "signal_range": "SignalRange", "color_spec": "ColorSpec", "color_primaries": "ColorPrimaries", "color_matrix": "ColorMatrix",
             "transfer_function": "TransferFunction", "auxiliary_data": "AuxiliaryData", "padding": "Padding", "picture_parse": "PictureParse",
             "picture_header": "PictureHeader", "wavelet_transform": "WaveletTransform", "transform_parameters": "TransformParameters",
             "extended_transform_parameters": "ExtendedTransformParameters", "slice_parameters": "SliceParameters", "quant_matrix": "QuantMatrix",
             "transform_data": "TransformData", "hq_slices": "HQSlice", "ld_slices": "LDSlice", "fragment_parse": "FragmentParse",
             "fragment_header": "FragmentHeader", "fragment_data": "FragmentData"}
    T.CONTAINERS = {k: getattr(fd, v) for k, v in names.items()}
    # validator exceptions that belong to the rules named in the statement (offsets, picture numbers, versions)
    rel = []
    for n, c in vars(dexc).items():
        if isinstance(c, type) and issubclass(c, dexc.ConformanceError) and n != "MinorVersionNotZero" and (
                "ParseOffset" in n or "PictureNumber" in n or "Version" in n):
            rel.append(c)
    T.RELATED = tuple(rel)
    _T = T
    return T


def D(cls, key):
    """The documented default of an omitted field: the live vc2_default_values table (NOT the AUTO variant)."""
    T = _load()
    return T.defaults[getattr(T.fd, cls)][key]


# ------------------------------------------------------------------------------------------------ spec -> description
def payload(n, k):
    return bytes(((7 * i + k) & 0xFF) for i in range(n)) if n < 4096 else (bytes(((7 * i + k) & 0xFF) for i in range(256)) * (n // 256 + 1))[:n]


def decode(v):
    T = _load()
    if isinstance(v, str) and v == AUTO_S:
        return T.AUTO
    if isinstance(v, list):
        if v[0] == "bytes":
            return payload(v[1], v[2])
        if v[0] == "list":
            return list(v[1:])
        raise AssertionError(v)
    return v


def build_unit(unit):
    T = _load()
    du = T.fd.DataUnit()
    for path, val in unit["f"].items():
        parts = path.split(".")
        containers, leaf = (parts, None) if (isinstance(val, str) and val == EMPTY) else (parts[:-1], parts[-1])
        cur = du
        j = 0
        while j < len(containers):
            key = containers[j]
            cls = T.CONTAINERS[key]
            if j + 1 < len(containers) and containers[j + 1].isdigit():
                lst = cur.setdefault(key, [])
                idx = int(containers[j + 1])
                while len(lst) <= idx:
                    lst.append(cls())
                cur = lst[idx]
                j += 2
            else:
                if key not in cur:
                    cur[key] = [] if key in LIST_CONTAINERS else cls()
                cur = cur[key]
                j += 1
        if leaf is not None:
            cur[leaf] = decode(val)
    return du


def build_stream(spec):
    T = _load()
    return T.fd.Stream(sequences=[T.fd.Sequence(data_units=[build_unit(u) for u in seq]) for seq in spec["sequences"]])


def flatten(d, prefix, out):
    """Leaves of a (deserialised or autofilled) description: path -> (value, containing dict).  Computed entries
    ('_'-prefixed) are not part of the description."""
    for k, v in d.items():
        if k.startswith("_"):
            continue
        p = prefix + k
        if isinstance(v, dict):
            flatten(v, p + ".", out)
        elif isinstance(v, list) and k in LIST_CONTAINERS:
            for i, x in enumerate(v):
                flatten(x, "%s.%d." % (p, i), out)
        else:
            out[p] = (v, d)
    return out


def explicit_leaves(unit):
    return {p: v for p, v in unit["f"].items() if not (isinstance(v, str) and v in (AUTO_S, EMPTY))}


# ------------------------------------------------------------------------------------------------ oracles (from the statement)
def get(unit, path, default):
    v = unit["f"].get(path, MISSING)
    return default if v is MISSING else v


def code_of(unit):
    return get(unit, PC, D("ParseInfo", "parse_code"))


def is_first_fragment(unit):
    return code_of(unit) in FRAGMENTS and get(unit, FH_FSC, D("FragmentHeader", "fragment_slice_count")) == 0


def tp_prefix(unit):
    """Where the unit carries transform parameters in the stream (None: it carries none)."""
    c = code_of(unit)
    if c in PICTURES:
        return PIC_TP
    if is_first_fragment(unit):
        return FRAG_TP
    return None


def preset_selected(unit, prefix, kind):
    """Index of the preset of the given kind that the header actually selects, or None."""
    cls, flag = PRESET_CLASS[kind]
    if get(unit, prefix + flag, D(cls, flag)):
        return get(unit, prefix + "index", D(cls, "index"))
    return None


def unit_version_need(unit):
    """(11.2.2) the lowest major_version under which this data unit is allowed."""
    c = code_of(unit)
    need = 1
    if c in FRAGMENTS:
        need = 3
    if c == SEQ_HDR:
        if get(unit, PP + "profile", D("ParseParameters", "profile")) == 3:  # high quality profile
            need = max(need, 2)
        for kind in ("frame_rate", "signal_range", "color_spec"):
            idx = preset_selected(unit, VP + kind + ".", kind)
            if idx is not None and idx >= FIRST_V3_INDEX[kind]:
                need = 3
        if preset_selected(unit, VP + "color_spec.", "color_spec") == 0:  # custom colour spec: the three parts are in the stream
            for kind in ("color_primaries", "color_matrix", "transfer_function"):
                idx = preset_selected(unit, VP + "color_spec." + kind + ".", kind)
                if idx is not None and idx >= FIRST_V3_INDEX[kind]:
                    need = 3
    tp = tp_prefix(unit)
    if tp is not None:
        wi = get(unit, tp + "wavelet_index", D("TransformParameters", "wavelet_index"))
        e = tp + ETP
        if get(unit, e + "asym_transform_index_flag", D("ExtendedTransformParameters", "asym_transform_index_flag")):
            if get(unit, e + "wavelet_index_ho", D("ExtendedTransformParameters", "wavelet_index_ho")) != wi:
                need = 3
        if get(unit, e + "asym_transform_flag", D("ExtendedTransformParameters", "asym_transform_flag")):
            if get(unit, e + "dwt_depth_ho", D("ExtendedTransformParameters", "dwt_depth_ho")) != 0:
                need = 3
    return need


def seq_version(seq):
    return max([1] + [unit_version_need(u) for u in seq])


def version_context(seq):
    """Per unit: (major_version in force, True if that version was automatic) - None before the first header."""
    req = seq_version(seq)
    ctx = None
    out = []
    for u in seq:
        if code_of(u) == SEQ_HDR:
            mv = get(u, MV, AUTO_S)
            ctx = (req, True) if mv == AUTO_S else (mv, False)
        out.append(ctx)
    return out


def expected_picture_numbers(seq):
    """Per unit: None (no picture number), an int, or 'UNDEF' (a later fragment outside a fragmented picture)."""
    out = []
    last = None
    in_fragmented = False
    for u in seq:
        c = code_of(u)
        if c in PICTURES:
            path, start = PH_PN, True
        elif c in FRAGMENTS:
            path, start = FH_PN, is_first_fragment(u)
        else:
            out.append(None)
            continue
        v = get(u, path, AUTO_S)
        if v == AUTO_S:
            if start:
                n = 0 if last is None else (last + 1) % M32
            else:
                n = last if (in_fragmented and last is not None) else "UNDEF"
        else:
            n = v
        if start:
            in_fragmented = c in FRAGMENTS
        out.append(n)
        last = n if n != "UNDEF" else last
    return out


def pn_path(unit):
    c = code_of(unit)
    return PH_PN if c in PICTURES else FH_PN if c in FRAGMENTS else None


def resolve_same(spec):
    """Generator helper: replace the marker 'SAME' (explicit picture number equal to that of the picture the
    fragment belongs to) by the number."""
    for seq in spec["sequences"]:
        for i, u in enumerate(seq):
            p = pn_path(u)
            if p and u["f"].get(p) == "SAME":
                u["f"][p] = AUTO_S
                n = expected_picture_numbers(seq[: i + 1])[i]
                assert n != "UNDEF"
                u["f"][p] = n
    return spec


# ------------------------------------------------------------------------------------------------ comparison helpers
class Fail(Exception):
    def __init__(self, clause, what, **detail):
        Exception.__init__(self, what)
        self.clause, self.what, self.detail = clause, what, detail


def jsonable(v):
    T = _load()
    if isinstance(v, (bytes, bytearray)):
        return {"bytes_len": len(v), "head_hex": bytes(v[:24]).hex()}
    if isinstance(v, T.bitarray):
        return "bits:" + v.to01()
    if v is T.AUTO:
        return AUTO_S
    if isinstance(v, (list, tuple)):
        return [jsonable(x) for x in v]
    if isinstance(v, bool) or v is None or isinstance(v, str):
        return v
    if isinstance(v, int):
        return int(v)
    return repr(v)


def check_default(path, value, container):
    """S2: an omitted field holds its documented default; bits / bytes / list tails are filled with the default."""
    T = _load()
    key = path.rsplit(".", 1)[-1]
    parents = [c for c in path.split(".")[:-1] if not c.isdigit()]
    cls = T.CONTAINERS.get(parents[-1]) if parents else T.fd.DataUnit  # the dictionary type is fixed by the place in the description
    table = T.defaults.get(cls)
    if table is None or key not in table:
        raise Fail("default", "output entry without a documented default", path=path, type=getattr(cls, "__name__", None), value=jsonable(value))
    dv = table[key]
    if isinstance(dv, T.bitarray):
        ok = isinstance(value, T.bitarray) and value[: len(dv)] == dv[: len(value)] and not value[len(dv):].any()
    elif isinstance(dv, bytes):
        ok = isinstance(value, bytes) and value[: len(dv)] == dv and not any(value[len(dv):])
    elif isinstance(value, list):
        ok = all(x == dv for x in value)
    else:
        ok = value == dv
    if not ok:
        raise Fail("default", "omitted field does not hold its documented default", path=path, expected_default=jsonable(dv), observed=jsonable(value))


def check_explicit(path, want, value):
    """S1: an explicit value appears unchanged (an explicit list is a prefix: the remaining entries were omitted)."""
    T = _load()
    want = decode(want)
    if isinstance(want, list):
        ok = isinstance(value, list) and value[: len(want)] == want
        tail = value[len(want):] if ok else []
        if ok and tail:
            # the omitted tail takes the default
            return tail
    else:
        ok = value == want and (not isinstance(want, bytes) or isinstance(value, bytes))
    if not ok:
        raise Fail("explicit", "explicitly supplied value changed", path=path, expected=jsonable(want), observed=jsonable(value))
    return None


# ------------------------------------------------------------------------------------------------ clause S / X : end to end
def serialise(spec):
    T = _load()
    stream = build_stream(spec)
    f = io.BytesIO()
    T.af.autofill_and_serialise_stream(f, stream)
    data = f.getvalue()
    with T.Deserialiser(T.BitstreamReader(io.BytesIO(data))) as des:
        T.vc2.parse_stream(des, T.State())
    return data, des.context


def check_end_to_end(spec):
    """Raises Fail(clause, ...) for the first deviation from the statement."""
    T = _load()
    try:
        data, out = serialise(spec)
    except Exception as e:  # the statement covers every description that can be serialised; the generators build only such
        raise Fail("exception", "autofill_and_serialise_stream (or re-reading its output) raised on a serialisable description",
                   exception=type(e).__name__, message=str(e)[:300])
    seqs = out.get("sequences", [])
    if len(seqs) != len(spec["sequences"]):
        raise Fail("explicit", "number of sequences changed", expected=len(spec["sequences"]), observed=len(seqs))
    pos_end = None
    for si, (seq, oseq) in enumerate(zip(spec["sequences"], seqs)):
        ounits = oseq.get("data_units", [])
        if len(ounits) != len(seq):
            raise Fail("explicit", "number of data units changed", sequence=si, expected=len(seq), observed=len(ounits))
        try:
            offs = [ou["parse_info"]["_offset"] for ou in ounits]
        except KeyError:
            raise Fail("offsets", "deserialised data unit without parse_info / its byte offset", sequence=si)
        # the offsets really are where parse-info headers of the expected kind sit in the output bytes
        for ui, (u, off) in enumerate(zip(seq, offs)):
            prefix = get(u, "parse_info.parse_info_prefix", D("ParseInfo", "parse_info_prefix"))
            if data[off: off + 5] != prefix.to_bytes(4, "big") + bytes([code_of(u)]):
                raise Fail("offsets", "no parse-info header of the expected kind at the reported offset", sequence=si, unit=ui, offset=off,
                           bytes_hex=data[off: off + 13].hex())
            if ui and off <= offs[ui - 1]:
                raise Fail("offsets", "data units out of order", sequence=si, unit=ui)
        if pos_end is not None and offs and offs[0] < pos_end:
            raise Fail("offsets", "sequences overlap", sequence=si)
        if offs:
            pos_end = offs[-1] + 13
        pns = expected_picture_numbers(seq)
        vctx = version_context(seq)
        req = seq_version(seq)
        for ui, (u, ou) in enumerate(zip(seq, ounits)):
            where = dict(sequence=si, unit=ui)
            leaves = flatten(ou, "", {})
            expl = explicit_leaves(u)
            c = code_of(u)
            for path, (value, container) in leaves.items():
                key = path.rsplit(".", 1)[-1]
                parents = [x for x in path.split(".")[:-1] if not x.isdigit()]
                cname = getattr(T.CONTAINERS.get(parents[-1]), "__name__", None) if parents else "DataUnit"
                if path in expl:
                    tail = check_explicit_at(path, expl[path], value, where)
                    if tail:
                        try:
                            check_default(path, tail, container)
                        except Fail as e:
                            e.detail.update(where)
                            raise
                    continue
                if (cname, key) in AUTO_FIELDS:
                    if key == "next_parse_offset":
                        if c in (AUX, PAD):
                            k = "auxiliary_data.bytes" if c == AUX else "padding.bytes"
                            b = get(u, k, None)
                            n = len(decode(b)) if b is not None else len(D("AuxiliaryData" if c == AUX else "Padding", "bytes"))
                            want = 13 + n
                            if ui + 1 < len(offs) and offs[ui + 1] - offs[ui] != want:
                                raise Fail("offsets", "auxiliary/padding unit does not span 13 + payload bytes", expected=want,
                                           observed=offs[ui + 1] - offs[ui], **where)
                        else:
                            want = 0 if ui == len(seq) - 1 else offs[ui + 1] - offs[ui]
                        if value != want:
                            raise Fail("offsets", "automatic next_parse_offset is not the distance to the next data unit (0 for the last unit of a sequence)",
                                       expected=want, observed=value, **where)
                    elif key == "previous_parse_offset":
                        want = 0 if ui == 0 else offs[ui] - offs[ui - 1]
                        if value != want:
                            raise Fail("offsets", "automatic previous_parse_offset is not the distance to the previous data unit (0 for the first unit of a sequence)",
                                       expected=want, observed=value, **where)
                    elif key == "major_version":
                        if value != req:
                            raise Fail("major-version", "automatic major_version is not the minimum version the sequence's features require",
                                       expected=req, observed=value, **where)
                    else:  # picture_number
                        if pns[ui] == "UNDEF":
                            continue
                        if value != pns[ui]:
                            raise Fail("picture-number", "automatic picture number does not continue from the previous picture", expected=pns[ui],
                                       observed=value, expected_sequence=[p for p in pns if p is not None], **where)
                    continue
                try:
                    check_default(path, value, container)
                except Fail as e:
                    e.detail.update(where)
                    raise
            # every explicit value must be in the output (documented exception: extended transform parameters
            # are dropped when the version in force was automatic and is below 3)
            for path in expl:
                if path in leaves:
                    continue
                if ("." + ETP) in path and vctx[ui] is not None and vctx[ui][1] and vctx[ui][0] < 3:
                    continue
                raise Fail("explicit", "explicitly supplied value is missing from the output", path=path, expected=jsonable(decode(expl[path])), **where)
    if pos_end is not None and pos_end != len(data):
        raise Fail("offsets", "output does not end with the last parse-info header", expected_length=pos_end, observed_length=len(data))
    if pos_end is None and data:
        raise Fail("explicit", "empty stream serialised to bytes", observed_length=len(data))
    return data


def check_explicit_at(path, want, value, where):
    try:
        return check_explicit(path, want, value)
    except Fail as e:
        e.detail.update(where)
        raise


def check_validator(spec, data):
    """X: the autofilled valid stream is accepted by the validator.  Returns None (accepted) or the class name of a
    rejection that has nothing to do with offsets / picture numbers / versions (inconclusive: the validator is the
    oracle here, not the code under check)."""
    T = _load()
    st = T.State(_output_picture_callback=lambda *a: None)
    T.decoder.init_io(st, io.BytesIO(data))
    try:
        T.decoder.parse_stream(st)
    except T.RELATED as e:
        raise Fail("validator", "the validator rejects an autofilled stream by a parse-offset / picture-number / version rule",
                   exception=type(e).__name__, args=jsonable(list(e.args)))
    except Exception as e:
        return type(e).__name__
    return None


# ------------------------------------------------------------------------------------------------ generators
EXPLICIT_OFFSETS = [0, 13, 14, 1000, 0xFFFFFFFF]
EXPLICIT_PNS = [0, 1, 7, 0xFFFFFFFE, 0xFFFFFFFF]


def maybe(rng, p=0.5):
    return rng.random() < p


def gen_offsets(rng, f, code, mode, payload_len=None):
    for path in (NPO, PPO):
        r = rng.random()
        if r < 0.4:
            continue
        if r < 0.75:
            f[path] = AUTO_S
            continue
        if mode == "valid":
            if path == NPO and code in PICTURES + FRAGMENTS + (EOS,):
                f[path] = 0  # allowed by (10.5.1); the following previous offset must still be right
            continue
        if path == NPO and code in (AUX, PAD):
            f[path] = 13 + payload_len
        else:
            f[path] = rng.choice(EXPLICIT_OFFSETS + [rng.getrandbits(32)])
    if mode == "free" and maybe(rng, 0.05):
        f["parse_info.parse_info_prefix"] = rng.choice([0x42424344, 0xDEADBEEF])


def gen_data_payload(rng, code, mode):
    f = {PC: code}
    key = "auxiliary_data" if code == AUX else "padding"
    r = rng.random()
    if r < 0.2:
        n = None  # payload omitted
        if maybe(rng, 0.3):
            f[key] = EMPTY
    else:
        n = rng.choice([0, 0, 1, 2, 3, 12, 13, 14, 255, 256, 257, rng.randrange(0, 40), rng.randrange(0, 2000)] + ([65535, 65536, 70000] if maybe(rng, 0.1) else []))
        f[key + ".bytes"] = ["bytes", n, rng.randrange(256)]
    if n is None and mode == "free" and maybe(rng, 0.3):
        # explicit length, omitted payload: the payload is the default padded with zeros
        f[NPO] = 13 + rng.choice([0, 1, 5])
        if maybe(rng):
            f[PPO] = AUTO_S
    else:
        gen_offsets(rng, f, code, mode, payload_len=0 if n is None else n)
    return {"f": f}


def gen_presets(rng, f, mode):
    vp = VP

    def preset(prefix, kind, lo, hi, custom_fields=(), zero_has_fields=False):
        cls, flag = PRESET_CLASS[kind] if kind in PRESET_CLASS else (None, None)
        r = rng.random()
        if r < 0.35:
            if maybe(rng, 0.15):
                f[prefix[:-1]] = EMPTY
            return None
        if r < 0.5:
            f[prefix + flag] = False
            return None
        f[prefix + flag] = True
        if maybe(rng, 0.2):
            return D(cls, "index")
        idx = rng.randint(lo, hi)
        f[prefix + "index"] = idx
        if idx == 0 and zero_has_fields:
            for name, choices in custom_fields:
                if maybe(rng, 0.6):
                    f[prefix + name] = rng.choice(choices)
        return idx

    preset(vp + "frame_rate.", "frame_rate", 0, 16, (("frame_rate_numer", [1, 24, 60000]), ("frame_rate_denom", [1, 1001])), True)
    preset(vp + "signal_range.", "signal_range", 0, 8, (("luma_offset", [0, 16]), ("luma_excursion", [219, 255, 1023]), ("color_diff_offset", [0, 128]),
                                                        ("color_diff_excursion", [224, 255])), True)
    idx = preset(vp + "color_spec.", "color_spec", 0, 7)
    if idx == 0:
        preset(vp + "color_spec.color_primaries.", "color_primaries", 0, 4)
        preset(vp + "color_spec.color_matrix.", "color_matrix", 0, 4)
        preset(vp + "color_spec.transfer_function.", "transfer_function", 0, 5)
    # fields without version rules
    r = rng.random()
    if r < 0.25:
        f[vp + "pixel_aspect_ratio.custom_pixel_aspect_ratio_flag"] = True
        i = rng.randint(0, 6)
        f[vp + "pixel_aspect_ratio.index"] = i
        if i == 0 and maybe(rng):
            f[vp + "pixel_aspect_ratio.pixel_aspect_ratio_numer"] = rng.choice([1, 10, 59])
            f[vp + "pixel_aspect_ratio.pixel_aspect_ratio_denom"] = rng.choice([1, 11, 54])
    elif r < 0.35:
        f[vp + "pixel_aspect_ratio.custom_pixel_aspect_ratio_flag"] = False
    if maybe(rng, 0.2):
        f[vp + "scan_format.custom_scan_format_flag"] = True
        if maybe(rng, 0.7):
            f[vp + "scan_format.source_sampling"] = rng.randint(0, 1)


def gen_seqhdr(rng, mode, profile, dims, pcm, chroma444):
    """dims: (w, h) explicit frame size (needed when the sequence holds picture data), or None."""
    f = {PC: SEQ_HDR}
    r = rng.random()
    if r < 0.35:
        pass
    elif r < 0.7 or mode == "valid":
        f[MV] = AUTO_S
    else:
        f[MV] = rng.choice([1, 2, 3, 3, 4])
    if profile is not None:
        f[PP + "profile"] = profile
    if maybe(rng, 0.3):
        f[PP + "minor_version"] = 0 if mode == "valid" else rng.choice([0, 1, 5])
    if maybe(rng, 0.3):
        f[PP + "level"] = 0 if mode == "valid" else rng.choice([0, 1, 3, 64])
    if maybe(rng, 0.3):
        f["sequence_header.base_video_format"] = rng.choice([0, 1, 9, 14]) if mode == "valid" else rng.randrange(0, 23)
    if pcm is not None:
        f["sequence_header.picture_coding_mode"] = pcm
    fs = VP + "frame_size."
    if dims is not None:
        f[fs + "custom_dimensions_flag"] = True
        if dims != (1, 1) or maybe(rng):  # (1, 1) is the default size: the two fields may be omitted
            f[fs + "frame_width"], f[fs + "frame_height"] = dims
        if mode == "valid" or maybe(rng, 0.3):
            ca = VP + "clean_area."
            f[ca + "custom_clean_area_flag"] = True
            f[ca + "clean_width"], f[ca + "clean_height"] = dims
            if maybe(rng):
                f[ca + "left_offset"] = 0
            if maybe(rng):
                f[ca + "top_offset"] = 0
    else:
        r = rng.random()
        if r < 0.2:
            f[fs + "custom_dimensions_flag"] = False
        elif r < 0.5:
            f[fs + "custom_dimensions_flag"] = True
            if maybe(rng):
                f[fs + "frame_width"] = rng.choice([1, 2, 1920, 65536])
            if maybe(rng):
                f[fs + "frame_height"] = rng.choice([1, 2, 1080])
    if chroma444 or maybe(rng, 0.2):
        cd = VP + "color_diff_sampling_format."
        f[cd + "custom_color_diff_format_flag"] = True
        if chroma444:
            if maybe(rng):
                f[cd + "color_diff_format_index"] = 0  # 4:4:4 is also the default index
        else:
            f[cd + "color_diff_format_index"] = 0 if mode == "valid" else rng.randint(0, 2)
    gen_presets(rng, f, mode)
    gen_offsets(rng, f, SEQ_HDR, mode)
    return {"f": f}


def gen_slices(rng, f, prefix, hq, count, mode, prefix_bytes, lengths_ok):
    """Explicit entries for some of the `count` slices under prefix ('...hq_slices' / '...ld_slices' is appended)."""
    if not maybe(rng, 0.4):
        return
    base = prefix + ("hq_slices" if hq else "ld_slices")
    k = rng.randint(0, count)
    if k == 0:
        return
    for i in range(k):
        s = "%s.%d." % (base, i)
        any_field = False
        if maybe(rng, 0.6):
            f[s + "qindex"] = rng.randint(0, 3) if mode == "valid" else rng.randint(0, 255 if hq else 127)
            any_field = True
        if hq:
            if prefix_bytes and maybe(rng):
                f[s + "prefix_bytes"] = ["bytes", prefix_bytes, rng.randrange(256)]
                any_field = True
            if lengths_ok and maybe(rng, 0.4):
                f[s + "slice_y_length"] = rng.randint(1, 3)
                if maybe(rng):
                    f[s + "y_transform"] = ["list", rng.randint(-3, 3)]
                if maybe(rng, 0.3):
                    f[s + "slice_c1_length"] = rng.randint(0, 2)
                any_field = True
        if not any_field:
            f[base + ".%d" % i] = EMPTY


def gen_transform_parameters(rng, f, tp, mode, hq, etp_allowed):
    """Returns (slices_x, slices_y, slice_prefix_bytes, lengths_ok)."""
    wi = None
    if maybe(rng):
        wi = rng.randrange(7)
        f[tp + "wavelet_index"] = wi
    wi_eff = wi if wi is not None else D("TransformParameters", "wavelet_index")
    depth = 0
    if maybe(rng):
        depth = rng.choice([0, 1, 1, 2])
        f[tp + "dwt_depth"] = depth
    dh = 0
    asym = False
    if etp_allowed and maybe(rng, 0.6):
        e = tp + ETP
        r = rng.random()
        if r < 0.1:
            f[e[:-1]] = EMPTY
        # index part
        r = rng.random()
        if r < 0.15:
            f[e + "asym_transform_index_flag"] = False
        elif r < 0.55:
            f[e + "asym_transform_index_flag"] = True
            r2 = rng.random()
            if r2 < 0.3:
                f[e + "wavelet_index_ho"] = wi_eff  # flagged, but the same filter: still a symmetric transform
            elif r2 < 0.8:
                f[e + "wavelet_index_ho"] = rng.choice([x for x in range(7) if x != wi_eff])
                asym = True
            else:
                asym = asym or D("ExtendedTransformParameters", "wavelet_index_ho") != wi_eff  # omitted: the default filter
        # depth part
        r = rng.random()
        if r < 0.15:
            f[e + "asym_transform_flag"] = False
        elif r < 0.55:
            f[e + "asym_transform_flag"] = True
            r2 = rng.random()
            if r2 < 0.3:
                f[e + "dwt_depth_ho"] = 0  # flagged, but no horizontal-only level: still symmetric
            elif r2 < 0.8:
                dh = rng.choice([1, 1, 2])
                f[e + "dwt_depth_ho"] = dh
                asym = True
    sp = tp + "slice_parameters."
    sx = sy = 1
    if maybe(rng, 0.4):
        sx = rng.randint(1, 3 if mode == "free" else 2)
        f[sp + "slices_x"] = sx
    if maybe(rng, 0.4):
        sy = rng.randint(1, 2)
        f[sp + "slices_y"] = sy
    pb = 0
    scaler_ok = True
    if hq:
        if maybe(rng, 0.3):
            pb = rng.randint(0, 2)
            f[sp + "slice_prefix_bytes"] = pb
        if maybe(rng, 0.3):
            f[sp + "slice_size_scaler"] = rng.randint(1, 2)
    else:
        if maybe(rng, 0.4):
            n, d = rng.choice([(1, 1), (2, 1), (7, 2), (4, 1)])
            f[sp + "slice_bytes_numerator"] = n
            if (n, d) != (1, 1) or maybe(rng):
                f[sp + "slice_bytes_denominator"] = d
    qm = tp + "quant_matrix."
    r = rng.random()
    need_custom = mode == "valid" and asym
    if r < 0.15 and not need_custom:
        f[qm + "custom_quant_matrix"] = False
    elif r < 0.45 or need_custom:
        f[qm + "custom_quant_matrix"] = True
        n = 1 + dh + 3 * depth
        r2 = rng.random()
        if r2 < 0.5:
            f[qm + "quant_matrix"] = ["list"] + [rng.randint(0, 4) for _ in range(n)]
        elif r2 < 0.7:
            f[qm + "quant_matrix"] = ["list"] + [rng.randint(0, 4) for _ in range(rng.randint(0, n))]
            if len(f[qm + "quant_matrix"]) == 1:
                del f[qm + "quant_matrix"]
    return sx, sy, pb, scaler_ok


def gen_picture_number(rng, f, path, mode, first_in_seq, fields):
    r = rng.random()
    if r < 0.4:
        return
    if r < 0.75:
        f[path] = AUTO_S
        return
    if mode == "valid":
        if first_in_seq:  # any start value is conformant (even for the first field); later numbers must follow on
            f[path] = rng.choice([0, 2, 0xFFFFFFFE, 1000] if fields else EXPLICIT_PNS)
        return
    f[path] = rng.choice(EXPLICIT_PNS + [rng.getrandbits(32)])


def gen_sequence(rng, mode):
    hq = maybe(rng, 0.6)
    if mode == "valid":
        profile = 3 if hq else 0
        if hq and maybe(rng, 0.3):
            profile = None  # omitted: high quality is the default
    else:
        profile = rng.choice([None, 0, 3])
    n_items = rng.choice([0, 1, 1, 2, 2, 3, 4, 5])
    kinds = []
    for _ in range(n_items):
        kinds.append(rng.choice(["pic", "pic", "fragpic", "fragpic", "pad", "aux", "hdr"]))
    fragmented = maybe(rng)
    if mode == "valid":  # a sequence holds either whole pictures or fragments of pictures
        kinds = [("fragpic" if fragmented else "pic") if k in ("pic", "fragpic") else k for k in kinds]
    n_pics = sum(1 for k in kinds if k in ("pic", "fragpic"))
    pcm = None
    if maybe(rng, 0.3):
        pcm = rng.randint(0, 1)
    if mode == "valid" and pcm == 1 and n_pics % 2:
        kinds.append("fragpic" if fragmented else "pic")
        n_pics += 1
    fields = pcm == 1
    if mode == "valid":
        dims = rng.choice([(4, 4), (8, 4), (4, 8)] if fields else [(2, 2), (4, 2), (4, 4), (6, 4)])
        chroma444 = maybe(rng, 0.3)
    else:
        dims = rng.choice([(1, 1), (2, 2), (4, 2), (3, 5), (8, 4)]) if n_pics else None
        chroma444 = False
    need_hdr = mode == "valid" or n_pics > 0 or maybe(rng, 0.5)
    units = []
    hdr = None
    ver_explicit = None

    def header():
        nonlocal hdr, ver_explicit
        if hdr is None:
            hdr = gen_seqhdr(rng, mode, profile, dims, pcm, chroma444)
            mv = hdr["f"].get(MV, AUTO_S)
            ver_explicit = None if mv == AUTO_S else mv
            return hdr
        # a repeated header carries the same parameters (10.4.1); automatic fields are chosen afresh
        f = {k: v for k, v in hdr["f"].items() if k not in (NPO, PPO, MV, "parse_info.parse_info_prefix")}
        if ver_explicit is not None:
            f[MV] = ver_explicit
        elif maybe(rng):
            f[MV] = AUTO_S
        gen_offsets(rng, f, SEQ_HDR, mode)
        return {"f": f}

    if mode == "free" and need_hdr and maybe(rng, 0.2):
        units.append(gen_data_payload(rng, rng.choice([AUX, PAD]), mode))  # data before the first header
    if need_hdr:
        units.append(header())
    first_pic = True
    for k in kinds:
        if k == "hdr":
            if need_hdr:
                units.append(header())
            continue
        if k in ("pad", "aux"):
            units.append(gen_data_payload(rng, PAD if k == "pad" else AUX, mode))
            continue
        etp_allowed = ver_explicit is None or ver_explicit >= 3
        this_hq = hq if mode == "valid" else maybe(rng, 0.6)
        if k == "pic":
            code = HQ_PIC if this_hq else LD_PIC
            f = {PC: code}
            gen_offsets(rng, f, code, mode)
            gen_picture_number(rng, f, PH_PN, mode, first_pic, fields)
            if maybe(rng, 0.8):
                sx, sy, pb, ok = gen_transform_parameters(rng, f, PIC_TP, mode, this_hq, etp_allowed)
                # an explicit coefficient needs a slice that holds one: a single slice, and a field of a 1-line frame is empty
                gen_slices(rng, f, "picture_parse.wavelet_transform.transform_data.", this_hq, sx * sy, mode, pb, sx * sy == 1 and not (fields and dims[1] < 2))
            elif maybe(rng, 0.3):
                f["picture_parse"] = EMPTY
            units.append({"f": f})
        else:
            code = HQ_FRAG if this_hq else LD_FRAG
            f = {PC: code}
            gen_offsets(rng, f, code, mode)
            gen_picture_number(rng, f, FH_PN, mode, first_pic, fields)
            if maybe(rng):
                f[FH_FSC] = 0
            elif maybe(rng, 0.3) and FH_PN not in f:
                f["fragment_parse.fragment_header" if maybe(rng) else "fragment_parse"] = EMPTY
            if maybe(rng, 0.3):
                f[FH + "fragment_data_length"] = rng.choice([0, 1, 65535])
            sx = sy = 1
            pb = 0
            if maybe(rng, 0.8):
                sx, sy, pb, ok = gen_transform_parameters(rng, f, FRAG_TP, mode, this_hq, etp_allowed)
            units.append({"f": f})
            total = sx * sy
            pos = 0
            while pos < total:
                if mode == "free" and maybe(rng, 0.15):
                    break  # an incomplete fragmented picture still serialises
                if mode == "free" and maybe(rng, 0.15):
                    units.append(gen_data_payload(rng, rng.choice([AUX, PAD]), mode))
                n = rng.randint(1, total - pos)
                g = {PC: code, FH_FSC: n}
                x, y = pos % sx, pos // sx
                if x or maybe(rng):
                    g[FH + "fragment_x_offset"] = x
                if y or maybe(rng):
                    g[FH + "fragment_y_offset"] = y
                gen_offsets(rng, g, code, mode)
                r = rng.random()
                if r < 0.3:
                    g[FH_PN] = AUTO_S
                elif r < 0.5 and mode == "free":
                    g[FH_PN] = "SAME"
                if maybe(rng, 0.2):
                    g[FH + "fragment_data_length"] = rng.choice([0, 7, 65535])
                gen_slices(rng, g, "fragment_parse.fragment_data.", this_hq, n, mode, pb, False)
                units.append({"f": g})
                pos += n
        first_pic = False
    # end of sequence: the parse code may be omitted (its default is end_of_sequence), even the whole parse_info
    f = {}
    r = rng.random()
    if r < 0.6:
        f[PC] = EOS
        gen_offsets(rng, f, EOS, mode)
    elif r < 0.8:
        f["parse_info"] = EMPTY
    units.append({"f": f})
    return units


def gen_stream(rng, mode):
    n = rng.choice([1, 1, 2, 3]) if mode == "valid" else rng.choice([0, 1, 1, 2, 2, 3])
    return resolve_same({"sequences": [gen_sequence(rng, mode) for _ in range(n)]})


# ------------------------------------------------------------------------------------------------ workers (clause S, X)
def features_of(spec):
    ft = set()
    if len(spec["sequences"]) > 1:
        ft.add("multi-sequence")
    for seq in spec["sequences"]:
        ft.add("version-%d" % seq_version(seq))
        for u in seq:
            c = code_of(u)
            if c in FRAGMENTS:
                ft.add("fragments")
            if c in (AUX, PAD):
                ft.add("aux/padding")
            if any(ETP in p for p in u["f"]):
                ft.add("extended-transform-parameters")
            if any(isinstance(v, str) and v == AUTO_S for v in u["f"].values()):
                ft.add("AUTO")
    return ft


def worker(job):
    mode, seed, start, count = job
    _load()
    fails = []
    ft_count = {}
    inconclusive = {}
    n_units = 0
    distinct = set()
    for i in range(start, start + count):
        rng = random.Random("C07-%s-%d-%d" % (mode, seed, i))
        spec = gen_stream(rng, mode)
        distinct.add(repr(spec))
        n_units += sum(len(s) for s in spec["sequences"])
        for x in features_of(spec):
            ft_count[x] = ft_count.get(x, 0) + 1
        try:
            data = check_end_to_end(spec)
            if mode == "valid":
                other = check_validator(spec, data)
                if other is not None:
                    inconclusive[other] = inconclusive.get(other, 0) + 1
        except Fail as e:
            fails.append({"clause": e.clause, "what": e.what, "detail": e.detail, "stream": spec, "index": i, "mode": mode})
    return {"fails": fails, "features": ft_count, "units": n_units, "distinct": len(distinct), "count": count, "inconclusive": inconclusive}


def run_pool(jobs):
    import multiprocessing

    if len(jobs) <= 1:
        return [worker(j) for j in jobs]
    ctx = multiprocessing.get_context("fork")
    with ctx.Pool(min(8, len(jobs))) as pool:
        return pool.map(worker, jobs, chunksize=1)


class Reporter(object):
    """At most 3 violations per clause."""

    def __init__(self, rep):
        self.rep = rep
        self.count = {}

    def full(self, clause):
        return self.count.get(clause, 0) >= 3

    def report(self, clause, what, inputs, detail):
        if self.full(clause):
            return
        self.count[clause] = self.count.get(clause, 0) + 1
        self.rep.violation("C07-%s-%d" % (clause, self.count[clause]),
                           {"what": what, "inputs": inputs, "expected": detail.get("expected"), "observed": detail.get("observed"), "detail": detail,
                            "how_to_rerun": "cd /verif && .venv/bin/python -c \"import json,sys; from bounded import c07_autofill as m; print(m.replay(json.load(open(sys.argv[1]))['inputs']))\" <this file>"})


# ------------------------------------------------------------------------------------------------ clause T : tables
def check_tables(rep):
    T = _load()
    wa = T.af.vc2_default_values_with_auto
    dv = T.defaults
    diff = set()
    same_keys = set(wa.keys()) == set(dv.keys())
    for cls in dv:
        a, b = wa.get(cls, {}), dv[cls]
        if set(a.keys()) != set(b.keys()):
            same_keys = False
        for k in b:
            if k in a and (a[k] is T.AUTO or a[k] != b[k]):
                diff.add((cls.__name__, k, a[k] is T.AUTO))
    rep.add_eval_fact("vc2_default_values_with_auto has the classes and keys of vc2_default_values", same_keys, "")
    rep.add_eval_fact("vc2_default_values_with_auto differs from vc2_default_values exactly in the five documented AUTO fields (value AUTO)",
                      diff == {(c, k, True) for c, k in AUTO_FIELDS}, repr(sorted(diff)))
    import vc2_data_tables as t
    from vc2_conformance import version_constraints as vcs

    fns = {"frame_rate": (vcs.preset_frame_rate_version_implication, t.PresetFrameRates), "signal_range": (vcs.preset_signal_range_version_implication, t.PresetSignalRanges),
           "color_spec": (vcs.preset_color_spec_version_implication, t.PresetColorSpecs), "color_primaries": (vcs.preset_color_primaries_version_implication, t.PresetColorPrimaries),
           "color_matrix": (vcs.preset_color_matrix_version_implication, t.PresetColorMatrices), "transfer_function": (vcs.preset_transfer_function_version_implication, t.PresetTransferFunctions)}
    bad = []
    n = 0
    for kind, (fn, enum) in fns.items():
        for idx in sorted(set(int(m) for m in enum) | {0}):
            n += 1
            want = 3 if idx >= FIRST_V3_INDEX[kind] else 1
            if fn(idx) != want:
                bad.append((kind, idx, fn(idx), want))
    for code in t.ParseCodes:
        n += 1
        want = 3 if int(code) in FRAGMENTS else 1
        if vcs.parse_code_version_implication(code) != want or vcs.parse_code_version_implication(int(code)) != want:
            bad.append(("parse_code", int(code)))
    for p in t.Profiles:
        n += 1
        want = 2 if p.name == "high_quality" else 1
        if vcs.profile_version_implication(p) != want or vcs.profile_version_implication(int(p)) != want:
            bad.append(("profile", int(p)))
    for wi, who, dh in itertools.product(range(7), range(7), range(4)):
        n += 1
        want = 3 if (wi != who or dh != 0) else 1
        if vcs.wavelet_transform_version_implication(wi, who, dh) != want:
            bad.append(("wavelet", wi, who, dh))
    rep.add_eval_fact("version rules of version_constraints agree with the thresholds of ST 2042-1 (11.2.2) on every live preset index, parse code, profile and "
                      "(wavelet, horizontal wavelet, horizontal depth) triple (%d evaluations); MINIMUM_MAJOR_VERSION == 1" % n,
                      not bad and vcs.MINIMUM_MAJOR_VERSION == 1, repr(bad[:5]))


# ------------------------------------------------------------------------------------------------ clause P : picture numbers (direct)
def pn_alphabet():
    return [
        ("X", {PC: PAD, "padding.bytes": ["bytes", 2, 1]}),
        ("H", {PC: SEQ_HDR}),
        ("P-omit", {PC: HQ_PIC}),
        ("P-AUTO", {PC: LD_PIC, PH_PN: AUTO_S}),
        ("P-5", {PC: HQ_PIC, PH_PN: 5}),
        ("P-max", {PC: LD_PIC, PH_PN: M32 - 1, "picture_parse.wavelet_transform": EMPTY}),
        ("F0-bare", {PC: HQ_FRAG}),
        ("F0-AUTO", {PC: LD_FRAG, FH_FSC: 0, FH_PN: AUTO_S}),
        ("F0-empty-header", {PC: HQ_FRAG, "fragment_parse.fragment_header": EMPTY}),
        ("F0-max", {PC: HQ_FRAG, FH_PN: M32 - 1}),
        ("FN-omit", {PC: HQ_FRAG, FH_FSC: 2}),
        ("FN-AUTO", {PC: LD_FRAG, FH_FSC: 1, FH_PN: AUTO_S, FH + "fragment_x_offset": 1}),
        ("FN-same", {PC: HQ_FRAG, FH_FSC: 1, FH_PN: "SAME"}),
    ]


def wellformed_sequences(alphabet, max_len):
    """All symbol sequences up to max_len in which a later fragment (FN-*) occurs only inside a fragmented picture."""
    out = []

    def rec(seq, in_frag):
        out.append(list(seq))
        if len(seq) == max_len:
            return
        for i, (name, f) in enumerate(alphabet):
            if name.startswith("FN") and not in_frag:
                continue
            nf = in_frag
            if name.startswith("F0"):
                nf = True
            elif name.startswith("P"):
                nf = False
            seq.append(i)
            rec(seq, nf)
            seq.pop()

    rec([], False)
    return out


def compare_in_place(spec, stream, auto_expect, clause, fn):
    """Contract of a direct autofill call on the description itself: afterwards every explicit value is still there
    unchanged, the expected automatic values are filled in, and anything else the function may have added holds
    the documented default (so the meaning of the description is unchanged) or is an AUTO request left for another
    autofill function.  `auto_expect(si, ui, unit)` -> {path: value}; paths listed under key None must be gone."""
    T = _load()
    for si, seq in enumerate(spec["sequences"]):
        units = stream["sequences"][si]["data_units"]
        if len(units) != len(seq):
            raise Fail(clause, "%s changed the number of data units" % fn, sequence=si)
        for ui, u in enumerate(seq):
            want = {p: decode(v) for p, v in explicit_leaves(u).items()}
            add = auto_expect(si, ui, u)
            gone = list(add.pop(None, ()))
            for p in gone:
                want.pop(p, None)
            want.update(add)
            leaves = flatten(units[ui], "", {})
            bad = {}
            for p, w in want.items():
                if p not in leaves:
                    bad[p] = (jsonable(w), "<absent>")
                elif leaves[p][0] is T.AUTO or leaves[p][0] != w:
                    bad[p] = (jsonable(w), jsonable(leaves[p][0]))
            for p in gone:
                if p in leaves:
                    bad[p] = ("<removed>", jsonable(leaves[p][0]))
            for p, (v, container) in leaves.items():
                if p in want or p in gone:
                    continue
                if v is T.AUTO and u["f"].get(p) == AUTO_S:
                    continue  # another autofill function's job
                try:
                    check_default(p, v, container)
                except Fail:
                    bad[p] = ("<absent or documented default>", jsonable(v))
            if bad:
                raise Fail(clause, "%s: result differs from the explicit values plus the expected automatic values" % fn, sequence=si, unit=ui,
                           expected={k: w for k, (w, g) in bad.items()}, observed={k: g for k, (w, g) in bad.items()})


def check_picture_numbers(rep, R, tier):
    T = _load()
    alphabet = pn_alphabet()
    L = 4 if tier == "quick" else 5
    seqs = wellformed_sequences(alphabet, L)
    short = [s for s in seqs if len(s) <= 2]
    evals = 0
    samples = []

    def run(symseqs):
        nonlocal evals
        spec = resolve_same({"sequences": [[{"f": dict(alphabet[i][1])} for i in s] for s in symseqs]})
        stream = build_stream(spec)
        evals += 1
        names = [[alphabet[i][0] for i in s] for s in symseqs]
        try:
            try:
                T.af.autofill_picture_number(stream)
            except Exception as e:
                raise Fail("picture-number", "autofill_picture_number raised", exception=type(e).__name__, message=str(e)[:200])
            exp = [expected_picture_numbers(seq) for seq in spec["sequences"]]

            def auto(si, ui, u):
                p = pn_path(u)
                if p is None or p in explicit_leaves(u):
                    return {}
                return {p: exp[si][ui]}

            compare_in_place(spec, stream, auto, "picture-number", "autofill_picture_number")
        except Fail as e:
            R.report(e.clause, e.what, {"function": "autofill_picture_number", "stream": spec, "symbols": names}, e.detail)
        if len(samples) < 3 and len(symseqs) == 2 and len(symseqs[0]) == 2 and evals % 977 == 0:
            samples.append(names)

    for s in seqs:
        if R.full("picture-number"):
            break
        run([s])
    n1 = evals
    for a in short:
        if R.full("picture-number"):
            break
        for b in short:
            run([a, b])
    n2 = evals
    # wrap-around and every bit boundary: explicit number v, then automatic pictures / fragments following it
    values = sorted(set([(1 << k) - 1 for k in range(0, 33)] + [(1 << k) for k in range(0, 32)] + [M32 - 2]))
    sym = {n: i for i, (n, f) in enumerate(alphabet)}
    for v in values:
        if R.full("picture-number"):
            break
        save = (alphabet[sym["P-5"]], alphabet[sym["F0-max"]])
        alphabet[sym["P-5"]] = ("P-%d" % v, {PC: HQ_PIC, PH_PN: v})
        alphabet[sym["F0-max"]] = ("F0-%d" % v, {PC: HQ_FRAG, FH_PN: v})
        run([[sym["P-5"], sym["P-AUTO"], sym["F0-bare"], sym["FN-omit"], sym["P-omit"]], [sym["F0-max"], sym["FN-AUTO"], sym["FN-same"], sym["F0-AUTO"], sym["P-AUTO"]]])
        alphabet[sym["P-5"]], alphabet[sym["F0-max"]] = save
    rep.add_bounded("P: autofill_picture_number, explicit start values at every bit boundary",
                    "exhaustive: explicit picture number v in {2^k - 1, 2^k : k = 0..32} u {2^32 - 2} on a picture / a first fragment, followed by automatic pictures, "
                    "first fragments and later fragments (two sequences per stream)", evals - n2, True, distinct=evals - n2, samples=[{"v": M32 - 1, "expected": [M32 - 1, 0, 1, 1, 2]}])
    evals = n2
    rep.add_bounded("P: autofill_picture_number, all well-formed unit sequences",
                    "exhaustive: every sequence of <= %d data units over 13 unit kinds (picture / first fragment / later fragment x omitted, AUTO, explicit 5, explicit 2^32-1, "
                    "missing containers, omitted fragment_slice_count; padding; sequence header) with later fragments only inside a fragmented picture (%d streams), and every "
                    "two-sequence stream of such sequences of <= 2 units (%d streams)" % (L, n1, evals - n1),
                    evals, True, distinct=evals, samples=samples or [[["F0-max", "FN-omit"], ["P-omit", "F0-bare"]]])


# ------------------------------------------------------------------------------------------------ clause V : major version (direct)
def preset_atoms():
    atoms = [{}]
    for kind in ("frame_rate", "signal_range", "color_spec"):
        cls, flag = PRESET_CLASS[kind]
        thr = FIRST_V3_INDEX[kind]
        top = {"frame_rate": 16, "signal_range": 8, "color_spec": 7}[kind]
        for fl in (True, False, None):
            for idx in (None, thr - 1, thr, top):
                f = {}
                if fl is not None:
                    f[VP + kind + "." + flag] = fl
                if idx is not None:
                    f[VP + kind + ".index"] = idx
                atoms.append(f)
    cs = VP + "color_spec."
    contexts = [{cs + "custom_color_spec_flag": True, cs + "index": 0}, {cs + "custom_color_spec_flag": True, cs + "index": 1},
                {cs + "custom_color_spec_flag": True}, {cs + "custom_color_spec_flag": False, cs + "index": 0}, {}]
    for kind in ("color_primaries", "color_matrix", "transfer_function"):
        cls, flag = PRESET_CLASS[kind]
        for ctx in contexts:
            for fl in (True, False, None):
                for idx in (None, 3, 4):
                    f = dict(ctx)
                    if fl is not None:
                        f[cs + kind + "." + flag] = fl
                    if idx is not None:
                        f[cs + kind + ".index"] = idx
                    atoms.append(f)
    return atoms


def etp_atoms(wi_eff):
    """27 = absent, empty container, the 24 non-empty combinations of 5 index parts x 5 depth parts, and a lone False flag."""
    other = 1 if wi_eff != 1 else 2
    index_parts = [{}, {"asym_transform_index_flag": False, "wavelet_index_ho": other}, {"asym_transform_index_flag": True, "wavelet_index_ho": wi_eff},
                   {"asym_transform_index_flag": True, "wavelet_index_ho": other}, {"asym_transform_index_flag": True}]
    depth_parts = [{}, {"asym_transform_flag": False, "dwt_depth_ho": 2}, {"asym_transform_flag": True, "dwt_depth_ho": 0},
                   {"asym_transform_flag": True, "dwt_depth_ho": 1}, {"asym_transform_flag": True}]
    out = [None, "EMPTY"]
    for a in index_parts:
        for b in depth_parts:
            if a or b:
                d = dict(a)
                d.update(b)
                out.append(d)
    out.append({"asym_transform_index_flag": False})
    return out


def picture_units(kind, wi, etp):
    """Data units of one picture of the given kind with the given transform parameters."""
    code = {"ld": LD_PIC, "hq": HQ_PIC, "ldfrag": LD_FRAG, "hqfrag": HQ_FRAG}[kind]
    f = {PC: code}
    tp = PIC_TP if code in PICTURES else FRAG_TP
    if wi is not None:
        f[tp + "wavelet_index"] = wi
    if etp == "EMPTY":
        f[tp + ETP[:-1]] = EMPTY
    elif etp:
        for k, v in etp.items():
            f[tp + ETP + k] = v
    units = [{"f": f}]
    if code in FRAGMENTS:
        units.append({"f": {PC: code, FH_FSC: 1}})
    return units


def hdr_unit(profile, mv, extra=None):
    f = {PC: SEQ_HDR}
    if profile is not None:
        f[PP + "profile"] = profile
    if mv is not None:
        f[MV] = mv
    f.update(extra or {})
    return {"f": f}


def check_version_spec(T, R, spec, tag):
    stream = build_stream(spec)
    try:
        try:
            T.af.autofill_major_version(stream)
        except Exception as e:
            raise Fail("major-version", "autofill_major_version raised", exception=type(e).__name__, message=str(e)[:200])
        reqs = [seq_version(seq) for seq in spec["sequences"]]
        ctxs = [version_context(seq) for seq in spec["sequences"]]

        def auto(si, ui, u):
            out = {}
            if code_of(u) == SEQ_HDR and MV not in explicit_leaves(u):
                out[MV] = reqs[si]
            tp = tp_prefix(u)
            c = ctxs[si][ui]
            if tp is not None and c is not None and c[1] and c[0] < 3:
                out[None] = [p for p in u["f"] if p.startswith(tp + ETP)]  # documented removal
            return out

        compare_in_place(spec, stream, auto, "major-version", "autofill_major_version")
    except Fail as e:
        e.detail.setdefault("required_versions", [seq_version(seq) for seq in spec["sequences"]])
        R.report(e.clause, e.what, {"function": "autofill_major_version", "stream": spec, "family": tag}, e.detail)


def representative_sequences():
    eos = {"f": {PC: EOS}}
    sym = {"asym_transform_index_flag": True, "wavelet_index_ho": 4, "asym_transform_flag": True, "dwt_depth_ho": 0}
    S = [
        [hdr_unit(0, AUTO_S), eos],                                                        # 1
        [hdr_unit(0, None)] + picture_units("ld", None, None) + [eos],                     # 1
        [hdr_unit(0, AUTO_S)] + picture_units("ld", None, sym) + [eos],                    # 1, ETP dropped
        [hdr_unit(3, AUTO_S), eos],                                                        # 2
        [hdr_unit(None, None)] + picture_units("hq", 1, None) + [eos],                     # 2 (default profile)
        [hdr_unit(3, AUTO_S)] + picture_units("hq", None, sym) + [eos],                    # 2, ETP dropped
        [hdr_unit(3, AUTO_S)] + picture_units("hqfrag", None, None) + [eos],               # 3 fragments
        [hdr_unit(0, None)] + picture_units("ldfrag", None, sym) + [eos],                  # 3 fragments, ETP kept
        [hdr_unit(0, AUTO_S, {VP + "frame_rate.custom_frame_rate_flag": True, VP + "frame_rate.index": 12}), eos],  # 3 preset
        [hdr_unit(3, None)] + picture_units("hq", None, {"asym_transform_flag": True, "dwt_depth_ho": 1}) + [eos],  # 3 asymmetric
        [hdr_unit(0, AUTO_S)] + picture_units("ld", 2, {"asym_transform_index_flag": True}) + [eos],               # 3 (default ho filter differs)
        [hdr_unit(0, 3)] + picture_units("ld", None, sym) + [eos],                         # explicit 3: nothing changes
        [hdr_unit(3, 1), eos],                                                             # explicit 1: nothing changes
        [eos],                                                                             # no header at all
    ]
    return S


def check_major_version(rep, R, tier, seed):
    T = _load()
    evals = 0
    eos = {"f": {PC: EOS}}
    patoms = preset_atoms()
    pics_small = [[], picture_units("ld", None, None), picture_units("hq", None, None), picture_units("hqfrag", None, None),
                  picture_units("hq", 1, {"asym_transform_index_flag": True, "wavelet_index_ho": 1, "asym_transform_flag": True, "dwt_depth_ho": 0})]
    presets_small = [{}, {VP + "signal_range.custom_signal_range_flag": True, VP + "signal_range.index": 4},
                     {VP + "color_spec.custom_color_spec_flag": True, VP + "color_spec.index": 0, VP + "color_spec.transfer_function.custom_transfer_function_flag": True,
                      VP + "color_spec.transfer_function.index": 5}]
    # family 1: presets
    for profile in (None, 0, 3):
        for mv in (None, AUTO_S):
            for pa in patoms:
                for pics in pics_small:
                    if R.full("major-version"):
                        break
                    evals += 1
                    check_version_spec(T, R, {"sequences": [[hdr_unit(profile, mv, pa)] + [{"f": dict(u["f"])} for u in pics] + [eos]]}, "presets")
    n1 = evals
    # family 2: transforms
    for profile in (None, 0, 3):
        for mv in (None, AUTO_S):
            for kind in ("ld", "hq", "ldfrag", "hqfrag"):
                for wi in (None, 1, 4):
                    wi_eff = wi if wi is not None else D("TransformParameters", "wavelet_index")
                    for etp in etp_atoms(wi_eff):
                        for pa in presets_small:
                            if R.full("major-version"):
                                break
                            evals += 1
                            check_version_spec(T, R, {"sequences": [[hdr_unit(profile, mv, pa)] + picture_units(kind, wi, etp) + [eos]]}, "transforms")
    n2 = evals - n1
    # family 3: multi-sequence streams: the version is a per-sequence quantity
    S = representative_sequences()
    copy = lambda seq: [{"f": dict(u["f"])} for u in seq]  # noqa: E731
    for k in (2, 3):
        for combo in itertools.product(range(len(S)), repeat=k):
            if R.full("major-version"):
                break
            evals += 1
            check_version_spec(T, R, {"sequences": [copy(S[i]) for i in combo]}, "multi-sequence")
    n3 = evals - n1 - n2
    # family 4: several headers in one sequence, explicit and automatic mixed (ETP is dropped only under an automatic header)
    sym = {"asym_transform_index_flag": False, "asym_transform_flag": True, "dwt_depth_ho": 0}
    for mvs in itertools.product((None, AUTO_S, 3), repeat=2):
        for profile in (0, 3):
            for tail in ([], picture_units("hqfrag", None, sym)):
                evals += 1
                units = []
                for mv in mvs:
                    units.append(hdr_unit(profile, mv))
                    units += picture_units("hq" if profile == 3 else "ld", None, sym)
                check_version_spec(T, R, {"sequences": [units + [{"f": dict(u["f"])} for u in tail] + [eos]]}, "mixed-headers")
    n4 = evals - n1 - n2 - n3
    # family 5: seeded random multi-feature headers and pictures, 1..3 sequences
    rng = random.Random("C07-V-%d" % seed)
    N = 1500 if tier == "quick" else 20000
    for _ in range(N):
        if R.full("major-version"):
            break
        seqs = []
        for _s in range(rng.randint(1, 3)):
            extra = {}
            for _k in range(rng.randint(0, 3)):
                extra.update(rng.choice(patoms))
            units = [hdr_unit(rng.choice([None, 0, 3]), rng.choice([None, AUTO_S, AUTO_S, 3]), extra)]
            etp_ok = units[0]["f"].get(MV, AUTO_S) == AUTO_S or units[0]["f"][MV] >= 3
            for _p in range(rng.randint(0, 2)):
                wi = rng.choice([None, 0, 4, 6])
                wi_eff = wi if wi is not None else D("TransformParameters", "wavelet_index")
                units += picture_units(rng.choice(["ld", "hq", "ld", "hq", "ldfrag", "hqfrag"]), wi, rng.choice(etp_atoms(wi_eff)) if etp_ok else None)
            seqs.append(units + [eos])
        evals += 1
        check_version_spec(T, R, {"sequences": seqs}, "random")
    rep.add_bounded("V: autofill_major_version against the (11.2.2) oracle, frame condition included",
                    "exhaustive: {profile omitted, LD, HQ} x {major_version omitted, AUTO} x 172 preset atoms (each preset kind x flag True/False/omitted x index omitted/"
                    "last v2/first v3/last; colour parts under 5 colour-spec contexts) x 5 picture atoms (%d); x 4 picture kinds x 3 wavelets x 27 extended-transform atoms x 3 "
                    "preset atoms (%d); all ordered pairs and triples of 14 representative sequences (%d); 2 headers {omitted, AUTO, explicit 3}^2 x 2 profiles x 2 tails (%d); "
                    "plus %d seeded random multi-feature streams of 1..3 sequences" % (n1, n2, n3, n4, evals - n1 - n2 - n3 - n4),
                    evals, False, distinct=evals, samples=[{"sequences": [["hdr(LD, AUTO)", "ld picture + symmetric ETP", "eos"], ["hdr(HQ, AUTO)", "hq fragments", "eos"]], "expected": [1, 3]}])


# ------------------------------------------------------------------------------------------------ clause S (exhaustive part): padding / auxiliary layouts
def check_layouts(rep, R, tier):
    """All streams of one or two sequences [header?, k data units of padding/auxiliary with payload lengths from a
    small set, end of sequence] with every offset omitted: offsets against positions recomputed from the lengths."""
    lens = [None, 0, 1, 5] if tier == "quick" else [None, 0, 1, 2, 5, 300]
    evals = 0
    kinds = [(c, n) for c in (AUX, PAD) for n in lens]
    seqs = []
    for k in (0, 1, 2):
        for combo in itertools.product(kinds, repeat=k):
            seqs.append(combo)
    streams = [[s] for s in seqs] + [[a, b] for a in seqs for b in seqs if len(a) + len(b) <= (3 if tier == "quick" else 4)]
    for st in streams:
        if R.full("offsets"):
            break
        spec = {"sequences": []}
        sizes = []
        for combo in st:
            units = []
            sz = []
            for (c, n) in combo:
                f = {PC: c}
                if n is not None:
                    f[("auxiliary_data" if c == AUX else "padding") + ".bytes"] = ["bytes", n, 3]
                units.append({"f": f})
                sz.append(13 + (n or 0))
            units.append({"f": {}})
            sz.append(13)
            spec["sequences"].append(units)
            sizes.append(sz)
        evals += 1
        try:
            data = check_end_to_end(spec)
            # independent of the deserialiser: walk the bytes with the sizes known from the description
            pos = 0
            for sz in sizes:
                for i, n in enumerate(sz):
                    nxt = int.from_bytes(data[pos + 5: pos + 9], "big")
                    prv = int.from_bytes(data[pos + 9: pos + 13], "big")
                    want_n = 0 if i == len(sz) - 1 else n
                    want_p = 0 if i == 0 else sz[i - 1]
                    if data[pos: pos + 4] != b"BBCD" or nxt != want_n or prv != want_p:
                        raise Fail("offsets", "parse offsets in the output bytes differ from the sizes of the data units", position=pos,
                                   expected=[want_n, want_p], observed=[nxt, prv])
                    pos += n
            if pos != len(data):
                raise Fail("offsets", "output length differs from the sum of the data unit sizes", expected=pos, observed=len(data))
        except Fail as e:
            R.report(e.clause, e.what, {"function": "autofill_and_serialise_stream", "stream": spec}, e.detail)
    rep.add_bounded("S3 (exhaustive part): parse offsets of padding / auxiliary layouts read from the raw output bytes",
                    "exhaustive: streams of 1..2 sequences of 0..2 auxiliary/padding units (payload omitted or of %s bytes) closed by an all-default data unit, every offset omitted"
                    % ", ".join(str(x) for x in lens if x is not None), evals, True, distinct=evals,
                    samples=[{"sequences": [[["padding", 5], ["auxiliary", None], "eos"], ["eos"]]}])


# ------------------------------------------------------------------------------------------------ replay of a recorded case
def replay(inputs):
    """Re-run a recorded violation: `inputs` is the 'inputs' object of a replay file.  Returns None if the case now
    satisfies the statement, else (clause, what, detail)."""
    T = _load()
    spec, fn = inputs["stream"], inputs["function"]

    class Once(object):
        got = None

        def full(self, clause):
            return False

        def report(self, clause, what, inputs, detail):
            self.got = (clause, what, detail)

    R = Once()
    if fn == "autofill_major_version":
        check_version_spec(T, R, spec, "replay")
        return R.got
    if fn == "autofill_picture_number":
        stream = build_stream(spec)
        T.af.autofill_picture_number(stream)
        exp = [expected_picture_numbers(seq) for seq in spec["sequences"]]
        try:
            compare_in_place(spec, stream, lambda si, ui, u: ({} if pn_path(u) is None or pn_path(u) in explicit_leaves(u) else {pn_path(u): exp[si][ui]}),
                             "picture-number", fn)
        except Fail as e:
            return (e.clause, e.what, e.detail)
        return None
    try:
        data = check_end_to_end(spec)
        if "decoder" in fn:
            check_validator(spec, data)
    except Fail as e:
        return (e.clause, e.what, e.detail)
    return None


# ------------------------------------------------------------------------------------------------ the hook
def check(rep, tier, seed):
    _load()
    R = Reporter(rep)
    check_tables(rep)
    check_picture_numbers(rep, R, tier)
    check_major_version(rep, R, tier, seed)
    check_layouts(rep, R, tier)

    n_free, n_valid = (4000, 1600) if tier == "quick" else (60000, 24000)
    chunk = 200 if tier == "quick" else 1500
    jobs = [("free", seed, s, min(chunk, n_free - s)) for s in range(0, n_free, chunk)] + [("valid", seed, s, min(chunk, n_valid - s)) for s in range(0, n_valid, chunk)]
    results = run_pool(jobs)
    for mode, n, title, dom in (
        ("free", n_free, "S: autofill_and_serialise_stream end to end (explicit values, defaults, offsets, picture numbers, versions on the deserialised output)",
         "seeded random: %d stream descriptions of 0..3 sequences; unit lists drawn from {picture, fragmented picture, padding, auxiliary, repeated header}; every field "
         "independently omitted / AUTO / explicit (offsets incl. 0 and 2^32-1, picture numbers incl. 2^32-1 and 2^32-2, versions 1..4, every preset index, asymmetric and "
         "flagged-but-symmetric transforms, explicit slices, payloads of 0..70000 bytes, omitted parse codes / containers, incomplete fragmented pictures)"),
        ("valid", n_valid, "X: autofilled valid streams are accepted by the validator (offset, picture-number and version rules), S oracles applied as well",
         "seeded random: %d valid stream descriptions of 1..3 sequences (frames and fields, LD and HQ, whole and fragmented pictures, repeated headers, padding/auxiliary "
         "data, every preset index, asymmetric transforms, first picture number explicit incl. 2^32-1) with offsets / later picture numbers / versions left to autofill")):
        rs = [r for j, r in zip(jobs, results) if j[0] == mode]
        feats = {}
        for r in rs:
            for k, v in r["features"].items():
                feats[k] = feats.get(k, 0) + v
            for fl in r["fails"]:
                R.report(fl["clause"], fl["what"], {"function": "autofill_and_serialise_stream" + (" + decoder.parse_stream" if fl["clause"] == "validator" else ""),
                                                    "stream": fl["stream"], "generator": {"mode": mode, "seed": seed, "index": fl["index"]}}, fl["detail"])
        inconclusive = {}
        for r in rs:
            for k, v in r["inconclusive"].items():
                inconclusive[k] = inconclusive.get(k, 0) + v
        n_inc = sum(inconclusive.values())
        if n_inc * 5 > n:
            raise RuntimeError("C07 clause X would be vacuous: the validator rejects %d of %d generated 'valid' streams for reasons unrelated to offsets / "
                               "picture numbers / versions: %r" % (n_inc, n, inconclusive))
        note = None
        if n_inc:
            note = "%d streams inconclusive for the validator cross-check (rejected by rules unrelated to this property: %r); the S oracles were still applied" % (n_inc, inconclusive)
        rep.add_bounded(title, dom % n, sum(r["count"] for r in rs) - (n_inc if mode == "valid" else 0), False, distinct=sum(r["distinct"] for r in rs),
                        samples=[{"data_units_total": sum(r["units"] for r in rs), "streams_with_feature": dict(sorted(feats.items()))}], note=note)


REGISTER = {
    "C07": dict(
        extra=[check],
        level="other",
        assumptions=[
            "BOUNDED (not proved): autofill_picture_number and autofill_major_version are checked exhaustively only over the stated unit alphabets / feature atoms and "
            "sequence lengths; autofill_and_serialise_stream only on the stated numbers of seeded random descriptions plus an exhaustive family of padding/auxiliary layouts",
            "TRUSTED: the version thresholds pinned in bounded/c07_autofill.py from ST 2042-1:2017 (11.2.2) (first v3-only preset indices 12/5/5/4/4/4; fragments and asymmetric "
            "transforms need 3; the high-quality profile needs 2)",
            "TRUSTED: vc2_default_values (vc2_fixeddicts) IS the documented default table; the bitstream Deserialiser (vc2_conformance.bitstream.vc2 + serdes) is used to observe the "
            "output - its data-unit offsets are cross-checked against the parse-info prefixes and parse codes in the raw bytes, and an exhaustive padding/auxiliary family is read "
            "from the raw bytes without it",
            "domain: descriptions that can be serialised - each sequence ends with one end-of-sequence unit, pictures come after a sequence header, explicit payload / list lengths "
            "fit, no extended transform parameters under an explicit major_version below 3, a later fragment only inside a fragmented picture with explicit picture numbers "
            "consistent within the picture; preset indices stay inside the live enums",
            "documented exception to 'explicit values unchanged': extended transform parameters are dropped when the major_version in force was automatic and is below 3",
        ],
        manifest=dict(
            category="other",
            technique="bounded contract checking by execution: exhaustive small scope on autofill_picture_number / autofill_major_version with an independent (statement / ST 2042-1) "
                      "oracle and frame condition; seeded random end-to-end serialise -> deserialise comparison; cross-check against the validator; ground facts over the live default "
                      "and version tables",
            text="Explicit values survive autofill and serialisation unchanged; omitted fields hold the documented defaults; automatic next/previous parse offsets equal the byte "
                 "distances between parse-info headers (0 at the sequence ends); automatic picture numbers continue from the previous picture, restart per sequence, wrap at 2^32 and "
                 "repeat across fragments; an automatic major_version equals the per-sequence minimum of (11.2.2); autofilled valid streams pass the validator's offset, "
                 "picture-number and version rules.",
            note="Bounded stand-in only (never 'proved'): exhaustive up to the stated sequence lengths / feature atoms, sampled beyond.  The oracle reads the documented defaults from "
                 "the live vc2_default_values table and pins the (11.2.2) thresholds from the standard.",
        ),
    )
}
