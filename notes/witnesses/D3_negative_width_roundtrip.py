import io as _io, struct
from vc2_conformance.bitstream import Deserialiser, Serialiser, BitstreamReader, BitstreamWriter, parse_stream, vc2_default_values
from vc2_conformance.pseudocode.state import State
def pi(code, nxt, prev):
    return b"BBCD"+bytes([code])+struct.pack(">II",nxt,prev)
def rt(b):
    r=BitstreamReader(_io.BytesIO(b))
    with Deserialiser(r) as d:
        parse_stream(d, State())
    ctx=d.context
    f=_io.BytesIO(); w=BitstreamWriter(f)
    try:
        with Serialiser(w, ctx, vc2_default_values) as s:
            parse_stream(s, State())
        w.flush()
        print("roundtrip equal:", f.getvalue()==b)
    except Exception as e:
        print("serialise failed:", type(e).__name__, e)
rt(pi(0x30, 0, 0)+pi(0x10,0,13))      # padding with next_parse_offset 0
rt(pi(0x30, 13, 0)+pi(0x10,0,13))
rt(pi(0x30, 5, 0)+pi(0x10,0,13))
