"""C20 (serialiser side): contracts for vc2_conformance.bitstream.io.BitstreamWriter.

Abstract view: wview(self) = the file's bytes with the partially written byte `_current_byte`
overlaid at `_byte_offset`; the writer's position on that tape is wpos(self) = 8*_byte_offset+7-_next_bit.
Every write operation is specified by what the *readers' spec functions* (tbit / bitsval / ue_val /
ue_end of c20_common) evaluate to on the new view, plus a frame: all tape bits before the write
position are unchanged.
"""
from pyvc.api import *
from contracts.c20_common import *
from vc2_conformance.bitstream.exceptions import OutOfRangeError

W = "vc2_conformance.bitstream.io.BitstreamWriter."
register_class("BitstreamWriter", "vc2_conformance.bitstream.io.BitstreamWriter")
WRITER = "obj:BitstreamWriter"

fields(
    _file="ref:file",
    _next_bit="int",
    _byte_offset="int",
    _current_byte="optint",
    _bits_remaining="optint",
    fpos="int",
)


@inline
def wpos(self):
    return 8 * self._byte_offset + 7 - self._next_bit


@inline
def wview(self):
    return store(content(self._file), self._byte_offset, self._current_byte)


@inline
def winv(self):
    return (
        0 <= self._next_bit and self._next_bit <= 7 and self._byte_offset >= 0
        and fpos(self._file) == self._byte_offset
        and self._current_byte is not None and 0 <= self._current_byte and self._current_byte <= 255
    )


@inline
def wbounded(self):
    return self._bits_remaining is not None


@inline
def wlimit(self):
    return wpos(self) + imax0(self._bits_remaining)


@inline
def same_before(c1, c2, p):
    """The two tapes agree on every bit before position p."""
    return forall(0, p, lambda q: tbit(c1, q) == tbit(c2, q), trigger=lambda q: tbit(c1, q))


FRAME_W = ["self._next_bit", "self._byte_offset", "self._current_byte", "self._bits_remaining",
           "self._file.fpos", "elems(self._file)", "length(self._file)"]
COMMON_W = [
    "winv(self)",
    "self._file == old(self._file)",
    "wbounded(self) == old(wbounded(self))",
    "implies(wbounded(self), wlimit(self) == old(wlimit(self)))",
    "same_before(wview(self), old(wview(self)), old(wpos(self)))",
    "wpos(self) >= old(wpos(self))",
]


@spec(W + "__init__")
class _w_init:
    args = {"self": WRITER, "file": "file"}
    requires = ["fpos(file) >= 0"]
    modifies = ["self._file", "self._next_bit", "self._byte_offset", "self._current_byte", "self._bits_remaining"]
    raises = {}
    ensures = ["winv(self)", "self._file == file", "wpos(self) == 8 * fpos(file)", "not wbounded(self)", "self._current_byte == 0"]


@spec(W + "_write_byte")
class _w_write_byte:
    args = {"self": WRITER}
    requires = ["self._byte_offset >= 0 and fpos(self._file) == self._byte_offset",
                "self._current_byte is not None and 0 <= self._current_byte and self._current_byte <= 255"]
    modifies = ["self._next_bit", "self._byte_offset", "self._current_byte", "self._file.fpos", "elems(self._file)", "length(self._file)"]
    raises = {}
    ensures = [
        "winv(self)",
        "self._next_bit == 7 and self._current_byte == 0",
        "self._byte_offset == old(self._byte_offset) + 1",
        "content(self._file) == store(old(content(self._file)), old(self._byte_offset), old(self._current_byte))",
        "self._file == old(self._file)",
    ]


@spec(W + "tell")
class _w_tell:
    args = {"self": WRITER}
    result = "tuple:int,int"
    requires = ["winv(self)"]
    modifies = []
    raises = {}
    ensures = ["8 * result[0] + 7 - result[1] == wpos(self)", "0 <= result[1] and result[1] <= 7"]


@spec(W + "bounded_block_begin")
class _w_bbb:
    args = {"self": WRITER, "length": "int"}
    requires = ["winv(self)"]
    modifies = ["self._bits_remaining"]
    raises = {"Exception": "wbounded(self)"}
    raises_exact = True
    ensures = ["wbounded(self)", "self._bits_remaining == length", "winv(self)"]


@spec(W + "bounded_block_end")
class _w_bbe:
    args = {"self": WRITER}
    result = "int"
    requires = ["winv(self)"]
    modifies = ["self._bits_remaining"]
    raises = {"Exception": "not wbounded(self)"}
    raises_exact = True
    ensures = ["not wbounded(self)", "result == imax0(old(self._bits_remaining))", "result == old(wlimit(self)) - wpos(self)", "winv(self)"]


BIT_UPDATES = ['use("bit_update", self._current_byte, self._next_bit, 0 if value == 0 else 1, %d)' % j for j in range(8)]


@spec(W + "write_bit")
class _w_write_bit:
    args = {"self": WRITER, "value": "int"}
    requires = ["winv(self)"]
    modifies = FRAME_W
    raises = {"ValueError": "wbounded(self) and self._bits_remaining <= 0 and value == 0"}
    raises_exact = True
    ensures = COMMON_W + [
        # inside the block (or unbounded): exactly one bit is appended to the tape
        "implies(not old(wbounded(self)) or old(self._bits_remaining) >= 1, "
        "wpos(self) == old(wpos(self)) + 1 and tbit(wview(self), old(wpos(self))) == (0 if value == 0 else 1))",
        # past the end of a bounded block: a 1 is accepted and nothing is written
        "implies(old(wbounded(self)) and old(self._bits_remaining) <= 0, wpos(self) == old(wpos(self)) and wview(self) == old(wview(self)))",
        "implies(old(wbounded(self)), self._bits_remaining == old(self._bits_remaining) - 1)",
    ]
    ghost = {
        "entry": ["define(tbit)", 'use("clear_bit", self._current_byte, self._next_bit)',
                  'use("set_bit", self._current_byte - (pow2(self._next_bit) if bitof(self._current_byte, self._next_bit) == 1 else 0), self._next_bit)',
                  'use("pow2_small", self._next_bit)'] + BIT_UPDATES,
    }


@inline
def fits(self, n):
    """The next n bits are all written for real (not swallowed by the end of a bounded block)."""
    return not wbounded(self) or self._bits_remaining >= imax0(n)


@spec(W + "write_nbits")
class _w_write_nbits:
    args = {"self": WRITER, "bits": "int", "value": "int"}
    requires = ["winv(self)"]
    modifies = FRAME_W
    raises = {"OutOfRangeError": "value < 0 or blen(value) > bits", "ValueError": "wbounded(self) and not fits(self, bits)"}
    raises_exact = ["OutOfRangeError"]
    ensures = COMMON_W + [
        "implies(old(fits(self, bits)), wpos(self) == old(wpos(self)) + imax0(bits) and bitsval(wview(self), old(wpos(self)), bits) == value)",
        "implies(old(wbounded(self)) and old(fits(self, bits)), self._bits_remaining == old(self._bits_remaining) - imax0(bits))",
    ]
    invariants = {
        1: [
            "winv(self)", "self._file == old(self._file)", "wbounded(self) == old(wbounded(self))",
            "implies(wbounded(self), wlimit(self) == old(wlimit(self)))",
            "same_before(wview(self), old(wview(self)), old(wpos(self)))",
            "0 <= value and value < pow2(bits) and bits >= 0",
            "wpos(self) >= old(wpos(self))",
            "implies(old(fits(self, bits)), wpos(self) == old(wpos(self)) + (bits - 1 - i) "
            "and bitsval(wview(self), old(wpos(self)), bits - 1 - i) == value // pow2(i + 1))",
            "implies(old(wbounded(self)) and old(fits(self, bits)), self._bits_remaining == old(self._bits_remaining) - (bits - 1 - i))",
        ]
    }
    ghost = {
        "entry": ['use("blen_bound", value, bits)', 'use("blen_def", value)', 'use("pow2_small", bits)',
                  "unfold(bitsval, wview(self), wpos(self), 0)", "unfold(bitsval, wview(self), wpos(self), bits)",
                  'use("div_def", value, pow2(bits))'],
        "loop1.body_start": ["(g_V1 := wview(self))", "(g_k := bits - 1 - i)"],
        "loop1.body_end": [
            "bitsval_ext(wview(self), g_V1, old(wpos(self)), g_k) if old(fits(self, bits)) else None",
            "unfold(bitsval, wview(self), old(wpos(self)), g_k + 1)",
            'use("bitof_def", value, i)', 'use("pow2_step", i)', 'use("pow2_small", i)',
        ],
    }


@spec(W + "write_uint_lit")
class _w_write_uint_lit:
    args = {"self": WRITER, "num_bytes": "int", "value": "int"}
    requires = ["winv(self)"]
    modifies = FRAME_W
    raises = {"OutOfRangeError": "value < 0 or blen(value) > 8 * num_bytes", "ValueError": "wbounded(self) and not fits(self, 8 * num_bytes)"}
    raises_exact = ["OutOfRangeError"]
    ensures = COMMON_W + [
        "implies(old(fits(self, 8 * num_bytes)), wpos(self) == old(wpos(self)) + imax0(8 * num_bytes) "
        "and bitsval(wview(self), old(wpos(self)), 8 * num_bytes) == value)",
    ]


@inline
def eg_len(v):
    """Length in bits of the unsigned exp-Golomb code of v >= 0 (same term as exp_golomb_length computes)."""
    return (blen(v + 1) - 1) * 2 + 1


@spec(W + "write_uint")
class _w_write_uint:
    args = {"self": WRITER, "value": "int"}
    requires = ["winv(self)"]
    modifies = FRAME_W
    raises = {"OutOfRangeError": "value < 0", "ValueError": "wbounded(self) and not fits(self, eg_len(value))"}
    raises_exact = ["OutOfRangeError"]
    ensures = COMMON_W + [
        "implies(old(fits(self, eg_len(value))), wpos(self) == old(wpos(self)) + eg_len(value) and ue_pattern(wview(self), old(wpos(self)), value))",
        "implies(old(fits(self, eg_len(value))), ue_val(wview(self), old(wpos(self)), 1) == value and ue_end(wview(self), old(wpos(self))) == wpos(self))",
        "implies(old(wbounded(self)) and old(fits(self, eg_len(value))), self._bits_remaining == old(self._bits_remaining) - eg_len(value))",
    ]
    invariants = {
        1: [
            "winv(self)", "self._file == old(self._file)", "wbounded(self) == old(wbounded(self))",
            "implies(wbounded(self), wlimit(self) == old(wlimit(self)))",
            "same_before(wview(self), old(wview(self)), old(wpos(self)))",
            "wpos(self) >= old(wpos(self))",
            "value == old(value) + 1 and value >= 1 and blen(value) >= 1 and -1 <= i and i <= blen(value) - 2",
            "implies(old(fits(self, eg_len(value))), wpos(self) == old(wpos(self)) + 2 * (blen(value) - 2 - i) "
            "and pairs_ok(wview(self), old(wpos(self)), value, blen(value), blen(value) - 2 - i) == 1)",
            "implies(old(wbounded(self)) and old(fits(self, eg_len(value))), self._bits_remaining == old(self._bits_remaining) - 2 * (blen(value) - 2 - i))",
        ]
    }
    ghost = {
        "entry": ['use("blen_def", value + 1)', "unfold(pairs_ok, wview(self), wpos(self), value + 1, blen(value + 1), 0)"],
        "loop1.body_start": ["(g_V1 := wview(self))", "(g_k := blen(value) - 2 - i)"],
        "loop1.body_end": [
            "pairs_ok_ext(wview(self), g_V1, old(wpos(self)), value, blen(value), g_k) if old(fits(self, eg_len(value))) else None",
            "unfold(pairs_ok, wview(self), old(wpos(self)), value, blen(value), g_k + 1)",
            'use("bitof_def", value, i)',
        ],
        "loop1.after": ["(g_V2 := wview(self))"],
        "exit": [
            "pairs_ok_ext(wview(self), g_V2, old(wpos(self)), old(value) + 1, blen(old(value) + 1), blen(old(value) + 1) - 1) if old(fits(self, eg_len(value))) else None",
            "ue_pattern_decodes(wview(self), old(wpos(self)), old(value)) if old(fits(self, eg_len(value))) else None",
        ],
    }


@spec(W + "write_sint")
class _w_write_sint:
    args = {"self": WRITER, "value": "int"}
    requires = ["winv(self)"]
    modifies = FRAME_W
    raises = {"ValueError": "wbounded(self) and not fits(self, 1 if value == 0 else eg_len(abs(value)) + 1)"}
    ensures = COMMON_W + [
        "implies(value == 0 and old(fits(self, 1)), wpos(self) == old(wpos(self)) + 1 and ue_pattern(wview(self), old(wpos(self)), 0))",
        "implies(value != 0 and old(fits(self, eg_len(abs(value)) + 1)), wpos(self) == old(wpos(self)) + eg_len(abs(value)) + 1 "
        "and ue_pattern(wview(self), old(wpos(self)), abs(value)) "
        "and tbit(wview(self), wpos(self) - 1) == (1 if value < 0 else 0))",
    ]
    ghost = {
        "after_stmt1": ["(g_V2 := wview(self))"],
        "exit": ['use("blen_def", abs(old(value)) + 1)', 'use("pow2_small", 0)',
                 "ue_pattern_ext(wview(self), g_V2, old(wpos(self)), abs(old(value))) if old(value) != 0 and old(fits(self, eg_len(abs(value)) + 1)) else None"],
    }


@spec(W + "flush")
class _w_flush:
    args = {"self": WRITER}
    requires = ["winv(self)"]
    modifies = ["self._file.fpos", "elems(self._file)", "length(self._file)"]
    raises = {}
    ensures = [
        "winv(self)", "wview(self) == old(wview(self))", "wpos(self) == old(wpos(self))",
        # every bit written so far is now in the file itself
        "same_before(content(self._file), wview(self), wpos(self))",
        "implies(old(self._next_bit) != 7, content(self._file) == old(wview(self)))",
    ]
    ghost = {"entry": ["define(tbit)"]}


@spec(W + "seek")
class _w_seek:
    args = {"self": WRITER, "bytes": "int", "bits": "int"}
    requires = ["winv(self)", "0 <= bits and bits <= 7", "bytes >= 0"]
    modifies = FRAME_W
    raises = {"Exception": "wbounded(self) and 8 * bytes + 7 - bits > wpos(self) and self._bits_remaining - (8 * bytes + 7 - bits - wpos(self)) < 0"}
    raises_exact = True
    ensures = [
        "winv(self)", "self._file == old(self._file)",
        "wpos(self) == 8 * bytes + 7 - bits",
        "self._current_byte == 0",
        "wbounded(self) == old(wbounded(self))",
        # the end of the bounded block stays where it was
        "implies(wbounded(self), wlimit(self) == old(wlimit(self)))",
        # what had been written is committed to the file
        "same_before(content(self._file), old(wview(self)), old(wpos(self)))",
    ]
    ghost = {"entry": ["define(tbit)"]}


# ---- native generators (replay / bounded stand-in) ------------------------------------------------


def gen_writer(rng):
    import io
    from vc2_conformance.bitstream.io import BitstreamWriter

    f = io.BytesIO(bytes(rng.randrange(256) for _ in range(rng.randint(0, 4))))
    f.seek(rng.randint(0, len(f.getvalue())))
    w = BitstreamWriter(f)
    for _ in range(rng.randint(0, 11)):
        w.write_bit(rng.randint(0, 1))
    if rng.random() < 0.5:
        w.bounded_block_begin(rng.randint(-2, 24))
        for _ in range(rng.randint(0, 4)):
            w.write_bit(1)
    return w


def gen_file(rng):
    import io

    f = io.BytesIO(bytes(rng.randrange(256) for _ in range(rng.randint(0, 5))))
    f.seek(rng.randint(0, len(f.getvalue())))
    return f


def gen_bits_or_bytes(rng):
    n = rng.randint(0, 6)
    if rng.random() < 0.5:
        return [rng.randint(0, 1) for _ in range(n)]
    return [rng.choice([0, 255, 128, 1, rng.randrange(256)]) for _ in range(n)]


GENERATORS = {"obj:BitstreamWriter": gen_writer, "file": gen_file, "list:int": gen_bits_or_bytes,
              "param:bits": lambda rng: rng.choice([rng.randint(-2, 12), rng.randint(0, 40)]),
              "param:num_bytes": lambda rng: rng.randint(-2, 7)}


# ---- bit arrays: write_bitarray (two loops over write_bit) -----------------------------------------------------------------


@spec(W + "write_bitarray")
class _w_write_bitarray:
    """`value` is a bitarray: modelled as a list of 0/1 (TRUSTED: iterating a bitarray yields its bits as 0/1 in order, len() is their number)."""
    args = {"self": WRITER, "bits": "int", "value": "list:int"}
    requires = ["winv(self)", "self._file != value",
                "forall(0, length(value), lambda j: content(value)[j] == 0 or content(value)[j] == 1, trigger=lambda j: content(value)[j])"]
    modifies = FRAME_W
    raises = {"OutOfRangeError": "length(value) > bits", "ValueError": "wbounded(self) and not fits(self, bits)"}
    raises_exact = ["OutOfRangeError"]
    ensures = COMMON_W + [
        # inside the block (or unbounded): exactly `bits` bits are appended - the array's bits, then zeros
        "implies(old(fits(self, bits)), wpos(self) == old(wpos(self)) + imax0(bits))",
        "implies(old(fits(self, bits)), forall(0, length(value), lambda j: tbit(wview(self), old(wpos(self)) + j) == content(value)[j], "
        "trigger=lambda j: content(value)[j]))",
        "implies(old(fits(self, bits)), forall(old(wpos(self)) + length(value), old(wpos(self)) + bits, lambda q: tbit(wview(self), q) == 0, "
        "trigger=lambda q: tbit(wview(self), q)))",
        "implies(old(wbounded(self)) and old(fits(self, bits)), self._bits_remaining == old(self._bits_remaining) - imax0(bits))",
    ]
    invariants = {
        1: [
            "winv(self)", "self._file == old(self._file)", "self._file != value", "wbounded(self) == old(wbounded(self))",
            "implies(wbounded(self), wlimit(self) == old(wlimit(self)))",
            "same_before(wview(self), old(wview(self)), old(wpos(self)))", "wpos(self) >= old(wpos(self))",
            "0 <= _k and _k <= length(value) and length(value) <= bits and length(value) == old(length(value)) and content(value) == old(content(value))",
            "implies(old(fits(self, bits)), wpos(self) == old(wpos(self)) + _k)",
            "implies(old(fits(self, bits)), forall(0, _k, lambda j: tbit(wview(self), old(wpos(self)) + j) == content(value)[j], trigger=lambda j: content(value)[j]))",
            "implies(old(wbounded(self)), self._bits_remaining == old(self._bits_remaining) - _k)",
        ],
        2: [
            "winv(self)", "self._file == old(self._file)", "self._file != value", "wbounded(self) == old(wbounded(self))",
            "implies(wbounded(self), wlimit(self) == old(wlimit(self)))",
            "same_before(wview(self), old(wview(self)), old(wpos(self)))", "wpos(self) >= old(wpos(self))",
            "length(value) <= _k and _k <= bits and length(value) == old(length(value)) and content(value) == old(content(value))",
            "implies(old(fits(self, bits)), wpos(self) == old(wpos(self)) + _k)",
            "implies(old(fits(self, bits)), forall(0, length(value), lambda j: tbit(wview(self), old(wpos(self)) + j) == content(value)[j], trigger=lambda j: content(value)[j]))",
            "implies(old(fits(self, bits)), forall(old(wpos(self)) + length(value), old(wpos(self)) + _k, lambda q: tbit(wview(self), q) == 0, trigger=lambda q: tbit(wview(self), q)))",
            "implies(old(wbounded(self)), self._bits_remaining == old(self._bits_remaining) - _k)",
        ],
    }


# ---- byte strings: write_bytes (a loop over write_nbits(8, byte), then zero padding) ----------------------------------------


@inline
def bytes_written(view, p, value, k):
    """The first k bytes of `value` stand at p, p+8, ... in the view (each as an 8-bit value, MSB first)."""
    return forall(0, k, lambda j: bitsval(view, p + 8 * j, 8) == content(value)[j], trigger=lambda j: content(value)[j])


@inline
def zero_bytes(view, p, k0, k1):
    """Bytes number k0 .. k1-1 after p are zero."""
    return forall(k0, k1, lambda j: bitsval(view, p + 8 * j, 8) == 0, trigger=lambda j: bitsval(view, p + 8 * j, 8))


@spec(W + "write_bytes")
class _w_write_bytes:
    """`value` is a bytes / bytearray object: a list of integers 0..255 (TRUSTED: bytearray(value) iterates the same bytes)."""
    args = {"self": WRITER, "num_bytes": "int", "value": "list:int"}
    requires = ["winv(self)", "self._file != value",
                "forall(0, length(value), lambda j: 0 <= content(value)[j] and content(value)[j] <= 255, trigger=lambda j: content(value)[j])"]
    modifies = FRAME_W
    raises = {"OutOfRangeError": "length(value) > num_bytes", "ValueError": "wbounded(self) and not fits(self, 8 * num_bytes)"}
    raises_exact = ["OutOfRangeError"]
    ensures = COMMON_W + [
        "implies(old(fits(self, 8 * num_bytes)), wpos(self) == old(wpos(self)) + 8 * imax0(num_bytes))",
        "implies(old(fits(self, 8 * num_bytes)), bytes_written(wview(self), old(wpos(self)), value, length(value)))",
        "implies(old(fits(self, 8 * num_bytes)), zero_bytes(wview(self), old(wpos(self)), length(value), num_bytes))",
        "implies(old(wbounded(self)) and old(fits(self, 8 * num_bytes)), self._bits_remaining == old(self._bits_remaining) - 8 * imax0(num_bytes))",
    ]
    invariants = {
        1: [
            "winv(self)", "self._file == old(self._file)", "self._file != value", "wbounded(self) == old(wbounded(self))",
            "implies(wbounded(self), wlimit(self) == old(wlimit(self)))",
            "same_before(wview(self), old(wview(self)), old(wpos(self)))", "wpos(self) >= old(wpos(self))",
            "0 <= _k and _k <= length(value) and length(value) <= num_bytes and length(value) == old(length(value)) and content(value) == old(content(value))",
            "implies(old(fits(self, 8 * num_bytes)), wpos(self) == old(wpos(self)) + 8 * _k)",
            "implies(old(fits(self, 8 * num_bytes)), bytes_written(wview(self), old(wpos(self)), value, _k))",
            "implies(old(wbounded(self)) and old(fits(self, 8 * num_bytes)), self._bits_remaining == old(self._bits_remaining) - 8 * _k)",
        ],
        2: [
            "winv(self)", "self._file == old(self._file)", "self._file != value", "wbounded(self) == old(wbounded(self))",
            "implies(wbounded(self), wlimit(self) == old(wlimit(self)))",
            "same_before(wview(self), old(wview(self)), old(wpos(self)))", "wpos(self) >= old(wpos(self))",
            "length(value) <= _k and _k <= num_bytes and length(value) == old(length(value)) and content(value) == old(content(value))",
            "implies(old(fits(self, 8 * num_bytes)), wpos(self) == old(wpos(self)) + 8 * _k)",
            "implies(old(fits(self, 8 * num_bytes)), bytes_written(wview(self), old(wpos(self)), value, length(value)))",
            "implies(old(fits(self, 8 * num_bytes)), zero_bytes(wview(self), old(wpos(self)), length(value), _k))",
            "implies(old(wbounded(self)) and old(fits(self, 8 * num_bytes)), self._bits_remaining == old(self._bits_remaining) - 8 * _k)",
        ],
    }
    ghost = {
        "entry": ['use("blen_bound", 0, 8)', 'use("blen_def", 0)'],
        "loop1.body_start": ["(g_Vb := wview(self))", "(g_Pb := wpos(self))", 'use("blen_bound", content(value)[_k], 8)', 'use("pow2_8")'],
        # bytes written earlier lie wholly before the position at which this iteration started writing: unchanged
        "loop1.body_end": ["apply_forall(bitsval_ext, lambda m: (wview(self), g_Vb, old(wpos(self)) + 8 * m, 8), trigger=lambda m: bitsval(wview(self), old(wpos(self)) + 8 * m, 8)) "
                           "if old(fits(self, 8 * num_bytes)) else None"],
        "loop2.body_start": ["(g_Vc := wview(self))"],
        "loop2.body_end": ["apply_forall(bitsval_ext, lambda m: (wview(self), g_Vc, old(wpos(self)) + 8 * m, 8), trigger=lambda m: bitsval(wview(self), old(wpos(self)) + 8 * m, 8)) "
                           "if old(fits(self, 8 * num_bytes)) else None"],
    }
