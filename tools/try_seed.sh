#!/bin/sh
# try_seed.sh <patch.diff> <PID>... : applies the patch to /repo, runs the quick checks, undoes it.
# Evidence and replay files of these runs go to a scratch directory (VERIF_OUT), never to /verif/evidence:
# the committed evidence must always describe the unchanged tree.
P="$(readlink -f "$1")"; shift
[ -z "$(git -C /repo status --porcelain)" ] || { echo "/repo has uncommitted changes; refusing"; exit 2; }
git -C /repo apply "$P" || { echo "patch does not apply"; exit 2; }
OUT="$(mktemp -d /var/tmp/verif-seed.XXXXXX)"
for pid in "$@"; do
  out="$(cd /verif && VERIF_OUT="$OUT" ./verif check "$pid" --tier quick 2>&1)"; rc=$?
  echo "$out" | grep -E "VIOLATION|HELD|KNOWN|UNPROVED|CHECKER|obligation" | head -8
  echo "$pid exit=$rc"
  if [ -f "$OUT/evidence/$pid.json" ]; then
    python3 -c "import json,sys;e=json.load(open(sys.argv[1]));c=e['coverage'];print('  evidence: level=%s obligations=%s discharged=%s violations=%s'%(e['level'],c.get('obligations'),c.get('discharged'),e.get('violations')))" "$OUT/evidence/$pid.json"
  fi
done
git -C /repo checkout -- .
git -C /repo status --short | head -3
rm -rf "$OUT"
