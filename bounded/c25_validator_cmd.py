"""C25 - bounded stand-in: the bitstream validator COMMAND reports verdicts and decoded pictures faithfully.

The command (vc2_conformance.scripts.vc2_bitstream_validator.main, i.e. argument parsing + BitstreamValidator.run
+ _output_picture + file_format.write + _print_conformance_error) is EXECUTED on real files in scratch
directories; exit status, stdout/stderr and the files it leaves behind are observed.  Nothing is proved.

clause -> oracle (written from the property statement / the user guide, not from the script) -> domain

 A  conformant stream => exit status 0
      oracle: streams produced by the project's encoder (make_sequence), by its decoder test-case generators and by
      the bitstream serialiser from hand-written conformant structures are conformant by construction; expected
      status 0 whatever the options (status line on/off, -v) and whatever the output pattern.
 B  one raw/metadata pair per decoded picture, numbered from 0 in decode order (across sequences), nothing else
      oracle: the set of files under the output directory must be exactly {strip_ext(pattern % i) + .raw/.json :
      0 <= i < n}; n = number of pictures handed to the encoder (encoder streams) / number of pictures the decoder
      library itself emits through its output callback on the same bytes (all streams).
      domain: output patterns %d, %03d, %x, no extension, .json extension, dots in stem / in a directory name,
      literal %%, sub-directory, relative to the working directory, the built-in default pattern.
 C  contents equal the decoder's output
      oracle: an independent writer of the documented file format (docs/source/user_guide/file_format.rst: planar
      Y,C1,C2, raster order, little endian, smallest power-of-two number of bytes per sample; JSON with
      picture_number as a string, picture_coding_mode, the 20 video parameters as ints/bool) applied to what the
      decoder library passes to its output callback in a separate run on the same bytes; for LOSSLESS encoder
      streams also applied to the pictures that were given to the encoder (independent of the decoder);
      and the pair read back with file_format.read must return the decoder's output.
      domain: 8/10/16/17/33 bit and 1 bit samples, luma/chroma of different byte widths, 4:4:4 / 4:2:2 / 4:2:0,
      fields, odd sizes, 1x1, picture numbers around 2**31 and wrapping at 2**32, 12 pictures (two digit indices),
      fragments, low delay, multi-sequence streams with different formats.
 D  non-conformant stream => exit status 2 with a located explanation
      oracle for "non-conformant" (from ST 2042-1, independent of the decoder): strict prefixes not ending at a
      sequence boundary; any flipped bit in a parse-info prefix; parse codes outside Table 10.1; wrong non-zero
      next/previous_parse_offset; bytes after the last end of sequence; garbage not starting with 'BBCD'; missing
      sequence header; non-consecutive picture numbers; odd number of fields / field pair starting on an odd
      number; incomplete / out of order fragments; sequence header changing inside a sequence.
      oracle for "located explanation": stdout's first line names a bit offset equal to the offset attached to the
      decoder's ConformanceError (offending_offset(), else the position where the decoder stopped), within
      [0, 8*filesize]; the words of the error's explain() text appear, in order, in stdout.
 E  verdict agrees with the decoder library on arbitrary mutations
      oracle: run decoder.parse_stream on the same bytes in the harness: status 0 iff it returns, 2 iff it raises
      ConformanceError; pictures written before an error are a correctly numbered, correct-content prefix.
      domain: every single-bit flip of small streams, seeded random byte edits / insertions / deletions / splices /
      duplicated or dropped data units, random garbage, and astronomically large numbers (2**20 .. 2**70) in each
      header field of a one-picture stream written bit by bit by this module's own writer (BitWriter, from the
      standard's syntax - also an independent producer of one conformant stream).
 F  never the internal-error status (3), never an uncaught exception (traceback, status 1), always 0 or 2
      checked on every execution of A-E plus degenerate files (empty, 1..16 bytes, all options).
 G  the same through a real process (python -m ...vc2_bitstream_validator): exit statuses and files of a handful
      of the above cases (covers the `sys.exit(main())` glue and a non-tty stdout/stderr).

Bounds: quick tier about 5 000 executions of the command (~15 s on an idle 16-core machine, 40-60 s on a busy one),
thorough about 45 000 (numbers measured and recorded per clause).  All randomness derives from `seed`.  At most 8
worker processes (fork); results aggregated in the parent in generation order, at most 3 violations per clause.
Resource guard (mutated headers may announce gigantic pictures): a mutated input on which the decoder library alone
needs more than REF_CALL_BUDGET Python function entries (counted, hence the same on a busy and an idle machine), a
MemoryError under a 4 GiB address-space limit, or REF_TIME_LIMIT CPU seconds is left out and listed in the evidence
(coverage.c25_executions.skipped_resource_guard); it is never a verdict.  If that happens on an UNmutated corpus stream
the check stops with a checker error.
Known-finding hook: when the decoder library itself raises OverflowError (arithmetic on a huge header value such as
1 << dwt_depth) the two clause-F violations carry known_key 'C25-decoder-OverflowError-on-huge-header-value'; they are
ordinary violations unless /verif/known_findings.json lists that key.
Not covered: unwritable / non-existent output directories and invalid printf templates (the statement presupposes
a usable output location), streams larger than a few kilobytes, the 90 s 'real_pictures' test-case generator,
running time and memory of the command (only its exit status and output).
"""
import io
import json
import os
import random
import contextlib
import resource
import shutil
import signal
import subprocess
import sys
import tempfile
import time

MAX_VIOLATIONS_PER_CLAUSE = 3
WORKERS = 8
REF_CALL_BUDGET = 1500000  # Python function entries the decoder library may need for one (mutated) stream (the largest corpus stream
#                            needs < 100 000); inputs needing more (mutated headers announcing huge pictures) are skipped and counted.
#                            A count, not a time: the decision to skip is the same on a busy and on an idle machine.
REF_TIME_LIMIT = 30.0  # backstop in CPU seconds for work the call count cannot see (long C-level operations)
WORKER_MEMORY_LIMIT = 4 << 30  # address-space limit of a worker (a mutated header may announce gigantic pictures)

OPTION_SETS = [[], ["-q"], ["-v"], ["-q", "-v"], ["--no-status"], ["--quiet", "--verbose"]]

# (pattern relative to the output directory, needs sub-directory or None)
PATTERNS = [
    ("picture_%d.raw", None),
    ("p%d.json", None),
    ("p_%03d.raw", None),
    ("%d.raw", None),
    ("frame_%d", None),
    ("a.b_%d.raw", None),
    ("dir.with.dot/p_%d", "dir.with.dot"),
    ("pct%%_%d.raw", None),
    ("p_%d.tar.raw", None),
    ("n%x.raw", None),
    ("sub/deeper/pic_%d.raw", "sub/deeper"),
    ("with space_%d.raw", None),
]

VALID_PARSE_CODES = {0x00, 0x10, 0x20, 0x30, 0xC8, 0xE8, 0xCC, 0xEC}  # ST 2042-1:2017 Table 10.1

_G = {}  # filled in the parent before the pool forks: corpus + imported entry points


# ======================================================================================================
# Reference implementation of the documented output format (from docs/source/user_guide/file_format.rst)
# ======================================================================================================
def ref_intlog2(n):
    return (n - 1).bit_length()


def ref_components(vp, pcm):
    lw, lh = int(vp["frame_width"]), int(vp["frame_height"])
    cw, ch = lw, lh
    cdf = int(vp["color_diff_format_index"])
    if cdf == 1:
        cw //= 2
    if cdf == 2:
        cw //= 2
        ch //= 2
    if int(pcm) == 1:
        lh //= 2
        ch //= 2
    ld = ref_intlog2(int(vp["luma_excursion"]) + 1)
    cd = ref_intlog2(int(vp["color_diff_excursion"]) + 1)
    return [("Y", lw, lh, ld), ("C1", cw, ch, cd), ("C2", cw, ch, cd)]


def ref_bytes_per_sample(depth):
    n = 1
    while n * 8 < depth:
        n *= 2
    return n


def ref_raw(picture, vp, pcm):
    out = bytearray()
    for comp, _w, _h, depth in ref_components(vp, pcm):
        n = ref_bytes_per_sample(depth)
        for row in picture[comp]:
            for v in row:
                out += int(v).to_bytes(n, "little", signed=False)
    return bytes(out)


def ref_raw_size(vp, pcm):
    return sum(w * h * ref_bytes_per_sample(d) for _c, w, h, d in ref_components(vp, pcm))


VP_KEYS = ["frame_width", "frame_height", "color_diff_format_index", "source_sampling", "top_field_first", "frame_rate_numer",
           "frame_rate_denom", "pixel_aspect_ratio_numer", "pixel_aspect_ratio_denom", "clean_width", "clean_height", "left_offset",
           "top_offset", "luma_offset", "luma_excursion", "color_diff_offset", "color_diff_excursion", "color_primaries_index",
           "color_matrix_index", "transfer_function_index"]


def ref_metadata(picture, vp, pcm):
    return {
        "picture_number": str(int(picture["pic_num"])),
        "picture_coding_mode": int(pcm),
        "video_parameters": {k: (bool(vp[k]) if isinstance(vp[k], bool) else int(vp[k])) for k in VP_KEYS if k in vp},
    }


def typed_eq(a, b):
    """Parsed JSON value `a` carries everything `b` (expected) says, with true/1 and "1"/1 kept apart; objects in `a` may hold further members."""
    if type(a) is not type(b):
        return False
    if isinstance(a, dict):
        return set(a) >= set(b) and all(typed_eq(a[k], b[k]) for k in b)
    if isinstance(a, list):
        return len(a) == len(b) and all(typed_eq(x, y) for x, y in zip(a, b))
    return a == b


def strip_ext(path):
    """'The file extension supplied will be stripped' (command help): last extension of the last path component."""
    head, sep, tail = path.rpartition("/")
    k = tail.rfind(".")
    if k > 0 and tail[:k].strip(".") != "":
        tail = tail[:k]
    return head + sep + tail


def ref_out_names(pattern, i):
    base = strip_ext(pattern % (i,))
    return base + ".raw", base + ".json"


def words_in_order(needle_words, hay_words):
    it = iter(hay_words)
    return all(any(w == h for h in it) for w in needle_words)


# ======================================================================================================
# Corpus (built in the parent; conformant by construction)
# ======================================================================================================
def _features(T, CodecFeatures, VideoParameters, w=8, h=4, cdf=0, pcm=0, ydepth=8, cdepth=8, profile=3, lossless=False,
              picture_bytes=24, frag=0, sx=2, sy=1, wavelet=4, depth=1, depth_ho=0):
    vp = VideoParameters(
        frame_width=w, frame_height=h, color_diff_format_index=T.ColorDifferenceSamplingFormats(cdf),
        source_sampling=T.SourceSamplingModes(1 if pcm else 0), top_field_first=True, frame_rate_numer=1, frame_rate_denom=1,
        pixel_aspect_ratio_numer=1, pixel_aspect_ratio_denom=1, clean_width=w, clean_height=h, left_offset=0, top_offset=0,
        luma_offset=0, luma_excursion=(1 << ydepth) - 1, color_diff_offset=1 << (cdepth - 1), color_diff_excursion=(1 << cdepth) - 1,
        color_primaries_index=T.PresetColorPrimaries(0), color_matrix_index=T.PresetColorMatrices(0),
        transfer_function_index=T.PresetTransferFunctions(0))
    return CodecFeatures(
        name="c25", level=T.Levels(0), profile=T.Profiles(profile), picture_coding_mode=T.PictureCodingModes(pcm), video_parameters=vp,
        wavelet_index=T.WaveletFilters(wavelet), wavelet_index_ho=T.WaveletFilters(wavelet), dwt_depth=depth, dwt_depth_ho=depth_ho,
        slices_x=sx, slices_y=sy, fragment_slice_count=frag, lossless=lossless, picture_bytes=None if lossless else picture_bytes,
        quantization_matrix=None)


def _noise_pictures(cf, rng, nums):
    vp, pcm = cf["video_parameters"], cf["picture_coding_mode"]
    out = []
    for n in nums:
        pic = {"pic_num": n}
        for comp, w, h, _d in ref_components(vp, pcm):
            top = int(vp["luma_excursion"] if comp == "Y" else vp["color_diff_excursion"])
            style = rng.randrange(4)
            pic[comp] = [[(top if style == 0 else 0 if style == 1 else rng.randrange(top + 1)) for _ in range(w)] for _ in range(h)]
        out.append(pic)
    return out


ENCODER_VARIANTS = [
    # name, feature kwargs, picture numbers
    ("hq_lossy", dict(), [0, 1, 2]),
    ("hq_lossless", dict(lossless=True), [5, 6, 7]),
    ("ld_lossy", dict(profile=0), [0, 1]),
    ("hq_fragments", dict(frag=1), [0, 1, 2]),
    ("ld_fragments", dict(frag=1, profile=0), [7, 8]),
    ("hq_fragments_lossless", dict(frag=2, lossless=True, sx=2, sy=2), [0, 1]),
    ("fields_lossless", dict(pcm=1, lossless=True), [0, 1, 2, 3]),
    ("fields_lossy_420", dict(w=8, h=8, cdf=2, pcm=1), [10, 11]),
    ("c422_lossless", dict(cdf=1, lossless=True), [0, 1]),
    ("c420_lossless", dict(cdf=2, lossless=True), [0, 1]),
    ("d10_lossless", dict(ydepth=10, cdepth=10, lossless=True), [0, 1]),
    ("d10_lossy", dict(ydepth=10, cdepth=10, picture_bytes=40), [0, 1]),
    ("d1_lossless", dict(ydepth=1, cdepth=1, lossless=True), [0]),
    ("d16_8_lossless", dict(ydepth=16, cdepth=8, lossless=True), [0, 1]),
    ("d8_16_lossless", dict(ydepth=8, cdepth=16, lossless=True), [0, 1]),
    ("d17_9_lossless", dict(ydepth=17, cdepth=9, lossless=True), [0, 1]),
    ("d33_lossless", dict(ydepth=33, cdepth=33, lossless=True), [0]),
    ("odd_7x3_lossless", dict(w=7, h=3, lossless=True), [0, 1]),
    ("fields_6x6_420_lossless", dict(w=6, h=6, cdf=2, pcm=1, lossless=True), [2, 3]),
    ("tiny_2x2_lossless", dict(w=2, h=2, sx=1, lossless=True), [0, 1]),
    ("tiny_1x1_lossless", dict(w=1, h=1, sx=1, lossless=True, depth=0), [0, 1, 2]),
    ("legall_d2_ho1_lossless", dict(depth=2, depth_ho=1, wavelet=1, lossless=True, w=16, h=8), [0]),
    ("wrap_2p32_lossless", dict(lossless=True), [(1 << 32) - 2, (1 << 32) - 1, 0, 1]),
    ("big_picnum_lossless", dict(lossless=True), [(1 << 31) - 1, 1 << 31, (1 << 31) + 1]),
    ("twelve_pictures_lossless", dict(w=2, h=2, sx=1, lossless=True), list(range(100, 112))),
    ("no_pictures", dict(), []),
]


def build_corpus(tier, seed):
    """Returns (conformant, nonconformant): lists of dicts {name, origin, data, n_pictures (or None), source_pictures (or None), vp, pcm}."""
    import vc2_data_tables as T
    from vc2_conformance import bitstream as bs
    from vc2_conformance.codec_features import CodecFeatures
    from vc2_conformance.pseudocode.video_parameters import VideoParameters
    from vc2_conformance.encoder import make_sequence
    from vc2_conformance import test_cases

    rng = random.Random(seed * 7919 + 25)

    def ser_stream(stream):
        f = io.BytesIO()
        bs.autofill_and_serialise_stream(f, stream)
        return f.getvalue()

    good, bad = [], []
    deferred = []  # (what, exception): a producer of conformant streams failed; re-raised by the hook if nothing else is found

    # ---- encoder
    enc = {}
    for name, kw, nums in ENCODER_VARIANTS:
        cf = _features(T, CodecFeatures, VideoParameters, **kw)
        pics = _noise_pictures(cf, rng, nums)
        try:
            data = ser_stream(bs.Stream(sequences=[make_sequence(cf, pics)]))
        except Exception as e:
            if name in ("hq_lossy", "hq_lossless", "ld_lossy", "hq_fragments"):
                raise  # nothing sensible can be checked without the basic streams
            deferred.append(("encoder variant " + name, e))
            continue
        e = dict(name="enc:" + name, origin="encoder", data=data, n_pictures=len(pics),
                 source=[(p, dict(cf["video_parameters"]), int(cf["picture_coding_mode"])) for p in pics] if kw.get("lossless") else None)
        enc[name] = e
        good.append(e)
    # encoder with forced extra data units (padding / auxiliary data / repeated sequence headers)
    cf = _features(T, CodecFeatures, VideoParameters, lossless=True)
    pics = _noise_pictures(cf, rng, [3, 4, 5])
    data = ser_stream(bs.Stream(sequences=[make_sequence(cf, pics, "(sequence_header padding_data auxiliary_data .)+ end_of_sequence")]))
    good.append(dict(name="enc:interleaved_padding_aux", origin="encoder", data=data, n_pictures=3,
                     source=[(p, dict(cf["video_parameters"]), 0) for p in pics]))

    # multi-sequence streams (concatenations; decode order continues across sequences, formats differ)
    def cat(name, parts):
        if any(p not in enc for p in parts):
            return
        src = []
        for p in parts:
            if enc[p]["source"] is None:
                src = None
                break
            src += enc[p]["source"]
        good.append(dict(name="cat:" + name, origin="encoder (concatenated sequences)", data=b"".join(enc[p]["data"] for p in parts),
                         n_pictures=sum(enc[p]["n_pictures"] for p in parts), source=src))

    cat("lossless+d10", ["hq_lossless", "d10_lossless"])
    cat("d17+1x1+fields", ["d17_9_lossless", "tiny_1x1_lossless", "fields_lossless"])
    cat("lossy+none+frag", ["hq_lossy", "no_pictures", "hq_fragments"])
    cat("same_twice", ["wrap_2p32_lossless", "wrap_2p32_lossless"])

    # ---- decoder test-case generators (skipping the one that needs 90 s)
    gen_features = [("hq", dict())]
    if tier != "quick":
        gen_features += [("ld", dict(profile=0)), ("frag", dict(frag=1)), ("fields422", dict(pcm=1, cdf=1, w=8, h=8)),
                         ("lossless10", dict(lossless=True, ydepth=10, cdepth=10))]
    for fname, kw in gen_features:
        cf = _features(T, CodecFeatures, VideoParameters, **kw)
        for fn in test_cases.DECODER_TEST_CASE_GENERATOR_REGISTRY.iter_registered_functions():
            if fn.__name__ == "real_pictures":
                continue
            try:
                for tc in test_cases.normalise_test_case_generator(fn, cf):
                    good.append(dict(name="gen:%s:%s" % (fname, tc.name), origin="test-case generator", data=ser_stream(tc.value),
                                     n_pictures=None, source=None))
            except Exception as e:
                deferred.append(("test-case generator %s (%s)" % (fn.__name__, fname), e))

    # ---- hand-written structures through the bitstream serialiser
    PC = T.ParseCodes

    def hdr(size=(4, 2), pcm=0, profile=bs.AUTO):
        w, h = size
        vp = bs.SourceParameters(frame_size=bs.FrameSize(custom_dimensions_flag=True, frame_width=w, frame_height=h),
                                 clean_area=bs.CleanArea(custom_clean_area_flag=True, clean_width=w, clean_height=h))
        pp = bs.ParseParameters()
        if profile is not bs.AUTO:
            pp["profile"] = profile
        return bs.DataUnit(parse_info=bs.ParseInfo(parse_code=PC.sequence_header),
                           sequence_header=bs.SequenceHeader(parse_parameters=pp, video_parameters=vp, picture_coding_mode=pcm))

    def hq_pic(n):
        return bs.DataUnit(parse_info=bs.ParseInfo(parse_code=PC.high_quality_picture),
                           picture_parse=bs.PictureParse(picture_header=bs.PictureHeader(picture_number=n)))

    def ld_pic(n):
        return bs.DataUnit(parse_info=bs.ParseInfo(parse_code=PC.low_delay_picture),
                           picture_parse=bs.PictureParse(picture_header=bs.PictureHeader(picture_number=n)))

    def frags(n, send, total=2, first=True):
        code = PC.high_quality_picture_fragment
        out = []
        if first:
            out.append(bs.DataUnit(parse_info=bs.ParseInfo(parse_code=code), fragment_parse=bs.FragmentParse(
                fragment_header=bs.FragmentHeader(picture_number=n, fragment_slice_count=0),
                transform_parameters=bs.TransformParameters(slice_parameters=bs.SliceParameters(slices_x=total, slices_y=1)))))
        for x in send:
            out.append(bs.DataUnit(parse_info=bs.ParseInfo(parse_code=code), fragment_parse=bs.FragmentParse(
                fragment_header=bs.FragmentHeader(picture_number=n, fragment_slice_count=1, fragment_x_offset=x, fragment_y_offset=0))))
        return out

    def pad(k=3):
        return bs.DataUnit(parse_info=bs.ParseInfo(parse_code=PC.padding_data), padding=bs.Padding(bytes=b"\x00" * k))

    def aux(k=2):
        return bs.DataUnit(parse_info=bs.ParseInfo(parse_code=PC.auxiliary_data), auxiliary_data=bs.AuxiliaryData(bytes=b"\xAB" * k))

    def eos():
        return bs.DataUnit(parse_info=bs.ParseInfo(parse_code=PC.end_of_sequence))

    def ser(*seqs):
        return ser_stream(bs.Stream(sequences=[bs.Sequence(data_units=list(u)) for u in seqs]))

    def H(name, data, n):
        good.append(dict(name="hand:" + name, origin="bitstream serialiser", data=data, n_pictures=n, source=None))

    def B(name, data, why):
        bad.append(dict(name="hand:" + name, data=data, why=why))

    H("hq", ser([hdr(), hq_pic(0), eos()]), 1)
    H("hq_pad_aux", ser([hdr(), hq_pic(5), pad(), hq_pic(6), aux(), eos()]), 2)
    H("pad_zero_len_aux_zero_len", ser([hdr(), pad(0), aux(0), hq_pic(0), eos()]), 1)
    H("header_only", ser([hdr(), eos()]), 0)
    H("header_repeated", ser([hdr(), hq_pic(0), hdr(), hq_pic(1), eos()]), 2)
    H("fields", ser([hdr(pcm=1, size=(4, 4)), hq_pic(0), hq_pic(1), eos()]), 2)
    H("wrap", ser([hdr(), hq_pic(2 ** 32 - 1), hq_pic(0), eos()]), 2)
    H("frag_ok", ser([hdr(), *frags(0, [0, 1]), eos()]), 1)
    H("frag_aux_between", ser([hdr(), *frags(0, [0]), aux(), *frags(0, [1], first=False), eos()]), 1)
    H("two_sequences_two_sizes", ser([hdr(), hq_pic(0), eos()], [hdr(size=(8, 2)), hq_pic(7), eos()]), 2)
    H("ld", ser([hdr(profile=T.Profiles.low_delay), ld_pic(0), eos()]), 1)
    H("three_sequences", ser([hdr(), eos()], [hdr(), hq_pic(9), hq_pic(10), eos()], [hdr(size=(2, 2)), hq_pic(0), eos()]), 3)

    good.append(dict(name="bits:handmade_hq", origin="this module's bit writer (from the standard's syntax)", data=handmade_stream(), n_pictures=1, source=None))

    B("picture_number_skips", ser([hdr(), hq_pic(1), hq_pic(3), eos()]), "picture numbers shall increase by one (12.2)")
    B("picture_number_repeats", ser([hdr(), hq_pic(1), hq_pic(1), eos()]), "picture numbers shall increase by one (12.2)")
    B("picture_number_decreases", ser([hdr(), hq_pic(1), hq_pic(0), eos()]), "picture numbers shall increase by one (12.2)")
    B("odd_number_of_fields", ser([hdr(pcm=1, size=(4, 4)), hq_pic(0), eos()]), "a sequence shall hold a whole number of frames (10.4.3)")
    B("first_field_odd_number", ser([hdr(pcm=1, size=(4, 4)), hq_pic(1), hq_pic(2), eos()]), "first field of a frame shall have an even picture number (12.2)")
    B("fragments_incomplete_at_end", ser([hdr(), *frags(0, [0]), eos()]), "a fragmented picture shall be completed (14)")
    B("fragments_restart_before_complete", ser([hdr(), *frags(0, [0]), *frags(1, [0, 1]), eos()]), "a fragmented picture shall be completed before the next starts (14)")
    B("fragments_gap", ser([hdr(), *frags(0, [1]), eos()]), "fragment slices shall arrive in raster order (14.2)")
    B("picture_between_fragments", ser([hdr(), *frags(0, [0]), hq_pic(1), eos()]), "pictures and fragments shall not be interleaved (10.4.1/14)")
    B("fragment_number_changes", ser([hdr(), *frags(0, [0]), *frags(1, [1], first=False), eos()]), "all fragments of a picture shall carry its picture number (14.2)")
    B("sequence_header_changes", ser([hdr(), hq_pic(0), hdr(size=(8, 2)), hq_pic(1), eos()]), "sequence headers within a sequence shall be identical (11.1)")
    B("no_sequence_header", _drop_first_unit(ser([hdr(), hq_pic(0), eos()])), "a sequence shall start with a sequence header (10.4.1)")
    B("eos_only", ser([hdr(), eos()])[-13:], "a sequence shall start with a sequence header (10.4.1)")
    B("ld_picture_in_hq_profile", ser([hdr(), ld_pic(0), eos()]), "low-delay pictures are not allowed in the high quality profile (C.2)")
    return good, bad, deferred


class BitWriter(object):
    """MSB-first bit writer with the standard's variable-length unsigned code (ST 2042-1 A.4: interleaved exp-Golomb)."""

    def __init__(self):
        self.bits = []

    def bit(self, b):
        self.bits.append(1 if b else 0)

    def uint(self, v):
        for c in bin(v + 1)[3:]:
            self.bits += [0, int(c)]
        self.bits.append(1)

    def nbits(self, n, v):
        self.bits += [(v >> (n - 1 - i)) & 1 for i in range(n)]

    def align(self):
        self.bits += [0] * (-len(self.bits) % 8)

    def bytes(self):
        self.align()
        return bytes(int("".join(map(str, self.bits[i:i + 8])), 2) for i in range(0, len(self.bits), 8))


HUGE_FIELDS = ["frame_width", "frame_height", "luma_excursion", "color_diff_excursion", "frame_rate_numer", "wavelet_index", "dwt_depth",
               "slices_x", "slices_y", "slice_prefix_bytes", "slice_size_scaler"]


def handmade_stream(**over):
    """A one-picture high-quality stream written bit by bit from the syntax of ST 2042-1 (11.1-11.4, 12.2-12.4, 13.5.4) with this module's
    own writer (no project code): 4x2 luma, custom format, Haar, 1x1 slices of all-zero coefficients.  `over` replaces header fields
    (used to put astronomically large numbers into them)."""
    f = dict(frame_width=4, frame_height=2, luma_excursion=255, color_diff_excursion=255, frame_rate_numer=25, wavelet_index=4, dwt_depth=1,
             slices_x=1, slices_y=1, slice_prefix_bytes=0, slice_size_scaler=1)
    f.update(over)
    sh = BitWriter()
    for v in (2, 0, 3, 0):  # major_version, minor_version, profile (high quality), level
        sh.uint(v)
    sh.uint(0)  # base_video_format: custom
    sh.bit(1), sh.uint(f["frame_width"]), sh.uint(f["frame_height"])  # frame_size
    sh.bit(1), sh.uint(0)  # color_diff_sampling_format: 4:4:4
    sh.bit(0)  # scan_format: default
    sh.bit(1), sh.uint(0), sh.uint(f["frame_rate_numer"]), sh.uint(1)  # frame_rate: custom numer/denom
    sh.bit(0)  # pixel_aspect_ratio: default
    sh.bit(1), sh.uint(min(f["frame_width"], 4)), sh.uint(min(f["frame_height"], 2)), sh.uint(0), sh.uint(0)  # clean_area
    sh.bit(1), sh.uint(0), sh.uint(0), sh.uint(f["luma_excursion"]), sh.uint((f["color_diff_excursion"] + 1) // 2), sh.uint(f["color_diff_excursion"])  # signal_range
    sh.bit(0)  # color_spec: default
    sh.uint(0)  # picture_coding_mode: frames
    pic = BitWriter()
    pic.nbits(32, 7)  # picture_number
    pic.uint(f["wavelet_index"]), pic.uint(f["dwt_depth"])
    pic.uint(f["slices_x"]), pic.uint(f["slices_y"]), pic.uint(f["slice_prefix_bytes"]), pic.uint(f["slice_size_scaler"])
    pic.bit(0)  # custom_quant_matrix
    pic.align()
    body_pic = pic.bytes() + b"\x00" * 4  # one slice: qindex 0, three zero lengths
    bodies = [(0x00, sh.bytes()), (0xE8, body_pic), (0x10, b"")]
    out = b""
    prev = 0
    for code, body in bodies:
        nxt = 0 if code == 0x10 else 13 + len(body)
        out += b"BBCD" + bytes([code]) + nxt.to_bytes(4, "big") + prev.to_bytes(4, "big") + body
        prev = 13 + len(body)
    return out


def parse_info_offsets(data):
    """Byte offsets of the parse-info headers, following next_parse_offset (stops where that is not possible)."""
    out = []
    o = 0
    while o + 13 <= len(data) and data[o:o + 4] == b"BBCD":
        out.append(o)
        code = data[o + 4]
        npo = int.from_bytes(data[o + 5:o + 9], "big")
        if code == 0x10:
            o += 13
        elif npo >= 13:
            o += npo
        else:
            break
    return out


def _drop_first_unit(data):
    offs = parse_info_offsets(data)
    return data[offs[1]:]


def sequence_boundaries(data):
    return {o + 13 for o in parse_info_offsets(data) if data[o + 4] == 0x10} | {0}


# ======================================================================================================
# One execution: reference decode, command run, comparison.  Runs in a worker process.
# ======================================================================================================
class _Skip(BaseException):
    """Resource guard fired (time / memory): the input is outside the bounded domain; never a verdict."""


def _on_alarm(_signum, _frame):
    raise _Skip("time limit")


@contextlib.contextmanager
def time_limit(seconds):
    # CPU time of this process (ITIMER_PROF), not wall time: the decision to skip must not depend on how busy the machine is
    old = signal.signal(signal.SIGPROF, _on_alarm)
    # periodic after the first expiry: should the exception be raised somewhere that swallows it (a __del__, a bare except),
    # the next tick raises it again instead of letting the guarded code run on unbounded
    signal.setitimer(signal.ITIMER_PROF, seconds, 1.0)
    try:
        yield
    finally:
        signal.setitimer(signal.ITIMER_PROF, 0)
        signal.signal(signal.SIGPROF, old)


class CallBudget(object):
    """Deterministic work bound for a block: counts Python function entries (sys.monitoring PY_START, ~25% overhead; sys.settrace on
    interpreters without it) and raises _Skip beyond `limit` (again every `limit` entries, should something swallow it)."""

    def __init__(self, limit):
        self.limit = limit
        self.n = 0
        self.tool = None

    def _hit(self):
        self.n += 1
        if self.n > self.limit and (self.n - 1) % self.limit == 0:
            raise _Skip("work budget of %d Python calls" % self.limit)

    def _on_start(self, _code, _offset):
        self._hit()

    def _on_call(self, _frame, _event, _arg):
        self._hit()
        return None

    def __enter__(self):
        mon = getattr(sys, "monitoring", None)
        if mon is None:
            sys.settrace(self._on_call)
            return self
        for tool in (4, 3, mon.PROFILER_ID):
            try:
                mon.use_tool_id(tool, "c25-call-budget")
            except ValueError:
                continue
            self.tool = tool
            break
        else:
            raise RuntimeError("no free sys.monitoring tool id")
        mon.register_callback(self.tool, mon.events.PY_START, self._on_start)
        mon.set_events(self.tool, mon.events.PY_START)
        return self

    def __exit__(self, *_exc):
        mon = getattr(sys, "monitoring", None)
        if mon is None:
            sys.settrace(None)
        elif self.tool is not None:
            mon.set_events(self.tool, 0)
            mon.register_callback(self.tool, mon.events.PY_START, None)
            mon.free_tool_id(self.tool)
        return False


def _worker_init():
    soft, hard = resource.getrlimit(resource.RLIMIT_AS)
    lim = WORKER_MEMORY_LIMIT if hard == resource.RLIM_INFINITY else min(WORKER_MEMORY_LIMIT, hard)
    resource.setrlimit(resource.RLIMIT_AS, (lim, hard))


def reference_decode(data):
    """The decoder library on the same bytes: (verdict, error or None, [(raw bytes, metadata, picture, vp, pcm)], stop offset)."""
    dec = _G["decoder"]
    State = _G["State"]
    pics = []

    def cb(picture, vp, pcm):
        pics.append((ref_raw(picture, vp, pcm), ref_metadata(picture, vp, pcm),
                     {k: ([list(r) for r in v] if k != "pic_num" else v) for k, v in picture.items()}, dict(vp), int(pcm)))

    st = State(_output_picture_callback=cb)
    dec.init_io(st, io.BytesIO(data))
    try:
        dec.parse_stream(st)
    except dec.ConformanceError as e:
        off = e.offending_offset()
        if off is None:
            byte, bit = dec.tell(st)
            off = byte * 8 + (7 - bit)
        return "nonconformant", e, pics, off
    except MemoryError:
        raise _Skip("memory limit")
    except Exception as e:  # the decoder library itself failed: recorded, turned into a clause-F violation by the caller
        return "decoder-crash", e, pics, None
    return "conformant", None, pics, None


def invoke_command(argv):
    main = _G["main"]
    old = (sys.stdout, sys.stderr, sys.argv)
    out, err = io.StringIO(), io.StringIO()
    sys.stdout, sys.stderr, sys.argv = out, err, ["vc2-bitstream-validator"] + list(argv)
    try:
        try:
            rv = main(list(argv))
            status = 0 if rv is None else rv
            how = "return"
        except SystemExit as e:
            status = 0 if e.code is None else e.code
            how = "SystemExit"
        except Exception as e:
            status = "uncaught %s: %s" % (type(e).__name__, str(e)[:200])
            how = "exception"
    finally:
        sys.stdout, sys.stderr, sys.argv = old
    return status, how, out.getvalue(), err.getvalue()


def list_files(root):
    out = []
    for d, _dirs, files in os.walk(root):
        for f in files:
            out.append(os.path.relpath(os.path.join(d, f), root))
    return sorted(out)


def run_case(case):
    """case: dict(id, data, expect in {'conformant','nonconformant','agree'}, opts, pattern index or None (default pattern),
    n_pictures, source index or None, odd_input_name, relative).  Returns a result dict (JSON-able)."""
    data = case["data"]
    res = {"id": case["id"], "problems": [], "exit": None, "ref": None, "err_class": None, "n_files": 0, "n_pics": 0}
    tmp = tempfile.mkdtemp(prefix="c25-", dir=_G["scratch"])
    old_cwd = os.getcwd()
    try:
        indir = os.path.join(tmp, "in")
        outdir = os.path.join(tmp, "out")
        os.mkdir(indir)
        os.mkdir(outdir)
        inname = os.path.join(indir, "in put {0} 'q'.vc2" if case.get("odd_input_name") else "stream.vc2")
        with open(inname, "wb") as f:
            f.write(data)
        if case["pattern"] is None:
            pattern_rel, sub = "picture_%d.raw", None  # the documented default of --output
            argv = [inname] + case["opts"]
            os.chdir(outdir)
        else:
            pattern_rel, sub = PATTERNS[case["pattern"]]
            if sub:
                os.makedirs(os.path.join(outdir, sub))
            if case.get("relative"):
                os.chdir(outdir)
                argv = case["opts"] + ["--output=" + pattern_rel, inname]
            else:
                argv = [inname, "-o", os.path.join(outdir, pattern_rel)] + case["opts"]

        t0 = time.process_time()
        try:
            with time_limit(REF_TIME_LIMIT), CallBudget(REF_CALL_BUDGET):
                verdict, err, ref_pics, ref_off = reference_decode(data)
        except _Skip as e:
            res["skipped"] = "decoder library hit the %s on this input" % e
            return res
        ref_seconds = time.process_time() - t0
        res["ref"] = verdict
        res["err_class"] = type(err).__name__ if err is not None else None
        res["n_pics"] = len(ref_pics)

        try:
            with time_limit(30.0 + 20 * ref_seconds):
                status, how, stdout, stderr = invoke_command(argv)
        except _Skip as e:
            res["skipped"] = "the command hit the %s (decoder library alone: %.2fs); undecided, not a verdict" % (e, ref_seconds)
            return res
        os.chdir(old_cwd)
        res["exit"] = status
        files = list_files(outdir)
        res["n_files"] = len(files)
        shown_argv = [a.replace(tmp, "<TMP>") for a in argv]

        def problem(clause, what, expected, observed, known_key=None):
            res["problems"].append({"clause": clause, "what": what, "expected": expected, "observed": observed, "known_key": known_key,
                                    "inputs": {"case": case["id"], "stream_hex": data.hex(), "argv": shown_argv,
                                               "cwd": "<TMP>/out" if (case["pattern"] is None or case.get("relative")) else None},
                                    "stdout_head": stdout[:300], "stderr_tail": stderr[-300:]})

        # ---- F: never internal error / crash; always 0 or 2
        # attribution key for ONE family only: the decoder library itself raises OverflowError (arithmetic on an astronomically large
        # header value, e.g. 1 << dwt_depth); effective only if known_findings.json lists it, otherwise an ordinary violation
        kk = "C25-decoder-OverflowError-on-huge-header-value" if (verdict == "decoder-crash" and type(err) is OverflowError) else None
        if verdict == "decoder-crash":
            problem("F", "the decoder library raised an internal exception on this input (the command can only report an internal error)",
                    "ConformanceError or normal return", "%s: %s" % (type(err).__name__, str(err)[:200]), known_key=kk)
        if status == 3:
            problem("F", "the command exited with the internal-error status", "0 or 2", 3, known_key=kk)
        elif how == "exception":
            problem("F", "the command died with an uncaught exception (traceback, status 1)", "0 or 2", status)
        elif status not in (0, 2):
            problem("F", "the command exited with a status that is neither 'conformant' nor 'non-conformant'", "0 or 2", status)

        # ---- A / D / E: the verdict
        expect = case["expect"]
        if expect == "conformant" and status != 0:
            problem("A", "conformant stream (%s) not reported with exit status 0" % case.get("origin", ""), 0, status)
        if expect == "nonconformant" and status != 2:
            problem("D", "non-conformant stream (%s) not reported with exit status 2" % case.get("why", ""), 2, status)
        if verdict in ("conformant", "nonconformant") and status in (0, 2) and (status == 0) != (verdict == "conformant"):
            problem("E", "the command's verdict differs from the decoder library's on the same bytes",
                    0 if verdict == "conformant" else 2, status)

        # ---- D: located explanation
        if status == 2 and verdict == "nonconformant":
            first = next((l for l in stdout.split("\n") if l.strip()), "")
            toks = first.replace(",", " ").replace(":", " ").split()
            if not (0 <= ref_off <= 8 * len(data)):
                problem("D", "the error location lies outside the file", "0..%d" % (8 * len(data)), ref_off)
            if str(ref_off) not in toks:
                problem("D", "the first line of the explanation does not name the bit offset of the error", ref_off, first[:200])
            need = err.explain().split()
            if not need or not words_in_order(need, stdout.split()):
                problem("D", "the text explaining the conformance error is missing from stdout", " ".join(need)[:300], stdout[:300])

        # ---- B / C: files
        n_expected = len(ref_pics)
        if expect == "conformant" and case.get("n_pictures") is not None:
            if len(ref_pics) != case["n_pictures"] and verdict == "conformant":
                problem("B", "the decoder library emitted a different number of pictures than were encoded", case["n_pictures"], len(ref_pics))
            n_expected = case["n_pictures"]
        if status == 0:
            want = sorted(os.path.normpath(n) for i in range(n_expected) for n in ref_out_names(pattern_rel, i))
            if files != want:
                problem("B", "the files written are not exactly one .raw/.json pair per decoded picture numbered from 0", want[:8], files[:8])
            k = n_expected
        else:
            # non-conformant: whatever was written must be a correctly numbered prefix
            k = len(files) // 2
            want = sorted(os.path.normpath(n) for i in range(k) for n in ref_out_names(pattern_rel, i))
            if files != want or k > len(ref_pics):
                problem("B", "pictures written before the error are not a prefix numbered from 0 of the decoder's output",
                        {"at most": len(ref_pics), "names like": want[:4]}, files[:8])
                k = 0
        src = _G["sources"].get(case.get("source")) if case.get("source") is not None else None
        for i in range(min(k, len(ref_pics))):
            raw_name, json_name = (os.path.join(outdir, n) for n in ref_out_names(pattern_rel, i))
            if not (os.path.isfile(raw_name) and os.path.isfile(json_name)):
                continue  # already reported under B
            with open(raw_name, "rb") as f:
                raw = f.read()
            with open(json_name, "rb") as f:
                meta_bytes = f.read()
            exp_raw, exp_meta, pic, vp, pcm = ref_pics[i]
            if raw != exp_raw:
                problem("C", "picture %d: .raw differs from the decoder's output in the documented planar little-endian layout" % i,
                        {"len": len(exp_raw), "head": exp_raw[:24].hex()}, {"len": len(raw), "head": raw[:24].hex()})
            if len(raw) != ref_raw_size(vp, pcm):
                problem("C", "picture %d: .raw size is not that of the documented component dimensions and byte widths" % i, ref_raw_size(vp, pcm), len(raw))
            try:
                meta = json.loads(meta_bytes.decode("utf-8"))
            except ValueError as e:
                meta = "not UTF-8 JSON: %s" % e
            if not typed_eq(meta, exp_meta):
                problem("C", "picture %d: .json differs from the decoder's output (picture number as string, coding mode, video parameters)" % i, exp_meta, meta)
            if src is not None and i < len(src):
                spic, svp, spcm = src[i]
                if raw != ref_raw(spic, svp, spcm) or (isinstance(meta, dict) and meta.get("picture_number") != str(spic["pic_num"])):
                    problem("C", "picture %d of a lossless stream: files differ from the picture given to the encoder" % i,
                            {"pic_num": spic["pic_num"], "head": ref_raw(spic, svp, spcm)[:24].hex()}, {"head": raw[:24].hex()})
            # read back with the toolkit's reader
            try:
                rpic, rvp, rpcm = _G["ff_read"](raw_name)
            except Exception as e:
                problem("C", "picture %d: file_format.read cannot read the pair back" % i, "the decoder's output", "%s: %s" % (type(e).__name__, str(e)[:200]))
                continue
            if not (rpic == pic and dict(rvp) == vp and int(rpcm) == pcm):
                problem("C", "picture %d: reading the pair back with file_format.read does not return the decoder's output" % i,
                        {"pic_num": pic["pic_num"], "pcm": pcm}, {"pic_num": rpic.get("pic_num"), "pcm": int(rpcm), "same_samples": all(rpic.get(c) == pic[c] for c in ("Y", "C1", "C2"))})
    finally:
        os.chdir(old_cwd)
        shutil.rmtree(tmp, ignore_errors=True)
    return res


def _run_chunk(chunk):
    out = []
    for c in chunk:
        t0 = time.time()
        r = run_case(c)
        r["seconds"] = round(time.time() - t0, 2)
        out.append(r)
    return out


# ======================================================================================================
# Case generation
# ======================================================================================================
def mutate_random(rng, data, others):
    data = bytearray(data)
    for _ in range(rng.choice([1, 1, 1, 2, 3])):
        r = rng.random()
        if not data:
            data += bytes([rng.randrange(256)])
        elif r < 0.30:
            data[rng.randrange(len(data))] ^= 1 << rng.randrange(8)
        elif r < 0.45:
            data[rng.randrange(len(data))] = rng.choice([0x00, 0xFF, 0x10, 0x42, rng.randrange(256)])
        elif r < 0.55:
            i = rng.randrange(len(data) + 1)
            data[i:i] = bytes(rng.randrange(256) for _ in range(rng.choice([1, 1, 2, 13])))
        elif r < 0.65:
            i = rng.randrange(len(data))
            del data[i:i + rng.choice([1, 1, 2, 13])]
        elif r < 0.75:
            del data[rng.randrange(len(data)):]
        elif r < 0.85:
            offs = parse_info_offsets(bytes(data))
            if len(offs) >= 3:  # duplicate or drop a whole data unit (offsets become stale: that is the point)
                j = rng.randrange(len(offs) - 1)
                unit = data[offs[j]:offs[j + 1]]
                if rng.random() < 0.5:
                    data[offs[j]:offs[j]] = unit
                else:
                    del data[offs[j]:offs[j + 1]]
        else:
            other = rng.choice(others)
            data += other if rng.random() < 0.5 else other[rng.randrange(len(other)):]
    return bytes(data)


def build_cases(tier, seed, good, bad):
    rng = random.Random(seed * 104729 + 2525)
    quick = tier == "quick"
    cases = []
    nopt, npat = len(OPTION_SETS), len(PATTERNS)
    counter = [0]

    def add(group, data, expect, name, **kw):
        i = counter[0]
        counter[0] += 1
        c = dict(id="%s/%s" % (group, name), group=group, data=data, expect=expect,
                 opts=kw.pop("opts", OPTION_SETS[i % nopt]), pattern=kw.pop("pattern", i % npat))
        c.update(kw)
        cases.append(c)

    # ---- A/B/C: conformant corpus x patterns x options
    for gi, g in enumerate(good):
        src = gi if g.get("source") is not None else None
        rich = g["origin"] != "test-case generator"
        pats = list(range(npat)) if (rich and (not quick or gi % 3 == 0)) else [gi % npat, (gi * 5 + 3) % npat]
        for pi in pats:
            add("conformant", g["data"], "conformant", "%s/pat%d" % (g["name"], pi), pattern=pi, n_pictures=g["n_pictures"], source=src,
                origin=g["origin"], opts=OPTION_SETS[(gi + pi) % nopt])
        # default pattern in the working directory, relative pattern, odd input file name, every option set
        add("conformant", g["data"], "conformant", g["name"] + "/default-pattern", pattern=None, n_pictures=g["n_pictures"], source=src, origin=g["origin"])
        add("conformant", g["data"], "conformant", g["name"] + "/relative", relative=True, n_pictures=g["n_pictures"], source=src, origin=g["origin"],
            odd_input_name=True)
        if rich and (not quick or gi % 4 == 0):
            for oi in range(nopt):
                add("conformant", g["data"], "conformant", "%s/opts%d" % (g["name"], oi), opts=OPTION_SETS[oi], pattern=0,
                    n_pictures=g["n_pictures"], source=src, origin=g["origin"])

    # ---- degenerate files, every option set (F, E)
    degenerate = [("empty", b"")] + [("zeros%d" % n, b"\x00" * n) for n in (1, 4, 13, 16)] + [
        ("BBCD", b"BBCD"), ("B", b"B"), ("prefix+eos_code", b"BBCD\x10"), ("ff16", b"\xff" * 16), ("NOPE", b"NOPE"),
        ("eos_alone", b"BBCD\x10" + b"\x00" * 8), ("header_code_then_eof", b"BBCD\x00" + b"\x00" * 8)]
    for name, d in degenerate:
        for oi in range(nopt):
            add("degenerate", d, "agree" if name == "empty" else "nonconformant", "%s/opts%d" % (name, oi), opts=OPTION_SETS[oi],
                why="not a concatenation of sequences (10.3)", odd_input_name=(oi == 5))
        add("degenerate", d, "agree" if name == "empty" else "nonconformant", name + "/default-pattern", pattern=None, opts=[],
            why="not a concatenation of sequences (10.3)")

    # ---- D: hand-written non-conformant structures
    for b in bad:
        for oi in range(nopt if not quick else 2):
            add("designed", b["data"], "nonconformant", "%s/opts%d" % (b["name"], oi), opts=OPTION_SETS[(oi * 2) % nopt], why=b["why"],
                odd_input_name=bool(oi % 2))

    # ---- D: systematic mutations of conformant streams
    small = [g for g in good if len(g["data"]) <= 700]
    by_name = {g["name"]: g for g in good}
    trunc_names = ["hand:hq", "hand:frag_ok", "hand:two_sequences_two_sizes", "hand:ld", "hand:hq_pad_aux"]
    if not quick:
        trunc_names += ["enc:hq_lossy", "enc:hq_fragments", "enc:fields_lossless", "cat:lossy+none+frag", "enc:interleaved_padding_aux",
                        "hand:three_sequences", "enc:d10_lossy", "enc:ld_fragments"]
    for n in [n for n in trunc_names if n in by_name]:
        d = by_name[n]["data"]
        bounds = sequence_boundaries(d)
        for L in range(1, len(d)):
            if L not in bounds:
                add("truncation", d[:L], "nonconformant", "%s[:%d]" % (n, L), why="the last sequence lacks its end (10.4.1)")
    unit_streams = [by_name[n] for n in (["hand:hq_pad_aux", "hand:frag_aux_between", "hand:two_sequences_two_sizes", "enc:ld_lossy"] if quick else
                                         ["hand:hq_pad_aux", "hand:frag_aux_between", "hand:two_sequences_two_sizes", "enc:ld_lossy", "enc:hq_lossy",
                                          "enc:hq_fragments", "enc:fields_lossless", "enc:interleaved_padding_aux", "hand:three_sequences", "cat:lossless+d10"]) if n in by_name]
    for g in unit_streams:
        d = g["data"]
        offs = parse_info_offsets(d)
        for ui, o in enumerate(offs):
            for bit in range(32):
                m = bytearray(d)
                m[o + bit // 8] ^= 0x80 >> (bit % 8)
                add("prefix-bit", bytes(m), "nonconformant", "%s@unit%d/bit%d" % (g["name"], ui, bit), why="parse-info prefix is not 0x42424344 (10.5.1)")
            is_eos = d[o + 4] == 0x10
            npo = int.from_bytes(d[o + 5:o + 9], "big")
            ppo = int.from_bytes(d[o + 9:o + 13], "big")
            for delta in (+1, -1, +13):
                v = npo + delta
                if is_eos or npo == 0 or v <= 0:
                    continue
                m = bytearray(d)
                m[o + 5:o + 9] = v.to_bytes(4, "big")
                add("parse-offsets", bytes(m), "nonconformant", "%s@unit%d/next%+d" % (g["name"], ui, delta), why="non-zero next_parse_offset is wrong (10.5.1)")
            if is_eos:
                m = bytearray(d)
                m[o + 5:o + 9] = (13).to_bytes(4, "big")
                add("parse-offsets", bytes(m), "nonconformant", "%s@unit%d/eos-next=13" % (g["name"], ui), why="next_parse_offset of an end of sequence shall be 0 (10.5.1)")
            for delta in (+1, -1, +13):
                v = ppo + delta
                if v < 0:
                    continue
                m = bytearray(d)
                m[o + 9:o + 13] = v.to_bytes(4, "big")
                add("parse-offsets", bytes(m), "nonconformant", "%s@unit%d/prev%+d" % (g["name"], ui, delta), why="previous_parse_offset is wrong (10.5.1)")
        # every parse code outside Table 10.1, at the first picture-ish unit and at the last unit
        for ui in sorted({min(1, len(offs) - 1), len(offs) - 1}):
            for code in range(256):
                if code in VALID_PARSE_CODES:
                    continue
                if quick and (g is not unit_streams[0] or ui != 1) and code % 8 != 1:
                    continue
                m = bytearray(d)
                m[offs[ui] + 4] = code
                add("parse-code", bytes(m), "nonconformant", "%s@unit%d/code%02X" % (g["name"], ui, code), why="parse code not in Table 10.1")
        # bytes after the last end of sequence / before the first parse info
        for tail in [b"\x00", b"\xff", b"B", b"BBCD", b"BBCD\x10", b"BBCD\x10" + b"\x00" * 7, b"BBCD\x10" + b"\x00" * 8, b"\x00" * 13, d[:13], d[:-1]]:
            add("trailing", d + tail, "nonconformant", "%s+%s" % (g["name"], tail[:13].hex()), why="bytes after the last sequence are not a sequence (10.3)")
        for head in [b"\x00", b"BBCD", b"B"]:
            add("leading", head + d, "nonconformant", "%s+%s" % (head.hex(), g["name"]), why="stream does not start with a parse info of a sequence header (10.4.1)")
        add("leading", _drop_first_unit(d), "nonconformant", "no-first-unit:" + g["name"], why="a sequence shall start with a sequence header (10.4.1)")

    # ---- E: every single-bit flip of small streams; seeded random mutations over the whole corpus
    flip_names = ["hand:hq", "hand:frag_ok"] if quick else ["hand:hq", "hand:frag_ok", "hand:ld", "hand:fields", "enc:hq_lossy", "enc:ld_lossy",
                                                              "hand:two_sequences_two_sizes", "enc:tiny_1x1_lossless", "enc:hq_fragments"]
    for n in [n for n in flip_names if n in by_name]:
        d = by_name[n]["data"]
        for bit in range(8 * len(d)):
            m = bytearray(d)
            m[bit // 8] ^= 0x80 >> (bit % 8)
            add("bit-flip", bytes(m), "agree", "%s^bit%d" % (n, bit))
    others = [g["data"] for g in small]
    for k in range(1000 if quick else 15000):
        g = rng.choice(small)
        add("random", mutate_random(rng, g["data"], others), "agree", "%s~%d" % (g["name"], k))
    for k in range(100 if quick else 1000):
        add("random", bytes(rng.randrange(256) for _ in range(rng.randrange(1, 64))), "agree", "garbage~%d" % k)
        add("random", b"BBCD" + bytes(rng.randrange(256) for _ in range(rng.randrange(0, 40))), "agree", "BBCD+garbage~%d" % k)

    # ---- E/F: astronomically large numbers in header fields (streams written by this module's own bit writer)
    for fld in HUGE_FIELDS:
        if fld in ("frame_width", "frame_height"):
            mags = [70] if quick else [20, 63, 70]  # each of these uses up the whole work budget of the reference decode
        elif fld == "dwt_depth":
            mags = [20, 63, 70]  # (2**32 makes CPython shift a 512 MiB integer for ~20 s without servicing signals: left out)
        else:
            mags = [32, 70] if quick else [20, 32, 63, 64, 70]
        for k in mags:
            for v in ([2 ** k, 2 ** k - 1] if fld.endswith("excursion") else [2 ** k]):
                add("huge-field", handmade_stream(**{fld: v}), "agree", "%s=%s" % (fld, "2**%d" % k if v == 2 ** k else "2**%d-1" % k), opts=OPTION_SETS[k % 2])
    return cases


# ======================================================================================================
# The hook
# ======================================================================================================
CLAUSE_TITLES = {
    "A": "conformant stream => exit status 0",
    "B": "one .raw/.json pair per decoded picture, numbered from 0 in decode order, nothing else",
    "C": "file contents equal the decoder's output (documented raw/JSON format; encoder input for lossless; read back)",
    "D": "non-conformant stream => exit status 2 with a located explanation",
    "E": "verdict agrees with the decoder library on mutated streams",
    "F": "never the internal-error status, never an uncaught exception",
    "G": "the same through a real process",
}


def check(rep, tier, seed):
    from pyvc import frontend

    frontend.ensure_repo_on_path()
    from vc2_conformance.scripts import vc2_bitstream_validator as script
    from vc2_conformance import decoder, file_format
    from vc2_conformance.pseudocode.state import State

    scratch = tempfile.mkdtemp(prefix="c25-scratch-")
    try:
        good, bad, deferred = build_corpus(tier, seed)
        cases = build_cases(tier, seed, good, bad)
        _G.update(main=script.main, decoder=decoder, State=State, ff_read=file_format.read, scratch=scratch,
                  sources={i: g["source"] for i, g in enumerate(good) if g.get("source") is not None})

        # warm-up in the parent (lazily built tables, line cache, byte code) so that forked workers start hot
        run_case(dict(cases[0], id="warm-up/conformant"))
        run_case(dict(id="warm-up/garbage", group="degenerate", data=b"NOPE", expect="nonconformant", opts=["-v"], pattern=0))
        # interleave so that every chunk holds a mixture (even load), keep order deterministic
        nchunks = WORKERS * 8
        chunks = [cases[i::nchunks] for i in range(nchunks)]
        import multiprocessing

        ctx = multiprocessing.get_context("fork")
        with ctx.Pool(WORKERS, initializer=_worker_init) as pool:
            # watchdog: a worker stuck in a C-level operation that services no signal must not hang the check for ever
            results = [r for chunk in pool.map_async(_run_chunk, chunks).get(timeout=900 if tier == "quick" else 3600) for r in chunk]
        by_id = {}
        for r in results:
            by_id[r["id"]] = r
        results = [by_id[c["id"]] for c in cases]  # canonical (generation) order => deterministic reporting
        slowest = sorted(((r.get("seconds", 0), c["id"]) for c, r in zip(cases, results)), reverse=True)[:5]
        skipped = [(c["id"], r["skipped"]) for c, r in zip(cases, results) if r.get("skipped")]
        unmutated_skipped = [(c["id"], r["skipped"]) for c, r in zip(cases, results) if r.get("skipped") and c["group"] == "conformant"]
        if unmutated_skipped:  # the guard is meant for mutated headers only; on a corpus stream it means the machine is too slow to decide
            raise RuntimeError("C25: resource guard fired on unmutated corpus streams: %s" % unmutated_skipped[:3])
        keep = [i for i, r in enumerate(results) if not r.get("skipped")]
        cases, results = [cases[i] for i in keep], [results[i] for i in keep]

        # ---- aggregate
        reported = {}
        for c, r in zip(cases, results):
            for p in r["problems"]:
                n = reported.get(p["clause"], 0)
                if n < MAX_VIOLATIONS_PER_CLAUSE:
                    reported[p["clause"]] = n + bool(rep.violation("c25-%s-%d" % (p["clause"], n + 1),
                                  {"what": "C25 clause %s (%s): %s" % (p["clause"], CLAUSE_TITLES[p["clause"]], p["what"]),
                                   "inputs": p["inputs"], "expected": p["expected"], "observed": p["observed"], "known_key": p.get("known_key"),
                                   "stdout_head": p["stdout_head"], "stderr_tail": p["stderr_tail"],
                                   "reproduce": "write bytes.fromhex(stream_hex) to a file and run vc2_conformance.scripts.vc2_bitstream_validator.main(argv) "
                                                "with <TMP> replaced by a scratch directory"}))  # a registered known finding does not use up the quota

        def grp(*names):
            return [(c, r) for c, r in zip(cases, results) if c["group"] in names]

        conf = grp("conformant")
        rep.add_bounded(
            "A: conformant streams exit 0",
            "%d conformant streams (encoder: %d feature/picture variants incl. concatenations; test-case generators: %d streams; hand-written via the serialiser: %d) "
            "x output patterns (%d) x option sets (%d), default pattern in cwd, relative pattern, odd input file name"
            % (len(good), sum(g["origin"].startswith("encoder") for g in good), sum(g["origin"] == "test-case generator" for g in good),
               sum(g["origin"] == "bitstream serialiser" for g in good), len(PATTERNS), len(OPTION_SETS)),
            len(conf), False, distinct=len({c["data"] for c, _ in conf}),
            samples=[{"case": c["id"], "exit": r["exit"], "files": r["n_files"]} for c, r in conf[:3]])
        rep.add_bounded(
            "B: file set = one .raw/.json pair per decoded picture, numbered from 0 in decode order",
            "the same executions; directory listing compared with {strip_ext(pattern % i)+.raw/.json}; streams with 0..12 pictures, 1..3 sequences",
            len(conf), False, distinct=len({(c["pattern"], r["n_pics"]) for c, r in conf}),
            samples=[{"case": c["id"], "pictures": r["n_pics"], "files": r["n_files"]} for c, r in conf if r["n_pics"] >= 10][:2])
        rep.add_bounded(
            "C: file contents = decoder output (independent writer of the documented format; encoder input for lossless streams; file_format.read round trip)",
            "every picture file pair written in any execution (conformant streams and prefixes of non-conformant ones)",
            sum(r["n_files"] // 2 for r in results), False, distinct=sum(1 for c, r in conf if c.get("source") is not None),
            samples=[{"case": c["id"], "pictures": r["n_pics"]} for c, r in conf if c.get("source") is not None][:3],
            note="'distinct' counts executions on lossless encoder streams, where the oracle is the encoder's input rather than the decoder callback")
        des = grp("designed", "truncation", "prefix-bit", "parse-offsets", "parse-code", "trailing", "leading", "degenerate")
        per = {}
        for c, r in des:
            per[c["group"]] = per.get(c["group"], 0) + 1
        rep.add_bounded(
            "D: non-conformant streams exit 2 with a located explanation",
            "non-conformant by the standard, independent of the decoder: " + ", ".join("%s=%d" % kv for kv in sorted(per.items()))
            + " (truncation: every strict prefix not at a sequence boundary; prefix-bit: all 32 bits of every parse-info prefix; "
              "parse-code: all 248 codes outside Table 10.1; offsets +1/-1/+13)",
            len(des), False, distinct=len({r["err_class"] for _, r in des if r["err_class"]}),
            samples=[{"case": c["id"], "exit": r["exit"], "error": r["err_class"]} for c, r in des[-3:]],
            note="'distinct' = number of different ConformanceError classes the decoder library raised on these inputs")
        huge = grp("huge-field")
        rep.add_bounded(
            "E/F: astronomically large numbers in header fields",
            "one-picture stream written bit by bit by this module (not by the project's serialiser) with each of %s set to 2**k, k in {20,32,63,64,70} "
            "(quick: fewer k); verdict must agree with the decoder library, status 0 or 2" % ", ".join(HUGE_FIELDS),
            len(huge), False, distinct=len({(r["exit"], r["err_class"]) for _, r in huge}),
            samples=[{"case": c["id"], "exit": r["exit"], "error": r["err_class"]} for c, r in huge[:3]],
            note="cases on which the decoder library exceeds the time/memory guard are skipped and listed under skipped_resource_guard")
        agree = grp("bit-flip", "random")
        rep.add_bounded(
            "E: verdict (0/2) agrees with the decoder library; located explanation; written pictures are a correct prefix",
            "every single-bit flip of %d small streams + seeded random edits (flip/replace/insert/delete/truncate/duplicate or drop a data unit/splice) of the corpus + random garbage"
            % (len({c["id"].split("^")[0] for c, _ in grp("bit-flip")})),
            len(agree), False, distinct=len({r["err_class"] for _, r in agree if r["err_class"]}),
            samples=[{"case": c["id"], "exit": r["exit"], "error": r["err_class"]} for c, r in agree[:3]],
            note="still conformant after mutation: %d; non-conformant: %d; distinct = ConformanceError classes seen" % (
                sum(r["ref"] == "conformant" for _, r in agree), sum(r["ref"] == "nonconformant" for _, r in agree)))
        rep.add_bounded(
            "F: exit status is 0 or 2, never 3, no uncaught exception",
            "all executions of A-E (incl. huge header values) plus degenerate files (empty, 1..16 bytes) under every option set (status line on/off, -v)",
            len(results), False, distinct=len({(r["exit"], r["err_class"]) for r in results}),
            samples=[{"case": c["id"], "exit": r["exit"]} for c, r in grp("degenerate")[:3]])

        # ---- G: through a real process
        g_runs = _process_smoke(rep, frontend.REPO, scratch, good, bad, tier)
        rep.add_bounded("G: real process (python -m vc2_conformance.scripts.vc2_bitstream_validator): exit status and files",
                        "empty file (default options and -q), two conformant streams, two non-conformant ones, garbage", g_runs, False, distinct=g_runs)
        import vc2_data_tables

        live = sorted(int(c) for c in vc2_data_tables.ParseCodes)
        rep.add_eval_fact("oracle table: the parse codes this check treats as valid (ST 2042-1 Table 10.1) are exactly vc2_data_tables.ParseCodes",
                          set(live) == VALID_PARSE_CODES, "live table: %s" % ", ".join("0x%02X" % c for c in live))
        if skipped:
            rep.extra_assumptions.append("BOUNDED: %d mutated inputs were left out because the decoder library needed more than %d Python calls / %d GiB / %gs CPU on them "
                                         "(mutated headers announcing huge pictures), e.g. %s" % (len(skipped), REF_CALL_BUDGET, WORKER_MEMORY_LIMIT >> 30, REF_TIME_LIMIT, skipped[0][0]))
        rep.extra_coverage["c25_executions"] = {"in_process": len(results), "subprocess": g_runs, "skipped_resource_guard": [s[0] for s in skipped][:50], "slowest_cases_s": slowest,
                                                "exit_status_histogram": {str(k): sum(1 for r in results if r["exit"] == k) for k in sorted({r["exit"] for r in results}, key=str)}}
        if deferred and not rep.violations:
            # a producer of conformant inputs failed on this tree and nothing was found with the rest: not a verdict on C25
            raise RuntimeError("C25 corpus incomplete: %s failed: %r (and %d more)" % (deferred[0][0], deferred[0][1], len(deferred) - 1)) from deferred[0][1]
        if deferred:
            rep.extra_assumptions.append("corpus incomplete on this tree: %s" % "; ".join("%s: %r" % d for d in deferred[:5]))
    finally:
        shutil.rmtree(scratch, ignore_errors=True)


def _process_smoke(rep, repo, scratch, good, bad, tier):
    by_name = {g["name"]: g for g in good}
    plan = [
        ("empty-default-options", b"", [], 0, 0),
        ("empty-quiet", b"", ["-q"], 0, 0),
        ("conformant-lossless", by_name["enc:hq_lossless"]["data"], [], 0, 3),
        ("conformant-fragments-verbose", by_name["enc:hq_fragments"]["data"], ["-v"], 0, 3),
        ("nonconformant-designed", bad[0]["data"], [], 2, None),
        ("nonconformant-truncated", by_name["hand:hq"]["data"][:-5], ["-v"], 2, None),
        ("garbage", b"NOPE", ["-q"], 2, None),
    ]
    if tier != "quick":
        plan += [("conformant:" + g["name"], g["data"], [], 0, g["n_pictures"]) for g in good if g["origin"] == "encoder"][:16]
    env = dict(os.environ, PYTHONPATH=repo + os.pathsep + os.environ.get("PYTHONPATH", ""))
    env.pop("COLUMNS", None)
    procs = []
    for name, data, opts, want_status, want_pics in plan:
        d = tempfile.mkdtemp(prefix="c25-proc-", dir=scratch)
        with open(os.path.join(d, "in.vc2"), "wb") as f:
            f.write(data)
        os.mkdir(os.path.join(d, "out"))
        p = subprocess.Popen([sys.executable, "-m", "vc2_conformance.scripts.vc2_bitstream_validator", os.path.join(d, "in.vc2"),
                              "--output", os.path.join(d, "out", "pic_%d.raw")] + opts, cwd=d, env=env, stdout=subprocess.PIPE, stderr=subprocess.PIPE)
        procs.append((name, data, opts, want_status, want_pics, d, p))
        if len(procs) % WORKERS == 0:
            for q in procs[-WORKERS:]:
                q[-1].wait()
    bad_n = 0
    for name, data, opts, want_status, want_pics, d, p in procs:
        out, err = p.communicate()
        files = list_files(os.path.join(d, "out"))
        want_files = None if want_pics is None else sorted(n for i in range(want_pics) for n in ("pic_%d.raw" % i, "pic_%d.json" % i))
        if p.returncode != want_status or (want_files is not None and files != want_files):
            bad_n += 1
            if bad_n <= MAX_VIOLATIONS_PER_CLAUSE:
                rep.violation("c25-G-%d" % bad_n, {
                    "what": "C25 clause G: the validator run as a process does not give the expected exit status / files (%s)" % name,
                    "inputs": {"stream_hex": data.hex(), "argv": ["<in.vc2>", "--output", "<out>/pic_%d.raw"] + opts, "command": "python -m vc2_conformance.scripts.vc2_bitstream_validator"},
                    "expected": {"exit": want_status, "files": want_files}, "observed": {"exit": p.returncode, "files": files[:8]},
                    "stdout_head": out.decode("utf-8", "replace")[:300], "stderr_tail": err.decode("utf-8", "replace")[-400:]})
    return len(procs)


REGISTER = {
    "C25": dict(
        extra=[check],
        level="other",
        assumptions=[
            "BOUNDED (not proved): the command is executed on a finite set of files - the conformant corpus (encoder variants, decoder test-case generators "
            "except 'real_pictures', hand-written structures), systematic and seeded random mutations of it, and degenerate files; counts are recorded per clause",
            "TRUSTED: streams produced by the project's encoder / test-case generators / serialiser from conformant structures are conformant (clause A's oracle); "
            "the list of mutations declared non-conformant follows ST 2042-1 (10.3, 10.4, 10.5, 11.1, 12.2, 14, Table 10.1)",
            "TRUSTED: 'the decoder's output' is what vc2_conformance.decoder.parse_stream passes to its output callback in a separate run on the same bytes "
            "(for lossless encoder streams additionally the pictures given to the encoder); the raw/JSON layout is taken from docs/source/user_guide/file_format.rst",
            "NOT COVERED: output locations that cannot be written, invalid printf templates, very large streams, a real terminal (status line on a tty)",
        ],
        manifest=dict(
            category="other",
            technique="bounded execution of the real command (in-process main() on scratch files, plus a few real processes) against oracles written from the "
                      "statement: conformance by construction / by designed violation of the standard, an independent writer of the documented picture file format, "
                      "and differential comparison with the decoder library on exhaustive single-bit flips and seeded random mutations",
            text="For every stream of a conformant corpus (encoder, test-case generators, serialiser) under 12 output patterns and 6 option sets the command must exit 0 and "
                 "leave exactly one correctly numbered .raw/.json pair per decoded picture whose bytes equal an independent serialisation of the decoder's output; for every "
                 "designed non-conformant stream it must exit 2 and print the located explanation; on arbitrary mutations its verdict must agree with the decoder library; "
                 "it must never exit 3 or die with a traceback (including the empty file with the status line enabled).",
            note="Bounded stand-in, never counted as proved.  Conformance of the mutated streams in clause E is judged by the decoder library itself (differential), "
                 "so clause E checks faithfulness of the command, not correctness of the decoder (that is C02).",
        ),
    )
}
