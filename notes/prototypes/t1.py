import z3, time
def prove(name, f, timeout=20000):
    s=z3.Solver(); s.set("timeout",timeout); s.add(z3.Not(f))
    t=time.time(); r=s.check(); print(name, "PROVED" if r==z3.unsat else r, "%.2fs"%(time.time()-t))
    if r==z3.sat: print(s.model())
a,b,D,k,N=z3.Ints('a b D k N')
# python floor div for positive divisor == z3 div (euclid) for D>0
prove("mono", z3.Implies(z3.And(b>=0,D>0), (a+b)/D >= a/D))
prove("subadd", z3.Implies(z3.And(b>=0,D>0), (a+b)/D - a/D <= b/D + 1))
# quant bounds
c,F,off=z3.Ints('c F off')
q=(4*c)/F
m=z3.If(q!=0,(q*F+off+2)/4,0)
prove("quant-bound", z3.Implies(z3.And(c>=0,F>=5,off==(F+1)/2), z3.And(4*(m-c)<F, 4*(c-m)<F, m>=0)))
