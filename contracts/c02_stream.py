"""C02 / C01 / C10: contracts for decoder/assertions.py and decoder/stream.py (sequence level)."""
from pyvc.api import *
from contracts.c02_common import *
from vc2_conformance.decoder.exceptions import *  # noqa: F401,F403
from vc2_data_tables import ParseCodes, Profiles, Levels

A = "vc2_conformance.decoder.assertions."
S_ = "vc2_conformance.decoder.stream."

FRAME_IO = c20_decoder_io.FRAME_IO
IO_POST = ["dinv(state)", 'has(state, "_recorded_bytes") == old(has(state, "_recorded_bytes"))']


@inline
def is_parse_code(x):
    return x == 0x00 or x == 0x10 or x == 0x20 or x == 0x30 or x == 0xC8 or x == 0xE8 or x == 0xCC or x == 0xEC


# ---------------------------------------------------------------------------------------------------
# assertions.py


@spec(A + "assert_parse_code_in_sequence")
class _apcis:
    args = {"parse_code": "int", "matcher": "opaque:Matcher", "exception_type": "class"}
    requires = ["is_parse_code(parse_code)"]
    modifies = ["matcher.m_count"]
    raises = {"@exception_type": None}
    ensures = [
        "matcher.m_count == old(matcher.m_count) + 1",
        "matcher.m_generic == old(matcher.m_generic)",
        # (10.4.1) the generic matcher lets only a sequence header start a sequence
        "implies(old(matcher.m_generic) and old(matcher.m_count) == 0, parse_code == 0x00)",
    ]
    invariants = {1: ["True"]}


@spec(A + "assert_parse_code_sequence_ended")
class _apcse:
    args = {"matcher": "opaque:Matcher", "exception_type": "class"}
    requires = []
    modifies = []
    raises = {"@exception_type": None}
    ensures = []
    invariants = {1: ["True"]}


@inline
def lcv_ok(state):
    """The level-constraint record exists and already holds the level (ValueNotAllowedInLevel.explain() reads it)."""
    return has(state, "_level_constrained_values") and state.g_lcv_level


@spec(A + "assert_level_constraint")
class _alc:
    """TRUSTED: body uses the constraint-table library (ValueSet / allowed_values_for, bounded-checked under C17) and an OrderedDict."""
    args = {"state": STATE, "key": "str", "value": "int"}
    # the level must be the first value recorded: ValueNotAllowedInLevel.explain() looks it up
    requires = ['key == "level" or lcv_ok(state)']
    modifies = ['state["_level_constrained_values"]', "state.g_lcv_level"]
    raises = {"ValueNotAllowedInLevel": None}
    ensures = ["lcv_ok(state)"]
    trusted = "constraint-table queries (allowed_values_for / ValueSet.__contains__) never raise and OrderedDict item assignment succeeds; bounded-checked under C17"


@spec(A + "assert_picture_number_incremented_as_expected")
class _apn:
    args = {"state": STATE, "picture_number_offset": "opaque"}
    requires = ['has(state, "picture_number") and has(state, "picture_coding_mode") and has(state, "_num_pictures_in_sequence")',
                'has(state, "_last_picture_number") == has(state, "_last_picture_number_offset")']
    modifies = ['state["_last_picture_number"]', 'state["_last_picture_number_offset"]', 'state["_num_pictures_in_sequence"]']
    raises = {
        "NonConsecutivePictureNumbers": 'has(state, "_last_picture_number") and state["picture_number"] != (state["_last_picture_number"] + 1) % 4294967296',
        "EarliestFieldHasOddPictureNumber": 'state["picture_coding_mode"] == 1 and state["_num_pictures_in_sequence"] % 2 == 0 and state["picture_number"] % 2 == 1',
    }
    ensures = [
        'has(state, "_last_picture_number") and has(state, "_last_picture_number_offset") and has(state, "_num_pictures_in_sequence")',
        'state["_last_picture_number"] == state["picture_number"]',
        'state["_num_pictures_in_sequence"] == old(state["_num_pictures_in_sequence"]) + 1',
        # C01: accepted exactly when the numbering rule holds
        'implies(old(has(state, "_last_picture_number")), state["picture_number"] == (old(state["_last_picture_number"]) + 1) % 4294967296)',
        'implies(state["picture_coding_mode"] == 1 and old(state["_num_pictures_in_sequence"]) % 2 == 0, state["picture_number"] % 2 == 0)',
    ]


@spec(A + "assert_major_version_is_minimal")
class _amv:
    args = {"state": STATE}
    requires = ['has(state, "major_version") and has(state, "_num_pictures_in_sequence")']
    modifies = []
    raises = {"MajorVersionTooHigh": 'not (state["_num_pictures_in_sequence"] == 0 and state["major_version"] == 3) and '
                                     'state["major_version"] > (state["_expected_major_version"] if has(state, "_expected_major_version") else 1)'}
    raises_exact = True
    ensures = []


# what the explain() methods of these exceptions need of their constructor arguments (C02, second sentence)
raise_requires(ParseCodeNotAllowedInProfile, "is_parse_code(a0) and (a1 == 0 or a1 == 3)", "explain() calls ParseCodes(parse_code) and Profiles(profile)")
raise_requires(ParseCodeNotSupportedByVersion, "is_parse_code(a0)", "explain() calls ParseCodes(parse_code)")
raise_requires(ProfileNotSupportedByVersion, "a0 == 0 or a0 == 3", "explain() calls Profiles(profile)")
raise_requires(MissingNextParseOffset, "is_parse_code(a0)", "explain() calls ParseCodes(parse_code)")

# ---------------------------------------------------------------------------------------------------
# stream.py


@spec(S_ + "auxiliary_data")
class _aux:
    args = {"state": STATE}
    requires = ["dinv(state)", 'has(state, "next_parse_offset")']
    modifies = FRAME_IO
    raises = {"UnexpectedEndOfStream": None}
    ensures = IO_POST
    invariants = {1: IO_POST}


@spec(S_ + "padding")
class _pad:
    args = {"state": STATE}
    requires = ["dinv(state)", 'has(state, "next_parse_offset")']
    modifies = FRAME_IO
    raises = {"UnexpectedEndOfStream": None}
    ensures = IO_POST
    invariants = {1: IO_POST}


@inline
def seq_keys_consistent(state):
    """Invariants on key presence that hold between data units of a sequence (derived from the code)."""
    return (
        has(state, "_generic_sequence_matcher") and state["_generic_sequence_matcher"].m_generic
        and state["_generic_sequence_matcher"].m_count >= 0
        and has(state, "next_parse_offset") == has(state, "_last_parse_info_offset")
        and implies(has(state, "_level_sequence_matcher"), has(state, "level")
                    and state["_level_sequence_matcher"] != state["_generic_sequence_matcher"])
        and implies(has(state, "profile"), state["profile"] == 0 or state["profile"] == 3)
        and not has(state, "_recorded_bytes")
    )


@spec(S_ + "parse_info")
class _parse_info:
    args = {"state": STATE}
    requires = ["dinv(state)", "seq_keys_consistent(state)"]
    modifies = FRAME_IO + ['state["parse_code"]', 'state["next_parse_offset"]', 'state["previous_parse_offset"]',
                           'state["_last_parse_info_offset"]', 'state["_expected_major_version"]',
                           'state["_generic_sequence_matcher"].m_count', 'state["_level_sequence_matcher"].m_count if has(state, "_level_sequence_matcher") else None']
    raises = {"ConformanceError": None}
    ensures = IO_POST + [
        "seq_keys_consistent(state)",
        'has(state, "parse_code") and is_parse_code(state["parse_code"])',
        'has(state, "next_parse_offset") and has(state, "previous_parse_offset") and has(state, "_expected_major_version")',
        'state["_generic_sequence_matcher"].m_count == old(state["_generic_sequence_matcher"].m_count) + 1',
        # (10.4.1) a sequence starts with a sequence header
        'implies(old(state["_generic_sequence_matcher"].m_count) == 0, state["parse_code"] == 0x00)',
        # (C.2.2) picture / fragment parse codes are of the class the profile allows
        'implies(has(state, "profile") and ((state["parse_code"] & 0xF8) == 0xC8 or (state["parse_code"] & 0xF8) == 0xE8), '
        '((state["parse_code"] & 0xF8) == 0xC8) == (state["profile"] == 0))',
        'state["next_bit"] == 7',
        # C01 (10.5.1): what every accepted parse_info satisfies
        'has(state, "_last_parse_info_offset") and 8 * state["_last_parse_info_offset"] + 104 == dpos(state)',
        'implies(state["parse_code"] == 0x10, state["next_parse_offset"] == 0)',
        'implies(state["parse_code"] == 0x00 or state["parse_code"] == 0x20 or state["parse_code"] == 0x30, state["next_parse_offset"] != 0)',
        'not (1 <= state["next_parse_offset"] and state["next_parse_offset"] < 13)',
        'implies(not old(has(state, "_last_parse_info_offset")), state["previous_parse_offset"] == 0)',
        'implies(old(has(state, "_last_parse_info_offset")), '
        'state["previous_parse_offset"] == state["_last_parse_info_offset"] - old(state["_last_parse_info_offset"]))',
        'implies(old(has(state, "next_parse_offset")) and old(state["next_parse_offset"]) != 0, '
        'old(state["next_parse_offset"]) == state["_last_parse_info_offset"] - old(state["_last_parse_info_offset"]))',
        'implies(has(state, "major_version"), state["major_version"] >= (3 if (state["parse_code"] & 0x0C) == 0x0C else 1))',
    ]


from contracts.c02_corpus import MONITOR_DRIVER  # noqa: E402,F401  (native fallback: run-time monitoring over corpus streams)
