"""C02 / C01 / C10: picture_parse, fragments, reset_state, parse_sequence, parse_stream."""
from pyvc.api import *
from contracts.c02_common import *
from contracts.c02_stream import lcv_ok, FRAME_IO, IO_POST, is_parse_code, seq_keys_consistent  # noqa: F401
from contracts.c02_sequence_header import coding_params_known, hdr_known, vp_full  # noqa: F401
from contracts.c02_picture import ld_code, hq_code, qm_shape, tp_known, wavelet_known, slices_known, TP_MOD, TP_KEYS  # noqa: F401
from contracts.c02_transform_data import slice_ctx, transforms_ok, FRAME_IOB  # noqa: F401
from vc2_conformance.decoder.exceptions import *  # noqa: F401,F403

PS = "vc2_conformance.decoder.picture_syntax."
FS = "vc2_conformance.decoder.fragment_syntax."
S_ = "vc2_conformance.decoder.stream."
ST = "vc2_conformance.pseudocode.state."
PD = "vc2_conformance.pseudocode.picture_decoding."


@inline
def numbering_ok(state):
    return (has(state, "_num_pictures_in_sequence") and state["_num_pictures_in_sequence"] >= 0
            and has(state, "_last_picture_number") == has(state, "_last_picture_number_offset"))


PIC_PRE = ["dinv(state)", 'not has(state, "_recorded_bytes")', "hdr_known(state)", "numbering_ok(state)",
           'has(state, "parse_code") and (ld_code(state["parse_code"]) or hq_code(state["parse_code"]))']
NUM_MOD = ['state["picture_number"]', 'state["_last_picture_number"]', 'state["_last_picture_number_offset"]', 'state["_num_pictures_in_sequence"]']
TD_MOD = FRAME_IOB + ['state["quantizer"]', "all_grids()", 'state["y_transform"]', 'state["c1_transform"]', 'state["c2_transform"]']


@spec(PS + "picture_header")
class _ph:
    args = {"state": STATE}
    requires = PIC_PRE
    modifies = FRAME_IO + NUM_MOD
    raises = {"ConformanceError": None}
    ensures = IO_POST + ["hdr_known(state)", "numbering_ok(state)", 'has(state, "picture_number") and has(state, "_last_picture_number")',
                         'state["_last_picture_number"] == state["picture_number"]',
                         'state["_num_pictures_in_sequence"] == old(state["_num_pictures_in_sequence"]) + 1']


@spec(PS + "wavelet_transform")
class _wt:
    args = {"state": STATE}
    requires = PIC_PRE
    modifies = TP_MOD + TD_MOD
    raises = {"ConformanceError": None}
    ensures = IO_POST + ["hdr_known(state)", "tp_known(state)", "slice_ctx(state)"]


@spec(PS + "picture_parse")
class _ppic:
    args = {"state": STATE}
    requires = PIC_PRE
    modifies = TP_MOD + TD_MOD + NUM_MOD
    raises = {"ConformanceError": None}
    ensures = IO_POST + ["hdr_known(state)", "tp_known(state)", "slice_ctx(state)", "numbering_ok(state)", 'has(state, "picture_number")',
                         'state["_num_pictures_in_sequence"] == old(state["_num_pictures_in_sequence"]) + 1']


# ---- fragments -----------------------------------------------------------------------------------------


@inline
def frag_ok(state):
    """Invariant on the fragmented-picture bookkeeping between data units."""
    r = state["_fragment_slices_remaining"]
    return (has(state, "_fragment_slices_remaining") and r >= 0
            and implies(r > 0, hdr_known(state) and tp_known(state) and transforms_ok(state) and coding_params_known(state)
                        and has(state, "fragment_slices_received") and state["fragment_slices_received"] >= 0
                        and state["fragment_slices_received"] + r == state["slices_x"] * state["slices_y"]
                        and has(state, "_picture_initial_fragment_offset") and has(state, "_last_picture_number")
                        and has(state, "_last_picture_number_offset") and has(state, "fragmented_picture_done") and not state["fragmented_picture_done"]
                        and lcv_ok(state)))


FRAG_PRE = PIC_PRE + ["frag_ok(state)"]
FRAG_KEYS = ["fragment_data_length", "fragment_slice_count", "fragment_x_offset", "fragment_y_offset", "_picture_initial_fragment_offset"]


@spec(FS + "fragment_header")
class _fh:
    args = {"state": STATE}
    requires = FRAG_PRE
    modifies = FRAME_IO + NUM_MOD + ['state["%s"]' % k for k in FRAG_KEYS]
    raises = {"ConformanceError": None}
    ensures = IO_POST + ["hdr_known(state)", "numbering_ok(state)", "frag_ok(state)",
                         'has(state, "picture_number") and has(state, "fragment_slice_count") and state["fragment_slice_count"] >= 0',
                         'state["_fragment_slices_remaining"] == old(state["_fragment_slices_remaining"])',
                         'state["_num_pictures_in_sequence"] == old(state["_num_pictures_in_sequence"]) + (1 if state["fragment_slice_count"] == 0 else 0)',
                         # (14.2) a new picture only starts when the previous one is complete
                         'implies(state["fragment_slice_count"] == 0, old(state["_fragment_slices_remaining"]) == 0 and has(state, "_picture_initial_fragment_offset") '
                         'and has(state, "_last_picture_number") and state["_last_picture_number"] == state["picture_number"])',
                         # (14.2) slices arrive contiguously in raster order and never exceed the picture
                         'implies(state["fragment_slice_count"] != 0, state["fragment_slice_count"] <= state["_fragment_slices_remaining"] '
                         'and has(state, "fragment_x_offset") and has(state, "fragment_y_offset") '
                         'and state["fragment_y_offset"] * state["slices_x"] + state["fragment_x_offset"] == state["fragment_slices_received"] '
                         'and 0 <= state["fragment_x_offset"] and state["fragment_x_offset"] < state["slices_x"] '
                         'and state["picture_number"] == state["_last_picture_number"])']


@spec(FS + "initialize_fragment_state")
class _ifs:
    args = {"state": STATE}
    requires = ["wavelet_known(state)", "coding_params_known(state)", 'has(state, "slices_x") and has(state, "slices_y") and state["slices_x"] >= 1 and state["slices_y"] >= 1']
    modifies = ['state["y_transform"]', 'state["c1_transform"]', 'state["c2_transform"]', 'state["fragment_slices_received"]',
                'state["_fragment_slices_remaining"]', 'state["fragmented_picture_done"]']
    raises = {}
    ensures = ["transforms_ok(state)", 'has(state, "fragment_slices_received") and state["fragment_slices_received"] == 0',
               'has(state, "_fragment_slices_remaining") and state["_fragment_slices_remaining"] == state["slices_x"] * state["slices_y"]',
               'has(state, "fragmented_picture_done") and not state["fragmented_picture_done"]']


@spec(FS + "fragment_data")
class _fd:
    args = {"state": STATE}
    requires = FRAG_PRE + ['has(state, "fragment_slice_count") and state["fragment_slice_count"] >= 1',
                           'state["fragment_slice_count"] <= state["_fragment_slices_remaining"]',
                           'has(state, "fragment_x_offset") and has(state, "fragment_y_offset")',
                           'state["fragment_y_offset"] * state["slices_x"] + state["fragment_x_offset"] == state["fragment_slices_received"]',
                           '0 <= state["fragment_x_offset"] and state["fragment_x_offset"] < state["slices_x"]']
    modifies = FRAME_IOB + ['state["_level_constrained_values"]', "state.g_lcv_level", 'state["quantizer"]', "all_grids()", 'state["fragment_slices_received"]',
                            'state["_fragment_slices_remaining"]', 'state["fragmented_picture_done"]']
    raises = {"ConformanceError": None}
    ensures = IO_POST + ["hdr_known(state)", "frag_ok(state)", "slice_ctx(state)", 'has(state, "fragmented_picture_done")',
                         # (14.4) the picture is done exactly when every slice has arrived
                         'state["fragmented_picture_done"] == (state["_fragment_slices_remaining"] == 0)',
                         'state["_fragment_slices_remaining"] == old(state["_fragment_slices_remaining"]) - state["fragment_slice_count"]']
    invariants = {
        1: IO_POST + ["slice_ctx(state)", "hdr_known(state)", 'has(state, "fragment_slices_received") and has(state, "_fragment_slices_remaining") and has(state, "fragmented_picture_done")',
                      'state["fragment_slices_received"] == old(state["fragment_slices_received"]) + s',
                      'state["_fragment_slices_remaining"] == old(state["_fragment_slices_remaining"]) - s',
                      'state["fragment_slices_received"] + state["_fragment_slices_remaining"] == state["slices_x"] * state["slices_y"]',
                      'state["fragmented_picture_done"] == (state["_fragment_slices_remaining"] == 0)',
                      'has(state, "_picture_initial_fragment_offset") and has(state, "_last_picture_number") and has(state, "_last_picture_number_offset")'],
    }


@spec(FS + "fragment_parse")
class _fp:
    args = {"state": STATE}
    requires = FRAG_PRE
    modifies = TP_MOD + TD_MOD + NUM_MOD + ['state["%s"]' % k for k in FRAG_KEYS] + [
        'state["fragment_slices_received"]', 'state["_fragment_slices_remaining"]', 'state["fragmented_picture_done"]']
    raises = {"ConformanceError": None}
    split_body = True   # the two branches (first fragment / slice-carrying fragment) are proved as separate paths
    ensures = IO_POST + ["hdr_known(state)", "numbering_ok(state)", "frag_ok(state)", 'has(state, "fragmented_picture_done")',
                         'implies(state["fragmented_picture_done"], slice_ctx(state) and has(state, "picture_number"))',
                         # bookkeeping the output-count invariant of parse_sequence relies on (C09)
                         'state["fragmented_picture_done"] == (state["_fragment_slices_remaining"] == 0 and state["fragment_slice_count"] != 0)',
                         'implies(state["fragment_slice_count"] == 0, old(state["_fragment_slices_remaining"]) == 0 and state["_fragment_slices_remaining"] >= 1 '
                         'and state["_num_pictures_in_sequence"] == old(state["_num_pictures_in_sequence"]) + 1)',
                         'implies(state["fragment_slice_count"] != 0, old(state["_fragment_slices_remaining"]) >= 1 '
                         'and state["_num_pictures_in_sequence"] == old(state["_num_pictures_in_sequence"]))',
                         'has(state, "fragment_slice_count")']


# ---- reset_state / parse_sequence / parse_stream ---------------------------------------------------------------

from vc2_conformance.pseudocode.state import State, retained_state_fields  # noqa: E402

ALL_KEYS = list(State.entry_objs.keys())
CB_MOD = ['state["_output_picture_callback"].%s if has(state, "_output_picture_callback") else None' % f for f in ("g_out", "g_last_pic", "g_last_vp", "g_last_pcm")]
# C10 (from the property statement, not from the code): nothing but the I/O position, the file and the output
# callback may carry over from one sequence to the next
CARRIED_OVER = ["_output_picture_callback", "next_bit", "current_byte", "_file", "_recorded_bytes"]
NON_RETAINED = [k for k in ALL_KEYS if k not in CARRIED_OVER]


@spec(ST + "reset_state")
class _reset:
    args = {"state": STATE}
    requires = []
    modifies = ['state["%s"]' % k for k in NON_RETAINED]
    raises = {}
    # everything that is not retained is gone; retained entries are untouched (frame)
    ensures = ["not has(state, %r)" % k for k in NON_RETAINED]


@inline
def seq_progress(state):
    """Either a sequence header has been parsed in this sequence, or we are looking at the very first data unit, which is one."""
    return ((hdr_known(state) and has(state, "video_parameters"))
            or (state["_generic_sequence_matcher"].m_count == 1 and state["parse_code"] == 0x00 and not has(state, "profile")
                and not has(state, "_level_sequence_matcher") and not has(state, "_last_sequence_header_bytes")
                and not has(state, "_last_sequence_header_offset") and state["_fragment_slices_remaining"] == 0
                and not has(state, "_last_picture_number") and not has(state, "_last_picture_number_offset")))


@inline
def frag_a(state):
    return has(state, "_fragment_slices_remaining") and state["_fragment_slices_remaining"] >= 0


@inline
def pic_or_frag(pc):
    return ld_code(pc) or hq_code(pc)


@inline
def cls_link(state):
    """(C.2.2, checked by parse_info) picture and fragment parse codes are of the class the profile allows."""
    return implies(has(state, "profile") and pic_or_frag(state["parse_code"]), ld_code(state["parse_code"]) == (state["profile"] == 0))


@inline
def slices_known_p(state):
    """slices_known, with the slice-parameter class taken from the profile instead of the current parse code."""
    return (has(state, "slices_x") and has(state, "slices_y") and state["slices_x"] >= 1 and state["slices_y"] >= 1
            and implies(state["profile"] == 0, has(state, "slice_bytes_numerator") and has(state, "slice_bytes_denominator")
                        and state["slice_bytes_denominator"] >= 1 and state["slice_bytes_numerator"] >= state["slice_bytes_denominator"])
            and implies(state["profile"] == 3, has(state, "slice_prefix_bytes") and has(state, "slice_size_scaler")
                        and state["slice_prefix_bytes"] >= 0 and state["slice_size_scaler"] >= 1))


@inline
def frag_b(state):
    return implies(state["_fragment_slices_remaining"] > 0,
                   wavelet_known(state) and slices_known_p(state) and has(state, "quant_matrix")
                   and qm_shape(state["quant_matrix"], state["dwt_depth"], state["dwt_depth_ho"]))


@inline
def frag_c(state):
    return implies(state["_fragment_slices_remaining"] > 0, transforms_ok(state))


@inline
def frag_d(state):
    r = state["_fragment_slices_remaining"]
    return implies(r > 0, has(state, "fragment_slices_received") and state["fragment_slices_received"] >= 0
                   and state["fragment_slices_received"] + r == state["slices_x"] * state["slices_y"]
                   and has(state, "_picture_initial_fragment_offset") and has(state, "_last_picture_number")
                   and has(state, "_last_picture_number_offset") and has(state, "fragmented_picture_done") and not state["fragmented_picture_done"]
                   and lcv_ok(state) and hdr_known(state))


SEQ_INV = ["dinv(state)", 'not has(state, "_recorded_bytes")', "seq_keys_consistent(state)", 'has(state, "next_parse_offset")',
           'is_fresh(state["_generic_sequence_matcher"])',
           'implies(has(state, "_level_sequence_matcher"), is_fresh(state["_level_sequence_matcher"]))',
           'has(state, "parse_code") and is_parse_code(state["parse_code"])', "numbering_ok(state)",
           "frag_a(state)", "frag_b(state)", "frag_c(state)", "frag_d(state)", "seq_progress(state)", "cls_link(state)",
           'implies(state["parse_code"] == 0x10, state["next_parse_offset"] == 0)',
           'has(state, "_expected_major_version")', 'has(state, "_last_sequence_header_bytes") == has(state, "_last_sequence_header_offset")',
           'state["next_bit"] == 7']


@spec(S_ + "parse_sequence")
class _pseq:
    args = {"state": STATE}
    # C10: nothing but the I/O part of the state is required - every other entry is either removed by reset_state
    # or written before it is read within this call
    requires = ["dinv(state)", 'not has(state, "_recorded_bytes")']
    modifies = ['state["%s"]' % k for k in ALL_KEYS if k not in ("_output_picture_callback", "_file")] + [
        'state["_file"].fpos', "all_grids()", "state.g_lcv_level"] + CB_MOD
    raises = {"ConformanceError": None}
    ensures = ["dinv(state)", 'not has(state, "_recorded_bytes")',
               # C09: exactly one picture is output per picture data unit and per completed fragmented picture
               'implies(has(state, "_output_picture_callback"), '
               'state["_output_picture_callback"].g_out == old(state["_output_picture_callback"].g_out) + state["_num_pictures_in_sequence"])',
               # C01: what every accepted sequence satisfies (necessary conditions of acceptance, from the property statement)
               'has(state, "parse_code") and state["parse_code"] == 0x10',                      # ends with an end-of-sequence data unit
               "hdr_known(state)",                                                               # ... and contained a sequence header (which came first)
               'has(state, "_fragment_slices_remaining") and state["_fragment_slices_remaining"] == 0',  # fragmented pictures complete
               'implies(state["picture_coding_mode"] == 1, state["_num_pictures_in_sequence"] % 2 == 0)',  # whole frames
               'state["next_parse_offset"] == 0',                                                 # end of sequence has no next offset
               ]
    invariants = {1: SEQ_INV + ['existing_unchanged("val_m_count")', 'existing_unchanged("elem")', 'existing_unchanged("len")',
                                # C09: pictures output so far == pictures started - [a fragmented picture is still in progress]
                                'implies(has(state, "_output_picture_callback"), state["_output_picture_callback"].g_out == '
                                'old(state["_output_picture_callback"].g_out) + state["_num_pictures_in_sequence"] - (1 if state["_fragment_slices_remaining"] > 0 else 0))']}
    split_loops = [1]


@spec(S_ + "parse_stream")
class _pstream:
    args = {"state": STATE}
    requires = ["dinv(state)", 'not has(state, "_recorded_bytes")']
    modifies = ['state["%s"]' % k for k in ALL_KEYS if k not in ("_output_picture_callback", "_file")] + [
        'state["_file"].fpos', "all_grids()", "state.g_lcv_level"] + CB_MOD
    raises = {"ConformanceError": None}
    ensures = ["dinv(state)", "dpos(state) == nbits_total(state)"]
    invariants = {1: ["dinv(state)", 'not has(state, "_recorded_bytes")']}


from contracts import c09_picture_output  # noqa: E402,F401  (verified contract of picture_decode and below)
from contracts.c02_corpus import MONITOR_DRIVER  # noqa: E402,F401  (native fallback: run-time monitoring over corpus streams)
