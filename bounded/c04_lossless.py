"""C04 - lossless and unquantised encodings reconstruct pictures exactly (bounded stand-in, never "proved").

The contract is written from the property statement and is the same for every clause:

    PRE   the codec configuration is legal (11.6.2: the frame size divides evenly under the colour-difference
          sampling format and picture coding mode; slices_x, slices_y >= 1; excursions >= 1), every pixel of
          every input picture lies in 0 .. 2**depth - 1 with depth = ceil(log2(excursion + 1)) (11.6.3), and
          EITHER the configuration is lossless (high quality profile)
          OR     it is lossy and every slice of the serialised stream carries qindex 0
                 (decided by deserialising the stream with the bitstream deserialiser, not by trusting the encoder)
    POST  make_sequence -> autofill_and_serialise_stream -> init_io / parse_stream (the reference decoder) hands the
          output callback exactly as many pictures as were put in, in order, and Y, C1 and C2 of each are equal,
          sample for sample, to the input (the oracle is the identity on pictures; nothing of the code under
          check is copied).  No step raises: for an in-domain configuration an exception of the encoder,
          serialiser or decoder (incl. a ConformanceError on the encoder's own stream) is a violation.

Clause -> domain (every case = one full encode/serialise/decode of 1..N pictures through the real code):

  L1 lossless, transforms   exhaustive: every (wavelet_index, wavelet_index_ho) pair of the live WaveletFilters
                            enum (7x7) x depth shapes (dwt_depth, dwt_depth_ho) x picture contents; format, slices,
                            fragments, bit depths, quantisation matrix, picture numbers seeded per case.
  L2 lossless, formats      exhaustive: frame sizes (1x1 .. 16x8, odd sizes, 1-wide / 1-high chroma) x every legal
                            (4:4:4/4:2:2/4:2:0, frames/fields) x slice grids (incl. more slices than coefficients)
                            x fragment_slice_count (0, 1, 2, 3, all, all+1); transform and content seeded.
  L3 lossless, pixel range  every luma depth 1..16 (chroma depth seeded, incl. excursions that are not 2**n - 1)
                            x every wavelet_index (wavelet_index_ho equal or seeded) x extreme contents; plus "every
                            value" sequences in which each value 0 .. 2**d - 1 occurs in each component
                            (d <= 8 quick, d <= 12 thorough).
  L4 lossless, long slices  component lengths steered (dwt_depth 0, exp-Golomb lengths computed here from the
                            standard) to exactly 255/256/510/511/765/766 bytes +- 1 bit, and 12..16 bit noise in
                            one or two slices, so that slice_size_scaler > 1 is needed; minimum_slice_size_scaler.
  Q1 lossy HQ, qindex 0     every wavelet pair x depth shapes, generous picture_bytes (64 bits per padded
                            coefficient per slice) and the tightest picture_bytes (found by bisection on the
                            encoder's own qindex choice) +0, +1, +k; budgets at which a slice payload is 255k, 255k+1,
                            255k+2 bytes (8-bit length fields x slice_size_scaler); in domain iff the deserialised
                            qindex are all 0.
  Q2 lossy LD, qindex 0     the same for the low delay profile (DC prediction, slice_y_length fields, fractional
                            slice_bytes; boundary budgets = slice_bytes 2**j - 1, 2**j, 2**j + 1 where the width of
                            slice_y_length steps), plus the format corners of L2 (1-wide / 1-high / 1x1 DC bands).

Picture contents: all-min, all-max, mid, random constant, uniform noise, noise over {0, max}, near-extreme noise,
checkerboard / stripes of min and max, half-plane edge, single impulse on min / max background (corners, edges,
inside), ramp through all values, noise with an extreme last row and column (padding), independent kinds per component.

Bounds: pictures of at most 32x16 luma samples, at most 4 pictures per sequence (more only in the "every value"
sequences), dwt_depth + dwt_depth_ho <= 4, at most 128 slices, bit depths 1..16, level 'unconstrained'.
Sampling: everything not enumerated is drawn from random.Random(f(seed, family, index)); sizes are in SIZES below.
A case that exceeds CASE_SECONDS is abandoned and counted (never a violation).  At most WORKERS processes."""
import multiprocessing
import random
import signal
import time
from io import BytesIO

WORKERS = 6
CHUNK = 16
CASE_SECONDS = 120

KINDS = ["noise", "checker", "max", "min", "impulse", "extnoise", "lastdiff", "ramp", "const", "vstripes", "hstripes", "edge", "nearext", "mid", "mixed"]
# the quick tier enumerates a prefix of these lists, so the corners come first
SIZES_ALL = [(16, 8), (10, 12), (3, 5), (1, 1), (6, 4), (2, 2), (8, 4), (12, 4), (4, 4), (7, 3), (16, 2), (2, 16), (5, 1), (1, 6), (4, 8), (14, 8)]
GRIDS_ALL = [(1, 1), (2, 1), (1, 2), (3, 2), (8, 4), (2, 2), (4, 2), (3, 3), (5, 2), (1, 5), (16, 8), (7, 1)]
DEPTH_SHAPES_QUICK = [(1, 0), (2, 0), (3, 0), (0, 1), (1, 1), (0, 2), (1, 2), (2, 1)]
DEPTH_SHAPES_ALL = DEPTH_SHAPES_QUICK + [(0, 0), (4, 0), (0, 3), (0, 4), (2, 2), (3, 1), (1, 3)]
BIT_DEPTHS = [8, 8, 10, 12, 16, 1, 2, 7, 9, 11, 13, 3, 5, 15]

# number of cases per family and tier (the enumerated families ignore this and report their measured size)
SIZES = {
    "quick": dict(L1_kinds=2, L2_sizes=6, L2_grids=5, L2_frags=4, L3_kinds=2, L3_allvalues_maxdepth=8, L4_noise=6, Q_shapes=4, Q_formats=48),
    "thorough": dict(L1_kinds=8, L2_sizes=14, L2_grids=9, L2_frags=5, L3_kinds=8, L3_allvalues_maxdepth=12, L4_noise=40, Q_shapes=8, Q_formats=300),
}

FAMILIES = {
    "L1": "lossless HQ: every wavelet pair x depth shape x content",
    "L2": "lossless HQ: frame size x sampling format x coding mode x slice grid x fragments",
    "L3": "lossless HQ: every bit depth 1..16 x every wavelet_index x extreme contents; every-value sequences",
    "L4": "lossless HQ: component lengths at the 255-byte boundaries / slice_size_scaler > 1",
    "Q1": "lossy HQ coded with qindex 0 in every slice (generous and tightest picture_bytes)",
    "Q2": "lossy LD coded with qindex 0 in every slice (generous and tightest picture_bytes)",
}


class _CaseTimeout(BaseException):
    pass


# ----------------------------------------------------------------------------------------------------------------
# the standard's arithmetic, written out here (11.6.2, 11.6.3, A.4.4) - used to build legal inputs, never as oracle
# ----------------------------------------------------------------------------------------------------------------
def legal_format(w, h, cdf, pcm):
    """(11.6.2) luma / colour-difference picture dimensions, or None when they do not divide the frame evenly."""
    lw, lh, cw, ch = w, h, w, h
    if cdf >= 1:
        cw //= 2
    if cdf == 2:
        ch //= 2
    if pcm == 1:
        lh //= 2
        ch //= 2
    if min(lw, lh, cw, ch) < 1 or w % lw or w % cw or h % lh or h % ch:
        return None
    if (cdf >= 1 and w % 2) or (cdf == 2 and h % 2) or (pcm == 1 and h % 2) or (cdf == 2 and pcm == 1 and h % 4):
        return None
    return lw, lh, cw, ch


def depth_of_excursion(exc):
    """(11.6.3) intlog2(excursion + 1) = number of bits needed for 0 .. excursion."""
    return exc.bit_length()


def sint_bits(v):
    """(A.4.4) length of the signed interleaved exp-Golomb code of v."""
    n = (abs(v) + 1).bit_length() - 1
    return 2 * n + 1 + (1 if v else 0)


def padded(n, k):
    m = 1 << k
    return -(-n // m) * m


def max_coeffs_per_slice(case):
    """Upper bound on the number of transform coefficients (all three components) that fall into one slice: the
    subbands of the padded picture (13.2.3: level 0 is pw/2**(d+dh) x ph/2**d, each horizontal-only level adds one
    band and each 2-D level three bands of the size reached so far) are each cut into at most ceil(w/sx) x ceil(h/sy)."""
    lw, lh, cw, ch = legal_format(case["w"], case["h"], case["cdf"], case["pcm"])
    d, dh, sx, sy = case["d"], case["dh"], case["sx"], case["sy"]
    total = 0
    for (w, h) in ((lw, lh), (cw, ch), (cw, ch)):
        bw, bh = padded(w, d + dh) >> (d + dh), padded(h, d) >> d
        per = lambda: (-(-bw // sx)) * (-(-bh // sy))  # noqa: E731
        total += per()
        for _ in range(dh):
            total += per()
            bw *= 2
        for _ in range(d):
            total += 3 * per()
            bw *= 2
            bh *= 2
    return total


def generous_bytes(case):
    """Room in EVERY slice for the largest slice's coefficients at 2 * (depth + 2 * levels + 4) + 2 bits each (more than
    the exp-Golomb code of any coefficient an in-range picture can produce; if it were not, the case would merely be
    counted as outside the domain), rounded up, plus 16 bytes of slice headers."""
    ns = case["sx"] * case["sy"]
    depth = max(depth_of_excursion(case["yexc"]), depth_of_excursion(case["cexc"]))
    bits = 2 * (depth + 2 * (case["d"] + case["dh"]) + 4) + 2
    return ns * ((bits * max_coeffs_per_slice(case) + 7) // 8 + 16) + case.get("pb_extra", 0)


# ----------------------------------------------------------------------------------------------------------------
# inputs
# ----------------------------------------------------------------------------------------------------------------
def _plane(kind, rng, w, h, depth, pidx, pos):
    top = (1 << depth) - 1
    if kind == "min":
        return [[0] * w for _ in range(h)]
    if kind == "max":
        return [[top] * w for _ in range(h)]
    if kind == "mid":
        return [[1 << (depth - 1)] * w for _ in range(h)]
    if kind == "const":
        v = rng.randint(0, top)
        return [[v] * w for _ in range(h)]
    if kind == "noise":
        return [[rng.randint(0, top) for _ in range(w)] for _ in range(h)]
    if kind == "extnoise":
        return [[rng.choice((0, top)) for _ in range(w)] for _ in range(h)]
    if kind == "nearext":
        vals = sorted({0, min(1, top), max(top - 1, 0), top})
        return [[rng.choice(vals) for _ in range(w)] for _ in range(h)]
    if kind == "checker":
        return [[top if (x + y + pidx) % 2 else 0 for x in range(w)] for y in range(h)]
    if kind == "vstripes":
        return [[top if (x + pidx) % 2 else 0 for x in range(w)] for y in range(h)]
    if kind == "hstripes":
        return [[top if (y + pidx) % 2 else 0 for x in range(w)] for y in range(h)]
    if kind == "edge":
        return [[0 if x < (w + 1) // 2 else top for x in range(w)] for y in range(h)]
    if kind == "ramp":  # consecutive values in raster order, continued from picture to picture
        return [[(pos + y * w + x) & top for x in range(w)] for y in range(h)]
    if kind == "impulse":
        bg = rng.choice((0, top))
        p = [[bg] * w for _ in range(h)]
        x = rng.choice((0, w - 1, rng.randrange(w)))
        y = rng.choice((0, h - 1, rng.randrange(h)))
        p[y][x] = top - bg
        return p
    if kind == "lastdiff":  # the samples that padding replicates are extreme, the rest is noise
        p = [[rng.randint(0, top) for _ in range(w)] for _ in range(h)]
        a, b = rng.choice(((0, top), (top, 0), (top, top), (0, 0)))
        for y in range(h):
            p[y][w - 1] = a
        for x in range(w):
            p[h - 1][x] = b
        return p
    raise ValueError(kind)


def make_pictures(case):
    """The input pictures of a case: deterministic in the case alone."""
    if "planes" in case:  # explicit pictures (steered-length family)
        pics = []
        for i, pl in enumerate(case["planes"]):
            p = {k: [row[:] for row in pl[k]] for k in ("Y", "C1", "C2")}
            if case.get("pic_num0") is not None:
                p["pic_num"] = (case["pic_num0"] + i) & 0xFFFFFFFF
            pics.append(p)
        return pics
    lw, lh, cw, ch = legal_format(case["w"], case["h"], case["cdf"], case["pcm"])
    yd, cd = depth_of_excursion(case["yexc"]), depth_of_excursion(case["cexc"])
    rng = random.Random(case["cseed"])
    simple = [k for k in KINDS if k != "mixed"]
    pics = []
    for i in range(case["npics"]):
        kinds = [case["kind"]] * 3 if case["kind"] != "mixed" else [rng.choice(simple) for _ in range(3)]
        p = {
            "Y": _plane(kinds[0], rng, lw, lh, yd, i, i * lw * lh),
            "C1": _plane(kinds[1], rng, cw, ch, cd, i, i * cw * ch),
            "C2": _plane(kinds[2], rng, cw, ch, cd, i + 1, i * cw * ch + (1 << cd) // 2),
        }
        if case.get("pic_num0") is not None:
            p["pic_num"] = (case["pic_num0"] + i) & 0xFFFFFFFF
        pics.append(p)
    return pics


def custom_matrix(case):
    """A custom quantisation matrix in the hierarchy of 12.4.5.3 from the serial list case['qm'] (or None)."""
    if case.get("qm") is None:
        return None
    vals = iter(case["qm"])
    d, dh = case["d"], case["dh"]
    out = {}
    if dh == 0:
        out[0] = {"LL": next(vals)}
    else:
        out[0] = {"L": next(vals)}
        for lvl in range(1, dh + 1):
            out[lvl] = {"H": next(vals)}
    for lvl in range(dh + 1, dh + d + 1):
        out[lvl] = {"HL": next(vals), "LH": next(vals), "HH": next(vals)}
    return out


def codec_features(case, picture_bytes):
    import vc2_data_tables as T
    from vc2_conformance.codec_features import CodecFeatures
    from vc2_conformance.pseudocode.video_parameters import set_source_defaults

    vp = set_source_defaults(T.BaseVideoFormats.custom_format)
    vp.update(
        frame_width=case["w"], frame_height=case["h"], color_diff_format_index=T.ColorDifferenceSamplingFormats(case["cdf"]),
        source_sampling=T.SourceSamplingModes(case.get("ss", 0)), top_field_first=bool(case.get("tff", 1)),
        clean_width=case["w"], clean_height=case["h"], left_offset=0, top_offset=0,
        luma_offset=case.get("yoff", 0), luma_excursion=case["yexc"], color_diff_offset=case.get("coff", 0), color_diff_excursion=case["cexc"],
    )
    lossless = case["mode"] == "lossless"
    return CodecFeatures(
        name="c04", level=T.Levels.unconstrained, profile=T.Profiles.low_delay if case["mode"] == "ld" else T.Profiles.high_quality,
        picture_coding_mode=T.PictureCodingModes(case["pcm"]), video_parameters=vp,
        wavelet_index=T.WaveletFilters(case["wi"]), wavelet_index_ho=T.WaveletFilters(case["wih"]), dwt_depth=case["d"], dwt_depth_ho=case["dh"],
        slices_x=case["sx"], slices_y=case["sy"], fragment_slice_count=case["frag"], lossless=lossless,
        picture_bytes=None if lossless else picture_bytes, quantization_matrix=custom_matrix(case),
    )


# ----------------------------------------------------------------------------------------------------------------
# the code under check: encoder -> serialiser -> reference decoder; and the deserialiser for the lossy precondition
# ----------------------------------------------------------------------------------------------------------------
def encode_sequence(case, pictures, picture_bytes):
    from vc2_conformance.encoder import make_sequence

    kw = {}
    if case.get("min_sss", 1) != 1:
        kw["minimum_slice_size_scaler"] = case["min_sss"]
    return make_sequence(codec_features(case, picture_bytes), pictures, **kw)


def serialise(sequence):
    from vc2_conformance import bitstream as bs

    f = BytesIO()
    bs.autofill_and_serialise_stream(f, bs.Stream(sequences=[sequence]))
    return f.getvalue()


def decode(data):
    from vc2_conformance.decoder import init_io, parse_stream
    from vc2_conformance.pseudocode.state import State

    out = []

    def cb(picture, video_parameters, picture_coding_mode):
        out.append({k: [list(r) for r in picture[k]] for k in ("Y", "C1", "C2")})

    state = State(_output_picture_callback=cb)
    init_io(state, BytesIO(data))
    parse_stream(state)
    return out


def deserialise(data):
    from vc2_conformance import bitstream as bs
    from vc2_conformance.pseudocode.state import State

    with bs.Deserialiser(bs.BitstreamReader(BytesIO(data))) as des:
        bs.parse_stream(des, State())
    return des.context


def slice_fields(container):
    """(qindex of every slice, slice_size_scaler of every transform_parameters) of a Stream or Sequence description."""
    seqs = container["sequences"] if "sequences" in container else [container]
    q, sss = [], []
    for seq in seqs:
        for du in seq["data_units"]:
            td = tp = None
            if "picture_parse" in du:
                wt = du["picture_parse"]["wavelet_transform"]
                td, tp = wt["transform_data"], wt["transform_parameters"]
            elif "fragment_parse" in du:
                td = du["fragment_parse"].get("fragment_data")
                tp = du["fragment_parse"].get("transform_parameters")
            if tp is not None and "slice_size_scaler" in tp["slice_parameters"]:
                sss.append(tp["slice_parameters"]["slice_size_scaler"])
            if td is not None:
                for key in ("hq_slices", "ld_slices"):
                    for s in td.get(key, ()):
                        q.append(s["qindex"])
    return q, sss


def first_difference(want, got):
    if len(want) != len(got):
        return {"pictures_in": len(want), "pictures_out": len(got)}
    for i, (a, b) in enumerate(zip(want, got)):
        for c in ("Y", "C1", "C2"):
            if a[c] == b[c]:
                continue
            if len(a[c]) != len(b[c]) or any(len(r) != len(s) for r, s in zip(a[c], b[c])):
                return {"picture": i, "component": c, "shape_in": [len(a[c]), len(a[c][0])], "shape_out": [len(b[c]), len(b[c][0]) if b[c] else 0]}
            bad = [(y, x) for y, (r, s) in enumerate(zip(a[c], b[c])) for x, (u, v) in enumerate(zip(r, s)) if u != v]
            y, x = bad[0]
            return {"picture": i, "component": c, "y": y, "x": x, "input": a[c][y][x], "decoded": b[c][y][x], "differing_samples_in_component": len(bad)}
    return None


def _copy_pictures(pictures):
    return [{k: ([r[:] for r in v] if isinstance(v, list) else v) for k, v in p.items()} for p in pictures]


def round_trip(case, pictures, picture_bytes):
    """One execution of the contract.  Returns (status, observed): 'ok' | 'fail' | 'out' (lossy, some qindex != 0) |
    'undecided' (lossy, the stream could not be read back to decide the precondition)."""
    stage = "make_sequence"
    try:
        seq = encode_sequence(case, _copy_pictures(pictures), picture_bytes)
        stage = "autofill_and_serialise_stream"
        data = serialise(seq)
        info = {"stream_bytes": len(data)}
        if case["mode"] != "lossless" or case.get("want_sss"):
            # the precondition of the lossy clause (and the slice_size_scaler statistics): read the stream back.  If the
            # deserialiser itself fails the precondition is undecided: the execution is counted, not judged (C06 is
            # the property about the deserialiser)
            try:
                q, sss = slice_fields(deserialise(data))
            except _CaseTimeout:
                raise
            except Exception as e:
                if case["mode"] != "lossless":
                    return "undecided", {"deserialiser": type(e).__name__, "message": str(e)[:200]}
                q, sss = [], []
            info["slice_size_scaler"] = max(sss) if sss else None
            if case["mode"] != "lossless":
                if len(q) != len(pictures) * case["sx"] * case["sy"] or any(q):
                    return "out", {"qindex_max": max(q) if q else None, "slices_found": len(q)}
        stage = "parse_stream (reference decoder)"
        got = decode(data)
    except _CaseTimeout:
        raise
    except Exception as e:  # the contract forbids any exception for an in-domain configuration
        import traceback

        tb = traceback.extract_tb(e.__traceback__)
        return "fail", {"stage": stage, "exception": type(e).__name__, "message": str(e)[:300],
                        "where": "%s:%d %s" % (tb[-1].filename.split("/")[-1], tb[-1].lineno, tb[-1].name) if tb else None}
    diff = first_difference(pictures, got)
    if diff is not None:
        return "fail", dict(diff, stage="decoded picture vs input picture", **info)
    return "ok", info


def all_qindex_zero(case, pictures, picture_bytes):
    """Search predicate for the tightest budget (encoder's own choice, before serialisation).  The two documented
    'picture_bytes too small' errors mean 'no'."""
    from vc2_conformance.encoder.exceptions import InsufficientHQPictureBytesError, InsufficientLDPictureBytesError

    from vc2_conformance.encoder.pictures import make_picture_data_units

    cf = codec_features(case, picture_bytes)
    units = []
    try:
        for p in _copy_pictures(pictures):
            units.extend(make_picture_data_units(cf, p, 0, case.get("min_sss", 1)))
    except (InsufficientHQPictureBytesError, InsufficientLDPictureBytesError):
        return False
    seq = {"data_units": units}
    q, _ = slice_fields(seq)
    return bool(q) and not any(q)


def run_case(case):
    """Runs every execution a case stands for.  Returns a list of (label, picture_bytes, status, observed)."""
    pictures = make_pictures(case)
    yd, cd = depth_of_excursion(case["yexc"]), depth_of_excursion(case["cexc"])
    assert all(0 <= v < (1 << (yd if c == "Y" else cd)) for p in pictures for c in ("Y", "C1", "C2") for r in p[c] for v in r), "generator produced an out-of-range sample"
    if case["mode"] == "lossless":
        return [("lossless", None) + round_trip(case, pictures, None)]
    hi = generous_bytes(case)
    out = [("generous", hi) + round_trip(case, pictures, hi)]
    for pb in case.get("budgets", ()):
        out.append(("field-boundary", pb) + round_trip(case, pictures, pb))
    if case.get("tight") and out[0][2] == "ok":
        # bisection for the smallest picture_bytes at which the encoder itself picks qindex 0 everywhere (predicate
        # false at lo = 0, true at hi); it only PROPOSES budgets, the executions below are judged like any other
        lo = 0
        while hi - lo > 1:
            mid = (lo + hi) // 2
            try:
                fits = all_qindex_zero(case, pictures, mid)
            except _CaseTimeout:
                raise
            except Exception as e:  # not an execution of the contract (the budget may be too small): counted, not judged
                out.append(("search", mid, "search-error", {"exception": type(e).__name__, "message": str(e)[:200]}))
                return out
            if fits:
                hi = mid
            else:
                lo = mid
        for k in sorted(set([0, 1] + list(case["tight"]))):
            out.append(("tightest+%d" % k, hi + k) + round_trip(case, pictures, hi + k))
    return out


# ----------------------------------------------------------------------------------------------------------------
# case generators (parent process; deterministic in seed and tier)
# ----------------------------------------------------------------------------------------------------------------
def _rng(seed, fam, i):
    return random.Random("c04/%d/%s/%d" % (seed, fam, i))


def _formats():
    return [(cdf, pcm) for cdf in (0, 1, 2) for pcm in (0, 1)]


def _fill(rng, case, wavelets, nmat):
    """Draw everything that the family did not fix."""
    c = dict(case)
    if "w" not in c:
        while True:
            w, h = rng.choice(SIZES_ALL[:8] + [(16, 8)] * 4 + [(8, 4)] * 2)
            cdf, pcm = c.get("cdf", rng.randrange(3)), c.get("pcm", rng.randrange(2))
            if legal_format(w, h, cdf, pcm):
                break
        c.update(w=w, h=h, cdf=cdf, pcm=pcm)
    if "wi" not in c:
        c["wi"] = rng.choice(wavelets)
        c["wih"] = c["wi"] if rng.random() < 0.5 else rng.choice(wavelets)
    if "d" not in c:
        c["d"], c["dh"] = rng.choice(DEPTH_SHAPES_ALL)
    if "sx" not in c:
        c["sx"], c["sy"] = rng.choice(GRIDS_ALL[:8])
    ns = c["sx"] * c["sy"]
    if "frag" not in c:
        c["frag"] = rng.choice((0, 0, 0, 1, 2, 3, ns, ns + 1))
    if "yexc" not in c:
        yd = rng.choice(BIT_DEPTHS)
        cd = yd if rng.random() < 0.6 else rng.choice(BIT_DEPTHS)
        c["yexc"], c["cexc"] = _excursion(rng, yd), _excursion(rng, cd)
    yd, cd = depth_of_excursion(c["yexc"]), depth_of_excursion(c["cexc"])
    c.setdefault("yoff", rng.choice((0, 0, 16, 64, rng.randrange(1 << yd))))
    c.setdefault("coff", rng.choice((0, 1 << (cd - 1), rng.randrange(1 << cd))))
    c.setdefault("ss", rng.randrange(2))
    c.setdefault("tff", rng.randrange(2))
    if "qm" not in c:
        has_default = (c["wi"], c["wih"], c["d"], c["dh"]) in nmat
        if has_default and rng.random() < 0.7:
            c["qm"] = None
        else:
            c["qm"] = [rng.choice((0, 0, 1, 2, 3, 4, 7, 12)) for _ in range(1 + c["dh"] + 3 * c["d"])]
    if "npics" not in c:
        c["npics"] = rng.choice((2, 2, 2, 4)) if c["pcm"] == 1 else rng.choice((1, 1, 1, 2, 3))
    if "pic_num0" not in c:
        c["pic_num0"] = rng.choice((None, None, 0, 2 * rng.randrange(1 << 20), 0xFFFFFFFE, 0xFFFFFFFE - 2 * rng.randrange(2)))
    if "min_sss" not in c:
        c["min_sss"] = rng.choice((1, 1, 1, 1, 1, 2, 3, 7)) if c["mode"] != "ld" else 1
    c.setdefault("kind", rng.choice(KINDS))
    c.setdefault("cseed", rng.randrange(1 << 30))
    if c["mode"] != "lossless":
        c.setdefault("pb_extra", rng.choice((0, rng.randrange(ns), rng.randrange(ns * 3 + 1))))
    return c


def _excursion(rng, depth):
    """An excursion whose depth (11.6.3) is `depth`: usually 2**depth - 1, sometimes anything in [2**(depth-1), 2**depth - 1]."""
    lo, hi = max(1, 1 << (depth - 1)), (1 << depth) - 1
    return hi if rng.random() < 0.7 else rng.randint(lo, hi)


def _steered_plane(rng, w, h, depth, total_bits):
    """A plane (dwt_depth 0, so coefficient = sample - 2**(depth-1)) whose signed exp-Golomb code lengths add up to
    exactly total_bits with a non-zero last coefficient; None if impossible.  Lengths: 1 bit for 0, 2n+2 for
    2**n <= |v|+1 < 2**(n+1)."""
    n = w * h
    half = 1 << (depth - 1)
    zeros = total_bits % 2  # non-zero codes are even: parity is fixed with one (non-trailing) zero
    rest, cnt = total_bits - zeros, n - zeros
    if cnt < 1 or rest < 4 * cnt or rest > 2 * depth * cnt:
        return None
    base = (rest // cnt) // 2 * 2
    bump = (rest - base * cnt) // 2
    lens = [base + 2] * bump + [base] * (cnt - bump)
    if base + (2 if bump else 0) > 2 * depth:
        return None
    rng.shuffle(lens)
    vals = []
    for ln in lens:
        k = ln // 2 - 1  # 2**k <= |v| + 1 < 2**(k+1)
        mag = rng.randint(max((1 << k) - 1, 1), min((1 << (k + 1)) - 2, half))
        v = mag if (mag <= half - 1 and rng.random() < 0.5) else -mag
        assert -half <= v <= half - 1 and sint_bits(v) == ln, (v, ln, depth)
        vals.append(v)
    if zeros:
        vals.insert(0, 0)
    assert sum(sint_bits(v) for v in vals) == total_bits and vals[-1] != 0
    return [[vals[y * w + x] + half for x in range(w)] for y in range(h)]


def generate_cases(tier, seed):
    """-> {family: [case, ...]}"""
    import vc2_data_tables as T

    S = SIZES[tier]
    wavelets = [int(x) for x in T.WaveletFilters]
    nmat = set((int(a), int(b), c, d) for (a, b, c, d) in T.QUANTISATION_MATRICES)
    shapes = DEPTH_SHAPES_QUICK if tier == "quick" else DEPTH_SHAPES_ALL
    fams = {k: [] for k in FAMILIES}

    # L1: every wavelet pair x depth shape x content
    kinds = KINDS[:S["L1_kinds"]]
    for wi in wavelets:
        for wih in wavelets:
            for (d, dh) in shapes:
                for kind in kinds:
                    i = len(fams["L1"])
                    fams["L1"].append(_fill(_rng(seed, "L1", i), dict(mode="lossless", wi=wi, wih=wih, d=d, dh=dh, kind=kind), wavelets, nmat))

    # L2: formats x slice grids x fragments
    for (w, h) in SIZES_ALL[:S["L2_sizes"]]:
        for (cdf, pcm) in _formats():
            if not legal_format(w, h, cdf, pcm):
                continue
            for (sx, sy) in GRIDS_ALL[:S["L2_grids"]]:
                ns = sx * sy
                for frag in sorted(set([0, 1, ns + 1, 3, 2, ns][:S["L2_frags"]])):
                    i = len(fams["L2"])
                    r = _rng(seed, "L2", i)
                    small = [s for s in DEPTH_SHAPES_ALL if s[0] + s[1] <= 3]
                    d, dh = r.choice(small)
                    fams["L2"].append(_fill(r, dict(mode="lossless", w=w, h=h, cdf=cdf, pcm=pcm, sx=sx, sy=sy, frag=frag, d=d, dh=dh), wavelets, nmat))

    # L3: every luma depth x every wavelet_index x extreme contents; every-value sequences
    ext = ["nearext", "checker", "max", "min", "impulse", "extnoise", "ramp", "noise"][:S["L3_kinds"]]
    for yd in range(1, 17):
        for wi in wavelets:
            for kind in ext:
                i = len(fams["L3"])
                r = _rng(seed, "L3", i)
                cd = yd if r.random() < 0.4 else r.randint(1, 16)
                wih = wi if r.random() < 0.7 else r.choice(wavelets)
                fams["L3"].append(_fill(r, dict(mode="lossless", wi=wi, wih=wih, kind=kind, yexc=_excursion(r, yd), cexc=_excursion(r, cd)), wavelets, nmat))
    for dep in range(1, S["L3_allvalues_maxdepth"] + 1):
        for wi in (wavelets if dep <= 8 else wavelets[:2] + wavelets[5:]):
            i = len(fams["L3"])
            r = _rng(seed, "L3v", i)
            w, h = (16, 8) if dep >= 5 else (4, 4)
            npics = max(1, -(-(1 << dep) // (w * h)))
            d, dh = r.choice([(1, 0), (2, 0), (0, 1), (1, 1), (3, 0)])
            fams["L3"].append(_fill(r, dict(mode="lossless", w=w, h=h, cdf=0, pcm=0, wi=wi, wih=wi, d=d, dh=dh, kind="ramp", npics=npics, all_values=dep,
                                            yexc=(1 << dep) - 1, cexc=(1 << dep) - 1, pic_num0=r.choice((None, 0, 0xFFFFFFFF - npics // 2))), wavelets, nmat))

    # L4: steered component lengths (dwt_depth 0) and long noisy slices
    targets = [255, 256, 510, 511, 765, 766, 1020] if tier != "quick" else [255, 256, 510, 765]
    for tb in targets:
        for delta in (-1, 0, 1):
            for comp in ("Y", "C1", "C2"):
                i = len(fams["L4"])
                r = _rng(seed, "L4", i)
                w, h, depth = 32, 8, 16
                want = {c: (tb * 8 + delta if c == comp else r.choice((8 * r.randint(130, tb - 20) + r.randrange(8), tb * 8 - r.randint(9, 40)))) for c in ("Y", "C1", "C2")}  # the steered component is the longest
                planes = {c: _steered_plane(r, w, h, depth, want[c]) for c in want}
                if any(p is None for p in planes.values()):
                    continue
                fams["L4"].append(_fill(r, dict(mode="lossless", w=w, h=h, cdf=0, pcm=0, d=0, dh=0, sx=1, sy=1, frag=r.choice((0, 1)), npics=1, planes=[planes],
                                                yexc=65535, cexc=65535, kind="steered", want_bits=want, want_sss=True, min_sss=1), wavelets, nmat))
    for j in range(S["L4_noise"]):
        i = len(fams["L4"])
        r = _rng(seed, "L4n", i)
        dep = r.choice((12, 14, 16, 16))
        w, h = r.choice(((16, 8), (32, 8), (32, 16), (16, 16)))
        fams["L4"].append(_fill(r, dict(mode="lossless", w=w, h=h, cdf=r.choice((0, 1, 2)), pcm=0, sx=r.choice((1, 1, 2)), sy=1, npics=1, kind=r.choice(("noise", "extnoise", "checker")),
                                        yexc=(1 << dep) - 1, cexc=(1 << dep) - 1, want_sss=True, min_sss=r.choice((1, 1, 2, 5))), wavelets, nmat))

    # Q1 / Q2: lossy with qindex 0
    qshapes = DEPTH_SHAPES_ALL[:S["Q_shapes"]] if tier != "quick" else [(1, 0), (2, 0), (1, 1), (0, 2)]
    for fam, mode in (("Q1", "hq"), ("Q2", "ld")):
        for wi in wavelets:
            for wih in wavelets:
                for (d, dh) in qshapes:
                    i = len(fams[fam])
                    r = _rng(seed, fam, i)
                    kind = KINDS[i % len(KINDS)]
                    c = _fill(r, dict(mode=mode, wi=wi, wih=wih, d=d, dh=dh, kind=kind), wavelets, nmat)
                    c["tight"] = [r.randint(2, 3 * c["sx"] * c["sy"] + 2)] if (i % 3 == 0 or tier != "quick") else None
                    fams[fam].append(c)
        # budgets at which the width / range of a length field changes (HQ: a slice payload of 255k, 255k+1, 255k+2
        # bytes = the 8-bit length fields times slice_size_scaler; LD: slice_bytes around 2**j, where the width
        # intlog2(8 * slice_bytes - 7) of slice_y_length steps); contents that are certain to fit with qindex 0 there
        for kind in ("mid", "const", "noise", "impulse", "min", "mixed") if tier != "quick" else ("mid", "noise"):
            for (sx, sy) in ((1, 1), (2, 1), (3, 2)) if tier != "quick" else ((1, 1), (2, 1)):
                i = len(fams[fam])
                r = _rng(seed, fam + "b", i)
                ns = sx * sy
                if mode == "hq":
                    per_slice = [4 + 255 * k + e for k in (1, 2, 3, 4) for e in (0, 1, 2)]
                else:
                    per_slice = [(1 << j) + e for j in (4, 5, 6, 7, 8, 9) for e in (-1, 0, 1)]
                budgets = [ns * b + r.choice((0, 0, r.randrange(ns))) for b in per_slice]
                dep = r.choice((1, 2, 4)) if kind == "noise" else r.choice((8, 10, 12))
                d, dh = r.choice([(1, 0), (0, 1), (1, 1), (2, 0)])
                fams[fam].append(_fill(r, dict(mode=mode, w=8, h=4, cdf=r.choice((0, 1, 2)), pcm=0, sx=sx, sy=sy, d=d, dh=dh, kind=kind, npics=1, budgets=budgets,
                                               yexc=(1 << dep) - 1, cexc=(1 << dep) - 1, min_sss=1, tight=None), wavelets, nmat))
        n = 0
        i0 = len(fams[fam])
        fmts = [(w, h, cdf, pcm, sx, sy) for (w, h) in SIZES_ALL for (cdf, pcm) in _formats() if legal_format(w, h, cdf, pcm) for (sx, sy) in GRIDS_ALL[:9]]
        r0 = _rng(seed, fam + "f", 0)
        r0.shuffle(fmts)
        for (w, h, cdf, pcm, sx, sy) in fmts[:S["Q_formats"]]:
            i = i0 + n
            n += 1
            r = _rng(seed, fam + "f", i)
            d, dh = r.choice([s for s in DEPTH_SHAPES_ALL if s[0] + s[1] <= 3])
            c = _fill(r, dict(mode=mode, w=w, h=h, cdf=cdf, pcm=pcm, sx=sx, sy=sy, d=d, dh=dh), wavelets, nmat)
            c["tight"] = [r.randint(2, 3 * sx * sy + 2)] if (n % 2 == 0 or tier != "quick") else None
            fams[fam].append(c)
    return fams


# ----------------------------------------------------------------------------------------------------------------
# workers
# ----------------------------------------------------------------------------------------------------------------
def _worker_init():
    import gc

    gc.freeze()


def _on_alarm(signum, frame):
    raise _CaseTimeout()


def _case_size(case):
    return (case["w"] * case["h"] * case.get("npics", 1), case["sx"] * case["sy"], case["d"] + case["dh"])


def run_chunk(task):
    fam, start, cases = task
    res = {"family": fam, "cases": 0, "evals": 0, "ok": 0, "out": 0, "abandoned": [], "fails": [], "nfails": 0, "samples": [], "tags": {}, "pairs": set(), "seconds": 0.0}
    old = signal.signal(signal.SIGALRM, _on_alarm)
    t0 = time.process_time()
    for j, case in enumerate(cases):
        res["cases"] += 1
        signal.setitimer(signal.ITIMER_REAL, CASE_SECONDS)
        try:
            runs = run_case(case)
        except _CaseTimeout:
            res["abandoned"].append(start + j)
            continue
        finally:
            signal.setitimer(signal.ITIMER_REAL, 0)
        for (label, pb, status, obs) in runs:
            res["evals"] += 1
            if status == "ok":
                res["ok"] += 1
                res["pairs"].add((case["wi"], case["wih"]))
                for tag, on in (("fields", case["pcm"] == 1), ("4:2:2", case["cdf"] == 1), ("4:2:0", case["cdf"] == 2), ("fragmented", case["frag"] > 0),
                                ("asymmetric depth", case["dh"] > 0), ("custom quant matrix", case.get("qm") is not None),
                                ("luma depth > 8", depth_of_excursion(case["yexc"]) > 8), ("odd luma depth", depth_of_excursion(case["yexc"]) % 2 == 1),
                                ("slice_size_scaler > 1", (obs.get("slice_size_scaler") or 1) > 1), ("tightest budget", label.startswith("tightest")),
                                ("budget at a length-field boundary", label == "field-boundary"),
                                ("more than one picture", case.get("npics", 1) > 1)):
                    if on:
                        res["tags"][tag] = res["tags"].get(tag, 0) + 1
                if len(res["samples"]) < 1 and j == 0:
                    res["samples"].append({"case_index": start + j, "picture_bytes": pb, "case": {k: v for k, v in case.items() if k != "planes"}, "observed": obs})
            elif status in ("undecided", "search-error"):
                key = "precondition undecided (deserialiser raised %s)" % obs.get("deserialiser") if status == "undecided" else "tightest-budget search stopped by %s of the encoder (not judged)" % obs.get("exception")
                res["tags"][key] = res["tags"].get(key, 0) + 1
                res["evals"] -= 1 if status == "search-error" else 0
            elif status == "out":
                res["out"] += 1
                if label == "generous":
                    res["tags"]["outside the domain although the budget is generous"] = res["tags"].get("outside the domain although the budget is generous", 0) + 1
            else:
                res["nfails"] += 1
                if len(res["fails"]) < 3:
                    res["fails"].append({"family": fam, "case_index": start + j, "label": label, "picture_bytes": pb, "case": case, "observed": obs, "size": _case_size(case)})
    signal.signal(signal.SIGALRM, old)
    res["seconds"] = time.process_time() - t0
    res["pairs"] = sorted(res["pairs"])
    return res


REPRO = ("cd /verif && [VERIF_REPO=<tree>] .venv/bin/python -c \"from pyvc import frontend; frontend.ensure_repo_on_path(); "
         "import json, bounded.c04_lossless as m; case = json.load(open('<this replay file>'))['inputs']['case']; "
         "pics = m.make_pictures(case); print(m.round_trip(case, pics, <inputs.picture_bytes>))\"")


def check(rep, tier, seed):
    from pyvc import frontend

    frontend.ensure_repo_on_path()
    import vc2_data_tables as T
    import vc2_conformance.bitstream  # noqa: F401  imported before forking: the workers share the tree under check
    import vc2_conformance.decoder  # noqa: F401
    import vc2_conformance.encoder  # noqa: F401

    tier = tier if tier in SIZES else "thorough"
    fams = generate_cases(tier, seed)
    tasks = [(fam, a, cases[a:a + CHUNK]) for fam, cases in fams.items() for a in range(0, len(cases), CHUNK)]
    order = {"L4": 0, "L3": 1, "Q1": 2, "Q2": 3, "L1": 4, "L2": 5}
    tasks.sort(key=lambda t: (order[t[0]], t[1]))  # the families with the longest cases first
    agg = {fam: {"cases": 0, "evals": 0, "ok": 0, "out": 0, "abandoned": [], "fails": [], "nfails": 0, "samples": [], "tags": {}, "pairs": set(), "seconds": 0.0} for fam in fams}
    ctx = multiprocessing.get_context("fork")
    with ctx.Pool(WORKERS, initializer=_worker_init) as pool:
        for r in pool.imap_unordered(run_chunk, tasks):
            a = agg[r["family"]]
            for k in ("cases", "evals", "ok", "out", "nfails", "seconds"):
                a[k] += r[k]
            a["abandoned"].extend(r["abandoned"])
            a["fails"].extend(r["fails"])
            a["samples"].extend(r["samples"])
            a["pairs"].update(tuple(p) for p in r["pairs"])
            for t, c in r["tags"].items():
                a["tags"][t] = a["tags"].get(t, 0) + c

    npairs = len(list(T.WaveletFilters)) ** 2
    domains = {
        "L1": "exhaustive over (wavelet_index, wavelet_index_ho) in WaveletFilters^2 (%d pairs) x (dwt_depth, dwt_depth_ho) in %s x content in %s; format / slices / fragments / bit depths / matrix / picture numbers seeded per case"
              % (npairs, (DEPTH_SHAPES_QUICK if tier == "quick" else DEPTH_SHAPES_ALL), KINDS[:SIZES[tier]["L1_kinds"]]),
        "L2": "exhaustive over frame sizes %s x legal (sampling format, coding mode) x slice grids %s x fragment_slice_count in %s (n = number of slices); transform, content, depths seeded"
              % (SIZES_ALL[:SIZES[tier]["L2_sizes"]], GRIDS_ALL[:SIZES[tier]["L2_grids"]], ["0", "1", "n+1", "3", "2", "n"][:SIZES[tier]["L2_frags"]]),
        "L3": "every luma depth 1..16 x 7 wavelets x contents %s (chroma depth, excursion form, format seeded); plus sequences of ramp pictures in which every value 0..2**d-1 occurs in Y, C1 and C2, d = 1..%d, every wavelet (d <= 8)"
              % (["nearext", "checker", "max", "min", "impulse", "extnoise", "ramp", "noise"][:SIZES[tier]["L3_kinds"]], SIZES[tier]["L3_allvalues_maxdepth"]),
        "L4": "dwt_depth 0, 32x8 16-bit 4:4:4, one slice: one component's coefficient code length steered to {255,256,510,...} bytes -1/0/+1 bit (each of Y, C1, C2); plus %d seeded 12..16 bit noise pictures up to 32x16 in 1-2 slices, minimum_slice_size_scaler in {1,2,5}"
              % SIZES[tier]["L4_noise"],
        "Q1": "high quality profile, lossless=False: every wavelet pair x depth shapes + %d seeded format/slice-grid corners; picture_bytes generous (64 bits per padded coefficient of the whole picture in every slice) and, for a stated share, tightest (bisection) +0, +1, +k; counted only if every deserialised qindex is 0"
              % SIZES[tier]["Q_formats"],
        "Q2": "low delay profile: every wavelet pair x depth shapes + %d seeded format/slice-grid corners; picture_bytes generous and tightest +0, +1, +k; counted only if every deserialised qindex is 0" % SIZES[tier]["Q_formats"],
    }
    for fam in FAMILIES:
        a = agg[fam]
        note = ("%d cases -> %d executions of encoder+serialiser+decoder: %d in domain and equal, %d outside the domain (lossy with some qindex != 0), %d failing, %d abandoned at %d s %s; "
                "wavelet pairs round-tripped: %d of %d; corner counts: %s; %.0f CPU-s"
                % (a["cases"], a["evals"], a["ok"], a["out"], a["nfails"], len(a["abandoned"]), CASE_SECONDS, sorted(a["abandoned"])[:8] or "", len(a["pairs"]), npairs,
                   ", ".join("%s=%d" % kv for kv in sorted(a["tags"].items())), a["seconds"]))
        rep.add_bounded("C04 " + fam + " - " + FAMILIES[fam], domains[fam] + " [%s tier]" % tier, a["evals"], False, distinct=a["ok"],
                        samples=sorted(a["samples"], key=lambda s: s["case_index"])[:2], note=note)
    rep.extra_coverage["c04_round_trips_in_domain"] = sum(a["ok"] for a in agg.values())
    rep.extra_coverage["c04_lossy_round_trips_with_all_qindex_0"] = {"hq": agg["Q1"]["ok"], "ld": agg["Q2"]["ok"]}

    # ---- violations: at most 3 per clause, smallest inputs first
    for fam in FAMILIES:
        fails = sorted(agg[fam]["fails"], key=lambda f: (f["size"], f["case_index"]))[:3]
        for f in fails:
            case = f["case"]
            lossy = case["mode"] != "lossless"
            payload = {
                "what": "C04 (%s): %s" % (fam, ("the round trip raised %s in %s" % (f["observed"].get("exception"), f["observed"].get("stage"))) if "exception" in f["observed"]
                                          else "the decoded picture differs from the input picture"),
                "inputs": {"case": case, "picture_bytes": f["picture_bytes"], "family": fam, "case_index": f["case_index"], "seed": seed, "tier": tier,
                           "pictures": make_pictures(case) if case["w"] * case["h"] * case.get("npics", 1) <= 600 else "regenerate with make_pictures(case)"},
                "expected": "decoder output == input pictures (Y, C1, C2 sample for sample, same number of pictures)" + (" since every slice has qindex 0" if lossy else " since the configuration is lossless"),
                "observed": f["observed"],
                "failing_executions_in_family": agg[fam]["nfails"],
                "reproduce": REPRO,
            }
            rep.violation("c04-%s-%d-%s" % (fam, f["case_index"], f["label"]), payload)


REGISTER = {
    "C04": dict(
        extra=[check],
        level="other",
        assumptions=[
            "BOUNDED (not proved): encoder -> serialiser -> reference decoder is executed on the finite domains listed under bounded_checks (pictures up to 32x16, "
            "dwt_depth + dwt_depth_ho <= 4, bit depths 1..16, up to 128 slices, level 'unconstrained'); larger pictures, deeper transforms and constrained levels are not covered",
            "the lossy clause is checked only for streams in which every deserialised slice carries qindex 0 (read back with the bitstream deserialiser, which is trusted for that); "
            "lossy executions with some qindex != 0 are outside the statement and are counted, not judged",
            "legality of a configuration (11.6.2 divisibility, depth = intlog2(excursion + 1)) is computed in this module from the standard's text; illegal formats are not exercised",
            "vc2_data_tables (lifting filter table, default quantisation matrices) is outside the tree under check and is shared by encoder and decoder",
        ],
        manifest=dict(
            category="other",
            technique="bounded native contract check: identity oracle on pictures over an enumerated / seeded domain of codec configurations, executed through the real "
                      "make_sequence, autofill_and_serialise_stream and parse_stream; lossy precondition (all qindex 0) decided by deserialising the stream; "
                      "tightest lossy budgets found by bisection; component lengths steered to the 8-bit length-field boundaries with exp-Golomb lengths computed from the standard",
            text="Every (wavelet_index, wavelet_index_ho) pair x symmetric and horizontal-only depth shapes x 15 picture contents (extremes, noise, constant, impulse, ramps), "
                 "frame sizes 1x1..16x8 incl. odd sizes x 4:4:4/4:2:2/4:2:0 x frames/fields x slice grids x fragment counts, every bit depth 1..16 incl. non-2**n-1 excursions and "
                 "every sample value for depths up to 8 (12 thorough), slices long enough to need slice_size_scaler > 1; lossy HQ and LD with generous and tightest picture_bytes "
                 "whenever all slices have qindex 0: the reference decoder returns the input pictures exactly and nothing raises.",
            note="A bounded stand-in, never counted as proved.  The oracle is the identity, so a change mirrored in encoder and decoder (e.g. in the shared lifting functions) that "
                 "keeps the round trip exact is, correctly, not reported here (conformance of the transform itself is C11).",
        ),
    )
}
