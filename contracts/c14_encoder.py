"""C14 - lossy encoding fills slices to the byte budget with the smallest qindex (encoder/pictures.py).

Spec functions (written from the statement / the bounded-block semantics of C20, not from the code):
  segl(v)        bits of the signed exp-Golomb code of v
  pre_bits(c,n)  bits of the first n coefficients, all coded
  cbits(c,n)     bits a bounded block needs for the first n coefficients: trailing zeros cost nothing (past the end
                 of a bounded block the reader sees 1s, i.e. zeros), everything up to the last non-zero value is coded
"""
from pyvc.api import *
from pyvc import models  # noqa: F401
from contracts import c20_lemmas  # noqa: F401  (contracts of exp_golomb_length / signed_exp_golomb_length)
from contracts.c20_writer import eg_len
from vc2_conformance.encoder.pictures import calculate_coeffs_bits

EP = "vc2_conformance.encoder.pictures."


@inline
def segl(v):
    return 1 if v == 0 else eg_len(abs(v)) + 1


@specfun
def pre_bits(c: "array", n):
    return 0 if n <= 0 else pre_bits(c, n - 1) + segl(c[n - 1])


@specfun
def cbits(c: "array", n):
    return 0 if n <= 0 else (pre_bits(c, n) if c[n - 1] != 0 else cbits(c, n - 1))


@lemma
def cbits_nonneg(c: "array", n: int):
    """Block lengths are never negative (induction over the number of coefficients)."""
    ensures(cbits(c, n) >= 0 and pre_bits(c, n) >= 0)
    decreases(n if n > 0 else 0)
    unfold(cbits, c, n)
    unfold(pre_bits, c, n)
    if n > 0:
        cbits_nonneg(c, n - 1)
        use("blen_def", abs(c[n - 1]) + 1)


@spec(EP + "calculate_coeffs_bits")
class _calculate_coeffs_bits:
    args = {"coeffs": "list:int"}
    result = "int"
    requires = []
    modifies = []
    raises = {}
    ensures = ["result == cbits(content(coeffs), length(coeffs))", "result >= 0"]
    invariants = {
        1: [
            # _k: index of the next element to visit (going down); elements above it have been visited
            "num_bits >= 0",
            "implies(skip_zeros, num_bits == 0 and cbits(content(coeffs), length(coeffs)) == cbits(content(coeffs), _k + 1))",
            "implies(not skip_zeros, cbits(content(coeffs), length(coeffs)) == num_bits + pre_bits(content(coeffs), _k + 1))",
        ],
    }
    ghost = {
        "loop1.body_start": ["unfold(cbits, content(coeffs), _k + 1)", "unfold(pre_bits, content(coeffs), _k + 1)",
                             'use("blen_def", abs(content(coeffs)[_k]) + 1)'],
        "loop1.after": ["unfold(cbits, content(coeffs), 0)", "unfold(pre_bits, content(coeffs), 0)"],
    }


# ---- quantisation of one set of coefficients, and the block lengths quantize_to_fit compares with its target ----

from vc2_conformance.pseudocode.quantization import forward_quant  # noqa: E402
from vc2_conformance.encoder.pictures import quantize_coeffs  # noqa: E402

transparent(
    "vc2_conformance.pseudocode.quantization.forward_quant",
    "vc2_conformance.pseudocode.quantization.quant_factor",
    "vc2_conformance.pseudocode.vc2_math.sign",
)

fields(coeff_values="ref:list:int", quant_matrix_values="ref:list:int")


@specfun
def fq(c, q, m):
    """Coefficient c coded with slice index q where the quantisation matrix says m: forward_quant with index max(0, q - m)
    (13.3.1: the matrix value is subtracted from the slice's index, clamped at 0).  Opaque everywhere except in the
    verification of quantize_coeffs, where it is tied to the real forward_quant."""
    return forward_quant(c, max(0, q - m))


@inline
def qarr(cv, qm, q):
    """The coefficients cv coded with slice index q."""
    return mkarray(lambda i: fq(cv[i], q, qm[i]))


@spec(EP + "quantize_coeffs")
class _quantize_coeffs:
    args = {"qindex": "int", "coeff_values": "list:int", "quant_matrix_values": "list:int"}
    result = "list:int"
    requires = []
    modifies = []
    raises = {}
    ensures = [
        "is_fresh(result)",
        "length(result) == min(length(coeff_values), length(quant_matrix_values))",
        "content(result) == qarr(content(coeff_values), content(quant_matrix_values), qindex)",
    ]
    ghost = {"entry": ["define(fq)"]}


@specfun
def qbits(cv: "array", qm: "array", ncv, nqm, q):
    """Bits a bounded block needs for the min(ncv, nqm) coefficients quantised with index q (opaque: unfolded where the code computes it)."""
    return cbits(qarr(cv, qm, q), min(ncv, nqm))


@specfun
def ceil_to(x, a):
    """x rounded up to a whole multiple of a (opaque in the minimality argument: only equal arguments matter there)."""
    return ((x + a - 1) // a) * a


@inline
def set_n(cc):
    return min(length(cc.coeff_values), length(cc.quant_matrix_values))


@inline
def set_bits(cc, q):
    return qbits(content(cc.coeff_values), content(cc.quant_matrix_values), length(cc.coeff_values), length(cc.quant_matrix_values), q)


@inline
def total_len(coeff_sets, q, align):
    """Sum over the 2 (LD: Y, C) or 3 (HQ: Y, C1, C2) coefficient sets of their block lengths, each rounded up to a multiple of align bits."""
    return (ceil_to(set_bits(coeff_sets[0], q), align) + ceil_to(set_bits(coeff_sets[1], q), align)
            + (ceil_to(set_bits(coeff_sets[2], q), align) if length(coeff_sets) == 3 else 0))


@inline
def quantised_as(lst, cc, q):
    """lst holds exactly the coefficients of cc quantised with index q."""
    return length(lst) == set_n(cc) and content(lst) == qarr(content(cc.coeff_values), content(cc.quant_matrix_values), q)


@spec(EP + "quantize_to_fit")
class _quantize_to_fit:
    args = {"target_size": "int", "coeff_sets": "list:obj:ComponentCoeffs", "align_bits": "int", "minimum_qindex": "int"}
    arg_cases = [{"coeff_sets": "list#2:obj:ComponentCoeffs"}, {"coeff_sets": "list#3:obj:ComponentCoeffs"}]
    result = "tuple:int,list:list:int"
    requires = ["target_size >= 0", "align_bits >= 1", "minimum_qindex >= 0", "length(coeff_sets) == 2 or length(coeff_sets) == 3"]
    modifies = []
    raises = {}
    ensures = [
        # the property: the SMALLEST index, not below the requested minimum, whose coefficients fit the budget
        "result[0] >= minimum_qindex",
        "total_len(coeff_sets, result[0], align_bits) <= target_size",
        "forall(minimum_qindex, result[0], lambda q: total_len(coeff_sets, q, align_bits) > target_size, trigger=lambda q: set_bits(coeff_sets[0], q))",
        # and what is returned is exactly the coefficients quantised with that index
        "length(result[1]) == length(coeff_sets)",
        "quantised_as(result[1][0], coeff_sets[0], result[0])",
        "quantised_as(result[1][1], coeff_sets[1], result[0])",
        "implies(length(coeff_sets) == 3, quantised_as(result[1][2], coeff_sets[2], result[0]))",
    ]
    invariants = {
        1: ["forall(minimum_qindex, _k, lambda q: total_len(coeff_sets, q, align_bits) > target_size, trigger=lambda q: set_bits(coeff_sets[0], q))"],
    }
    ghost = {
        "loop1.after_stmt2": [
            # (after total_length = sum(...)) tie the code's arithmetic to the spec functions at this index
            "unfold(qbits, content(coeff_sets[0].coeff_values), content(coeff_sets[0].quant_matrix_values), length(coeff_sets[0].coeff_values), length(coeff_sets[0].quant_matrix_values), qindex)",
            "unfold(qbits, content(coeff_sets[1].coeff_values), content(coeff_sets[1].quant_matrix_values), length(coeff_sets[1].coeff_values), length(coeff_sets[1].quant_matrix_values), qindex)",
            "unfold(qbits, content(coeff_sets[2].coeff_values), content(coeff_sets[2].quant_matrix_values), length(coeff_sets[2].coeff_values), length(coeff_sets[2].quant_matrix_values), qindex)",
            "unfold(ceil_to, set_bits(coeff_sets[0], qindex), align_bits)",
            "unfold(ceil_to, set_bits(coeff_sets[1], qindex), align_bits)",
            "unfold(ceil_to, set_bits(coeff_sets[2], qindex), align_bits)",
            "check(total_length == total_len(coeff_sets, qindex, align_bits))",
        ],
    }


@inline
def ceil_units(x, a):
    """Smallest number of a-bit units that hold x bits."""
    return (x + a - 1) // a


@spec(EP + "calculate_hq_length_field")
class _calculate_hq_length_field:
    args = {"coeffs": "list:int", "slice_size_scaler": "int"}
    result = "int"
    requires = ["slice_size_scaler >= 1"]
    modifies = []
    raises = {}
    ensures = ["result == ceil_units(cbits(content(coeffs), length(coeffs)), 8 * slice_size_scaler)"]


fields(slice_y_length="int", slice_c1_length="int", slice_c2_length="int", qindex="int",
       y_transform="ref:list:int", c1_transform="ref:list:int", c2_transform="ref:list:int", c_transform="ref:list:int")


@inline
def lbits(lst):
    return cbits(content(lst), length(lst))


@spec(EP + "make_hq_slice")
class _make_hq_slice:
    args = {"y_transform": "list:int", "c1_transform": "list:int", "c2_transform": "list:int", "total_length": "optint", "qindex": "int",
            "slice_size_scaler": "int"}
    result = "dict:HQSlice"
    requires = [
        "slice_size_scaler >= 1",
        # when the slice has a fixed size, the caller has made the three blocks fit it and the size fits an 8-bit field
        "implies(total_length is not None, ceil_units(lbits(y_transform), 8 * slice_size_scaler) + ceil_units(lbits(c1_transform), 8 * slice_size_scaler)"
        " + ceil_units(lbits(c2_transform), 8 * slice_size_scaler) <= total_length and total_length <= 255)",
    ]
    modifies = []
    raises = {}
    ensures = [
        "is_fresh(result)",
        "has(result, 'qindex') and has(result, 'slice_y_length') and has(result, 'slice_c1_length') and has(result, 'slice_c2_length')",
        "has(result, 'y_transform') and has(result, 'c1_transform') and has(result, 'c2_transform')",
        "result['qindex'] == qindex",
        "result['y_transform'] == y_transform and result['c1_transform'] == c1_transform and result['c2_transform'] == c2_transform",
        # every component's block fits the space its length field announces (lengths count slice_size_scaler-byte units)
        "result['slice_y_length'] * 8 * slice_size_scaler >= lbits(y_transform)",
        "result['slice_c1_length'] * 8 * slice_size_scaler >= lbits(c1_transform)",
        "result['slice_c2_length'] * 8 * slice_size_scaler >= lbits(c2_transform)",
        "result['slice_y_length'] >= 0 and result['slice_c1_length'] >= 0 and result['slice_c2_length'] >= 0",
        # fixed-size slice: the three fields add up to exactly the slice's size and each fits its 8-bit field
        "implies(total_length is not None, result['slice_y_length'] + result['slice_c1_length'] + result['slice_c2_length'] == total_length)",
        "implies(total_length is not None, result['slice_y_length'] <= 255 and result['slice_c1_length'] <= 255 and result['slice_c2_length'] <= 255)",
        # free-size slice: the smallest fields that hold the blocks
        "implies(total_length is None, result['slice_y_length'] == ceil_units(lbits(y_transform), 8 * slice_size_scaler)"
        " and result['slice_c1_length'] == ceil_units(lbits(c1_transform), 8 * slice_size_scaler)"
        " and result['slice_c2_length'] == ceil_units(lbits(c2_transform), 8 * slice_size_scaler))",
    ]
    ghost = {
        "entry": [
            "cbits_nonneg(content(y_transform), length(y_transform))",
            "cbits_nonneg(content(c1_transform), length(c1_transform))",
            "cbits_nonneg(content(c2_transform), length(c2_transform))",
            'use("ceil_units_bounds", lbits(y_transform), 8 * slice_size_scaler)',
            'use("ceil_units_bounds", lbits(c1_transform), 8 * slice_size_scaler)',
            'use("ceil_units_bounds", lbits(c2_transform), 8 * slice_size_scaler)',
        ],
    }


@spec(EP + "make_ld_slice")
class _make_ld_slice:
    args = {"y_transform": "list:int", "c_transform": "list:int", "qindex": "int"}
    result = "dict:LDSlice"
    requires = []
    modifies = []
    raises = {}
    ensures = [
        "is_fresh(result)",
        "has(result, 'qindex') and has(result, 'slice_y_length') and has(result, 'y_transform') and has(result, 'c_transform')",
        "result['qindex'] == qindex and result['y_transform'] == y_transform and result['c_transform'] == c_transform",
        # the luma block gets exactly the bits it needs; the colour-difference block gets the rest of the slice
        "result['slice_y_length'] == lbits(y_transform)",
    ]


@spec(EP + "get_safe_lossy_hq_slice_size_scaler")
class _get_safe_scaler:
    args = {"picture_bytes": "int", "num_slices": "int"}
    result = "int"
    requires = ["num_slices >= 1"]
    modifies = []
    raises = {}
    ensures = [
        "result >= 1",
        # large enough: the biggest slice's payload, in units of `result` bytes, fits an 8-bit length field ...
        "255 * result >= ceil_units(picture_bytes, num_slices) - 4",
        # ... and the smallest such scaler
        "result == 1 or 255 * (result - 1) < ceil_units(picture_bytes, num_slices) - 4",
    ]


# ---- whole-picture packing: every slice is built by quantize_to_fit + make_hq_slice / make_ld_slice ---------------

from contracts import c13_slice_sizes  # noqa: E402,F401  (slice_bytes is transparent; S4 lemmas)
from contracts.c13_slice_sizes import S4_partial_sums, sum_slice_bytes  # noqa: E402
from vc2_conformance.pseudocode.slice_sizes import slice_bytes  # noqa: E402
from vc2_conformance.encoder.exceptions import InsufficientHQPictureBytesError, InsufficientLDPictureBytesError  # noqa: E402

transparent("vc2_conformance.pseudocode.arrays.width", "vc2_conformance.pseudocode.arrays.height", "vc2_conformance.pseudocode.vc2_math.intlog2")
fields(hq_slices="ref:list:dict:HQSlice", ld_slices="ref:list:dict:LDSlice")
tuple_fields(Y=0, C1=1, C2=2)  # SliceCoeffs = namedtuple("SliceCoeffs", "Y,C1,C2")


@lemma
def hq_slice_units_fit_8_bits(pb: int, n: int, s: int, k: int):
    """With a slice_size_scaler s at least as large as the 'safe' one, the payload of every HQ slice, counted in s-byte units,
    is between 0 and 255: slice number k gets ((k+1)*N)//D - (k*N)//D units, N = picture_bytes - 4*slices, D = slices * s."""
    requires(n >= 1 and s >= 1 and pb - 4 * n >= 0 and k >= 0)
    requires(255 * s >= ceil_units(pb, n) - 4)
    ensures(0 <= ((k + 1) * (pb - 4 * n)) // (n * s) - (k * (pb - 4 * n)) // (n * s))
    ensures(((k + 1) * (pb - 4 * n)) // (n * s) - (k * (pb - 4 * n)) // (n * s) <= 255)
    N = pb - 4 * n
    D = n * s
    use("mul_pos", n, s)
    use("mul_mono", 1, s, n)
    assert D >= 1
    use("ceil_units_bounds", pb, n)
    use("mul_mono", ceil_units(pb, n) - 4, 255 * s, n)
    assert N <= 255 * D, "payload bytes <= 255 units per slice on average"
    use("div_def", (k + 1) * N, D)
    use("div_def", k * N, D)
    use("mul_mono", k, k + 1, N)
    use("div_mono", k * N, (k + 1) * N, D)
    a = (k * N) // D
    b = ((k + 1) * N) // D
    assert D * (b - a) < 256 * D
    use("mul_le_cancel", b - a, 255, D)


@inline
def hq_units(pb, n, s, k):
    """Payload of HQ slice number k in units of s bytes: the k-th even share of the pb - 4*n payload bytes of n slices."""
    return ((k + 1) * (pb - 4 * n)) // (n * s) - (k * (pb - 4 * n)) // (n * s)


@lemma
def hq_total_size(pb: int, n: int, s: int):
    """The slices of a lossy HQ picture (4 bytes of qindex/length fields + hq_units * s payload bytes each) add up to
    picture_bytes to within slice_size_scaler bytes: 4*n + s * floor((pb - 4*n) / s), by the telescoping sum of C13 (S4)."""
    requires(n >= 1 and s >= 1 and pb - 4 * n >= 0)
    N = pb - 4 * n
    D = n * s
    use("mul_pos", n, s)
    use("mul_mono", 1, s, n)
    S4_partial_sums(N, D, n)
    total_units = sum_slice_bytes(N, D, n)
    use("mul_div_exact", N, s, n)
    use("mul_comm", n, N)
    use("mul_comm", s, n)
    assert total_units == N // s, "the units of all slices sum to floor(payload / s)"
    use("div_def", N, s)
    assert pb - s < 4 * n + s * total_units and 4 * n + s * total_units <= pb, "total == picture_bytes to within slice_size_scaler bytes"


TC = "list:list:list#3:obj:ComponentCoeffs"  # rows of slices; a slice is the 3-tuple SliceCoeffs(Y, C1, C2)


@spec(EP + "make_transform_data_hq_lossy")
class _make_transform_data_hq_lossy:
    args = {"picture_bytes": "int", "transform_coeffs": TC, "minimum_qindex": "int", "minimum_slice_size_scaler": "int"}
    result = "tuple:int,dict:TransformData"
    requires = ["length(transform_coeffs) >= 1 and length(transform_coeffs[0]) >= 1", "minimum_qindex >= 0"]
    modifies = []
    raises = {"InsufficientHQPictureBytesError": "picture_bytes < 4 * (length(transform_coeffs[0]) * length(transform_coeffs))"}
    raises_exact = True
    bounded_ensures = ["hq_lossy_picture_ok(picture_bytes, transform_coeffs, minimum_qindex, minimum_slice_size_scaler, result)"]
    ensures = [
        "result[0] >= 1 and result[0] >= minimum_slice_size_scaler",
        "255 * result[0] >= ceil_units(picture_bytes, length(transform_coeffs[0]) * length(transform_coeffs)) - 4",
        "has(result[1], 'hq_slices')",
    ]
    invariants = {
        1: ["has(transform_data, 'hq_slices')", "is_fresh(transform_data['hq_slices'])", "length(transform_coeffs) == old(length(transform_coeffs)) and length(transform_coeffs[0]) == old(length(transform_coeffs[0]))"],
        2: ["has(transform_data, 'hq_slices')", "is_fresh(transform_data['hq_slices'])", "length(transform_coeffs) == old(length(transform_coeffs)) and length(transform_coeffs[0]) == old(length(transform_coeffs[0]))"],
    }
    ghost = {
        "loop2.body_start": [
            "hq_slice_units_fit_8_bits(picture_bytes, num_slices, slice_size_scaler, sy * slices_x + sx)",
        ],
        "loop2.after_stmt2": [
            # the slice's payload is its even share of (picture_bytes - 4 bytes of fixed fields per slice), in units of slice_size_scaler bytes
            "check(total_length == hq_units(picture_bytes, length(transform_coeffs[0]) * length(transform_coeffs), slice_size_scaler, sy * length(transform_coeffs[0]) + sx))",
            "check(target_size == 8 * slice_size_scaler * total_length)",
        ],
        "loop2.after_stmt3": [
            # (after `qindex, (...) = quantize_to_fit(...)`) what quantize_to_fit established, in the terms make_hq_slice asks for
            "unfold(qbits, content(transform_coeffs_slice[0].coeff_values), content(transform_coeffs_slice[0].quant_matrix_values), length(transform_coeffs_slice[0].coeff_values), length(transform_coeffs_slice[0].quant_matrix_values), qindex)",
            "unfold(qbits, content(transform_coeffs_slice[1].coeff_values), content(transform_coeffs_slice[1].quant_matrix_values), length(transform_coeffs_slice[1].coeff_values), length(transform_coeffs_slice[1].quant_matrix_values), qindex)",
            "unfold(qbits, content(transform_coeffs_slice[2].coeff_values), content(transform_coeffs_slice[2].quant_matrix_values), length(transform_coeffs_slice[2].coeff_values), length(transform_coeffs_slice[2].quant_matrix_values), qindex)",
            "check(lbits(y_transform) == set_bits(transform_coeffs_slice[0], qindex))",
            "check(lbits(c1_transform) == set_bits(transform_coeffs_slice[1], qindex))",
            "check(lbits(c2_transform) == set_bits(transform_coeffs_slice[2], qindex))",
            "unfold(ceil_to, lbits(y_transform), 8 * slice_size_scaler)",
            "unfold(ceil_to, lbits(c1_transform), 8 * slice_size_scaler)",
            "unfold(ceil_to, lbits(c2_transform), 8 * slice_size_scaler)",
            "check((ceil_units(lbits(y_transform), 8 * slice_size_scaler) + ceil_units(lbits(c1_transform), 8 * slice_size_scaler)"
            " + ceil_units(lbits(c2_transform), 8 * slice_size_scaler)) * (8 * slice_size_scaler) <= total_length * (8 * slice_size_scaler))",
            'use("mul_le_cancel", ceil_units(lbits(y_transform), 8 * slice_size_scaler) + ceil_units(lbits(c1_transform), 8 * slice_size_scaler)'
            ' + ceil_units(lbits(c2_transform), 8 * slice_size_scaler), total_length, 8 * slice_size_scaler)',
        ],
    }


@spec(EP + "interleave")
class _interleave:
    args = {"a": "list:int", "b": "list:int"}
    result = "list:int"
    requires = []
    modifies = []
    raises = {}
    ensures = [
        "is_fresh(result)",
        "length(result) == 2 * min(length(a), length(b))",
        "forall(0, min(length(a), length(b)), lambda j: content(result)[2 * j] == content(a)[j] and content(result)[2 * j + 1] == content(b)[j], trigger=lambda j: content(a)[j])",
    ]
    invariants = {
        1: [
            "is_fresh(out)", "length(out) == 2 * _k", "length(a) == old(length(a)) and length(b) == old(length(b))",
            "content(a) == old(content(a)) and content(b) == old(content(b))",
            "forall(0, _k, lambda j: content(out)[2 * j] == content(a)[j] and content(out)[2 * j + 1] == content(b)[j], trigger=lambda j: content(a)[j])",
        ],
    }


@lemma
def cbits_zero_or_at_least_4(c: "array", n: int):
    """A block is empty or at least 4 bits long: the last coded coefficient is non-zero, and a non-zero value takes >= 4 bits.
    (This is what makes a 1-byte low-delay slice work: its slice_y_length field has 0 bits, so the luma block must be empty.)"""
    ensures(cbits(c, n) == 0 or cbits(c, n) >= 4)
    decreases(n if n > 0 else 0)
    unfold(cbits, c, n)
    if n > 0:
        cbits_zero_or_at_least_4(c, n - 1)
        unfold(pre_bits, c, n)
        cbits_nonneg(c, n - 1)
        use("blen_bound", abs(c[n - 1]) + 1, 1)
        use("pow2_small", 1)


@inline
def ld_length_bits(sb):
    """Width of the slice_y_length field of a low-delay slice of sb bytes (13.5.3.1)."""
    return blen(8 * sb - 7 - 1)


@spec(EP + "make_transform_data_ld_lossy")
class _make_transform_data_ld_lossy:
    args = {"picture_bytes": "int", "transform_coeffs": TC, "minimum_qindex": "int"}
    result = "dict:TransformData"
    requires = ["length(transform_coeffs) >= 1 and length(transform_coeffs[0]) >= 1", "minimum_qindex >= 0", "picture_bytes >= 0"]
    modifies = []
    raises = {"InsufficientLDPictureBytesError": None}
    bounded_ensures = ["ld_lossy_picture_ok(picture_bytes, transform_coeffs, minimum_qindex, result)"]
    ensures = ["has(result, 'ld_slices')"]
    invariants = {
        1: ["has(transform_data, 'ld_slices')", "is_fresh(transform_data['ld_slices'])",
            "length(transform_coeffs) == old(length(transform_coeffs)) and length(transform_coeffs[0]) == old(length(transform_coeffs[0]))"],
        2: ["has(transform_data, 'ld_slices')", "is_fresh(transform_data['ld_slices'])",
            "length(transform_coeffs) == old(length(transform_coeffs)) and length(transform_coeffs[0]) == old(length(transform_coeffs[0]))"],
    }
    ghost = {
        "loop2.after_stmt4": [
            # the budget handed to quantize_to_fit is the slice's true budget (13.5.3.1): its even share of picture_bytes, minus
            # 7 bits of qindex and the slice_y_length field
            "(g_sb0 := ((sy * length(transform_coeffs[0]) + sx + 1) * picture_bytes) // (length(transform_coeffs[0]) * length(transform_coeffs))"
            " - ((sy * length(transform_coeffs[0]) + sx) * picture_bytes) // (length(transform_coeffs[0]) * length(transform_coeffs)))",
            "check(target_size == 8 * g_sb0 - 7 - ld_length_bits(g_sb0))",
        ],
        "loop2.after_stmt7": [
            # (after `qindex, (y_transform, c_transform) = quantize_to_fit(...)`): what the slice needs of its coefficients
            "(g_sb := slice_bytes(state, sx, sy))",
            "unfold(qbits, content(y_coeffs.coeff_values), content(y_coeffs.quant_matrix_values), length(y_coeffs.coeff_values), length(y_coeffs.quant_matrix_values), qindex)",
            "unfold(qbits, content(c_coeffs.coeff_values), content(c_coeffs.quant_matrix_values), length(c_coeffs.coeff_values), length(c_coeffs.quant_matrix_values), qindex)",
            "unfold(ceil_to, lbits(y_transform), 1)", "unfold(ceil_to, lbits(c_transform), 1)",
            "cbits_nonneg(content(c_transform), length(c_transform))",
            "cbits_nonneg(content(y_transform), length(y_transform))",
            "cbits_zero_or_at_least_4(content(y_transform), length(y_transform))",
            'use("blen_def", 8 * g_sb - 8)', 'use("blen_neg", 8 - 8 * g_sb)',
            # both blocks fit the slice: 7 bits of qindex + the length field + luma block + colour-difference block <= 8 * slice_bytes
            "check(7 + ld_length_bits(g_sb) + lbits(y_transform) + lbits(c_transform) <= 8 * g_sb)",
            # and the luma block's length fits its field
            "check(lbits(y_transform) < pow2(ld_length_bits(g_sb)))",
        ],
    }


# ---- whole-picture postconditions, native semantics only (bounded stand-in: the proofs above establish the same facts for an
# arbitrary iteration at the point where the slice is built; that the returned list consists of exactly those slices, in raster
# order, is only checked natively) --------------------------------------------------------------------------------------------


def _quantised(comp, q):
    return [fq(c, q, m) for c, m in zip(comp.coeff_values, comp.quant_matrix_values)]


def _nbits(lst):
    return cbits(list(lst), len(lst))


def _smallest_fitting(sets, minq, align, budget, q):
    """q is the smallest index >= minq whose blocks (each rounded up to `align` bits) fit `budget` bits."""
    def tl(qq):
        return sum(-(-_nbits(_quantised(c, qq)) // align) * align for c in sets)
    return q >= minq and tl(q) <= budget and all(tl(qq) > budget for qq in range(minq, q))


def hq_lossy_picture_ok(pb, tc, minq, mins, result):
    s, td = result
    rows, cols = len(tc), len(tc[0])
    n = rows * cols
    sl = td["hq_slices"]
    if len(sl) != n or s < 1 or s < mins:
        return False
    total = 0
    for k, hs in enumerate(sl):
        sets = tc[k // cols][k % cols]
        fields_ = [hs["slice_y_length"], hs["slice_c1_length"], hs["slice_c2_length"]]
        if not all(0 <= f <= 255 for f in fields_):
            return False  # every length field fits its 8-bit field
        units = sum(fields_)
        if units != hq_units(pb, n, s, k):
            return False  # the slice has its even share of the picture's bytes
        q = hs["qindex"]
        if not _smallest_fitting(sets, minq, 8 * s, 8 * s * units, q):
            return False  # smallest qindex (not below the minimum) whose coefficients fit the slice's budget
        for comp, key, f in zip(sets, ("y_transform", "c1_transform", "c2_transform"), fields_):
            if list(hs[key]) != _quantised(comp, q) or _nbits(hs[key]) > 8 * s * f:
                return False  # coefficients are those quantised with q, and each block fits the space its length field announces
        total += 4 + s * units
    return pb - s < total <= pb  # total slice data == picture_bytes to within slice_size_scaler bytes


def ld_lossy_picture_ok(pb, tc, minq, result):
    rows, cols = len(tc), len(tc[0])
    n = rows * cols
    sl = result["ld_slices"]
    if len(sl) != n:
        return False
    for k, ls in enumerate(sl):
        from vc2_conformance.encoder.pictures import ComponentCoeffs

        sets = tc[k // cols][k % cols]
        sb = ((k + 1) * pb) // n - (k * pb) // n  # the slice's computed size in bytes (13.5.3.2)
        lbits_ = (8 * sb - 7 - 1).bit_length()     # width of its slice_y_length field (13.5.3.1)
        c = ComponentCoeffs([v for pair in zip(sets[1].coeff_values, sets[2].coeff_values) for v in pair],
                            [v for pair in zip(sets[1].quant_matrix_values, sets[2].quant_matrix_values) for v in pair])
        q = ls["qindex"]
        if not _smallest_fitting([sets[0], c], minq, 1, 8 * sb - 7 - lbits_, q):
            return False
        if list(ls["y_transform"]) != _quantised(sets[0], q) or list(ls["c_transform"]) != _quantised(c, q):
            return False
        if ls["slice_y_length"] != _nbits(ls["y_transform"]) or not (0 <= ls["slice_y_length"] < 2 ** lbits_):
            return False
        if 7 + lbits_ + _nbits(ls["y_transform"]) + _nbits(ls["c_transform"]) > 8 * sb:
            return False  # the slice occupies exactly its computed size: nothing is cut off
    return True


def hq_lossless_picture_ok(tc, mins, result):
    s, td = result
    rows, cols = len(tc), len(tc[0])
    sl = td["hq_slices"]
    if len(sl) != rows * cols or s < 1 or s < mins:
        return False
    for k, hs in enumerate(sl):
        sets = tc[k // cols][k % cols]
        if hs["qindex"] != 0:
            return False
        for comp, key, fk in zip(sets, ("y_transform", "c1_transform", "c2_transform"), ("slice_y_length", "slice_c1_length", "slice_c2_length")):
            if list(hs[key]) != list(comp.coeff_values) or not (0 <= hs[fk] <= 255) or _nbits(hs[key]) > 8 * s * hs[fk]:
                return False
    return True


@spec(EP + "make_transform_data_hq_lossless")
class _make_transform_data_hq_lossless:
    args = {"transform_coeffs": TC, "minimum_slice_size_scaler": "int"}
    result = "tuple:int,dict:TransformData"
    bounded_only = ("nested comprehension that allocates one HQSlice per entry and max() over a generator of dictionaries: outside the verified subset")
    requires = ["length(transform_coeffs) >= 1 and length(transform_coeffs[0]) >= 1"]
    raises = {}
    bounded_ensures = ["hq_lossless_picture_ok(transform_coeffs, minimum_slice_size_scaler, result)"]


# ---- native generators for the bounded stand-in (used when an obligation is undecided, and by bounded/c14_*.py) ----


def _gen_coeffs(rng, n=None):
    n = rng.randint(0, 6) if n is None else n
    return [rng.choice([0, 0, rng.randint(-3, 3), rng.randint(-40, 40), rng.randint(-5000, 5000)]) for _ in range(n)]


def _gen_component(rng):
    from vc2_conformance.encoder.pictures import ComponentCoeffs

    n = rng.randint(0, 5)
    return ComponentCoeffs(coeff_values=_gen_coeffs(rng, n), quant_matrix_values=[rng.randint(0, 6) for _ in range(n)])


def _gen_tc(rng):
    from vc2_conformance.encoder.pictures import SliceCoeffs

    rows, cols = rng.choice([(1, 1), (1, 2), (2, 1), (2, 3), (3, 2), (1, 5)])
    big = rng.random() < 0.3
    if rng.random() < 0.12:
        # long blocks: a component whose code length is steered to a multiple of 255 bytes +-1 (where a slice_size_scaler must change)
        rows, cols = rng.choice([(1, 1), (1, 2)])
        target_bits = 8 * (255 * rng.choice([1, 1, 2, 3]) + rng.choice([-1, 0, 1, 2]))

        def long_comp(heavy):
            if not heavy:
                return _gen_component(rng)
            vals, bits = [], 0
            while bits + 4 <= target_bits and len(vals) < 700:
                v = rng.choice([1, -1, 2, -3, 7])
                b = 2 * ((abs(v) + 1).bit_length() - 1) + 2
                if bits + b > target_bits:
                    v, b = 1, 4
                    if bits + b > target_bits:
                        break
                vals.append(v)
                bits += b
            from vc2_conformance.encoder.pictures import ComponentCoeffs

            return ComponentCoeffs(vals, [0] * len(vals))

        h = rng.randrange(3)
        return [[SliceCoeffs(long_comp(h == 0), long_comp(h == 1), long_comp(h == 2)) for _ in range(cols)] for _ in range(rows)]

    def comp():
        c = _gen_component(rng)
        if big:
            return type(c)([v * rng.choice([1, 50, 4000]) for v in c.coeff_values] * rng.choice([1, 4]), list(c.quant_matrix_values) * rng.choice([1, 4]))
        return c

    return [[SliceCoeffs(comp(), comp(), comp()) for _ in range(cols)] for _ in range(rows)]


GENERATORS = {
    "list:int": _gen_coeffs,
    "list:obj:ComponentCoeffs": lambda rng: [_gen_component(rng) for _ in range(rng.choice([2, 3]))],
    TC: lambda rng: _gen_tc(rng),
    "param:picture_bytes": lambda rng: rng.choice([rng.randint(0, 40), rng.randint(0, 400), rng.randint(200, 3000)]),
    "param:minimum_slice_size_scaler": lambda rng: rng.choice([1, 1, 1, 2, 3, rng.randint(-1, 6)]),
    "param:qindex": lambda rng: rng.choice([0, rng.randint(0, 12), rng.randint(0, 60)]),
    "optint": lambda rng: rng.choice([None, rng.randint(0, 30), rng.randint(0, 300)]),
    "param:minimum_qindex": lambda rng: rng.choice([0, 0, rng.randint(0, 12), rng.randint(0, 60)]),
    "param:target_size": lambda rng: rng.choice([rng.randint(0, 24), rng.randint(0, 200)]),
    "param:align_bits": lambda rng: rng.choice([1, 1, 8, 8, 16, rng.randint(1, 24)]),
    "param:slice_size_scaler": lambda rng: rng.choice([1, 1, 2, 3, rng.randint(1, 9)]),
}
