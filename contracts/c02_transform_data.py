"""C02 / C01: contracts for decoder/transform_data_syntax.py (slices and coefficient arrays).

Coefficient arrays are abstract 2-D arrays ("grid": height, width, content) held in level/orientation
maps.  initialize_wavelet_data's postcondition (arrays of exactly subband_height x subband_width for
every subband of the transform) is TRUSTED (dict comprehension + new_array, outside the subset) and
checked by evaluation; everything that indexes them is verified against it.
"""
from pyvc.api import *
from contracts.c02_common import *
from contracts.c02_stream import lcv_ok, FRAME_IO, IO_POST  # noqa: F401
from contracts.c02_sequence_header import coding_params_known, hdr_known  # noqa: F401
from contracts.c02_picture import ld_code, hq_code, qm_shape, hi3, tp_known, wavelet_known, slices_known  # noqa: F401
from contracts import c13_slice_sizes, c12_quantization  # noqa: F401  (transparent arithmetic helpers)
from vc2_conformance.decoder.exceptions import *  # noqa: F401,F403
from vc2_conformance.pseudocode.slice_sizes import subband_height, subband_width
from contracts.c13_slice_sizes import SBH, SBW

TD = "vc2_conformance.decoder.transform_data_syntax."
FRAME_IOB = c20_decoder_io.FRAME_IOB
ORIENT_DOMAIN = ["LL", "L", "H", "HL", "LH", "HH"]
TRANSFORM_DOMAIN = ["y_transform", "c1_transform", "c2_transform"]
transparent("vc2_conformance.pseudocode.vc2_math.mean", "vc2_conformance.pseudocode.arrays.width", "vc2_conformance.pseudocode.arrays.height")


@inline
def valid_lo(level, orient, d, dh):
    """(level, orient) names a subband of a transform with depths (d, dh)."""
    return ite(dh == 0,
               (level == 0 and orient == "LL") or (1 <= level and level <= d and (orient == "HL" or orient == "LH" or orient == "HH")),
               (level == 0 and orient == "L") or (1 <= level and level <= dh and orient == "H")
               or (dh + 1 <= level and level <= dh + d and (orient == "HL" or orient == "LH" or orient == "HH")))


@inline
def sbh(state, L, luma):
    return SBH(state["luma_width"], state["luma_height"], state["color_diff_width"], state["color_diff_height"],
               state["dwt_depth"], state["dwt_depth_ho"], L, luma)


@inline
def sbw(state, L, luma):
    return SBW(state["luma_width"], state["luma_height"], state["color_diff_width"], state["color_diff_height"],
               state["dwt_depth"], state["dwt_depth_ho"], L, luma)


@inline
def wshape_at(state, t, luma, L, o):
    return implies(valid_lo(L, o, state["dwt_depth"], state["dwt_depth_ho"]),
                   lo_has(t, L, o) and gheight(lo_get(t, L, o)) == sbh(state, L, luma) and gwidth(lo_get(t, L, o)) == sbw(state, L, luma))


@inline
def wshape(state, t, luma):
    """Every subband of the transform has an array of exactly subband_height x subband_width (SBH/SBW are the
    real functions, kept folded inside the quantifier and unfolded where a particular level is indexed)."""
    return forall(0, state["dwt_depth_ho"] + state["dwt_depth"] + 1,
                  lambda L: wshape_at(state, t, luma, L, "LL") and wshape_at(state, t, luma, L, "L") and wshape_at(state, t, luma, L, "H")
                  and wshape_at(state, t, luma, L, "HL") and wshape_at(state, t, luma, L, "LH") and wshape_at(state, t, luma, L, "HH"),
                  trigger=lambda L: lo_row(t, L))


@inline
def transforms_ok(state):
    return (has(state, "y_transform") and has(state, "c1_transform") and has(state, "c2_transform")
            and wshape(state, state["y_transform"], 1) and wshape(state, state["c1_transform"], 0) and wshape(state, state["c2_transform"], 0)
            and state["y_transform"] != state["c1_transform"] and state["y_transform"] != state["c2_transform"] and state["c1_transform"] != state["c2_transform"])


@spec(TD + "initialize_wavelet_data")
class _iwd:
    args = {"state": STATE, "comp": "str"}
    result = "lomap:grid"
    requires = ["wavelet_known(state)", "coding_params_known(state)"]
    modifies = []
    raises = {}
    ensures = ["is_fresh(result)", 'wshape(state, result, 1 if comp == "Y" else 0)']
    str_domains = {"comp": ["Y", "C1", "C2"]}
    trusted = ("builds the coefficient arrays with a dict comprehension and new_array (outside the verified subset); its postcondition - one "
               "subband_height x subband_width array per subband of the transform - is checked by evaluation on every run for depths 0..3 x 0..3")


@spec(TD + "dc_prediction")
class _dcp:
    args = {"band": "grid"}
    requires = []
    modifies = ["gcontent(band)"]
    raises = {}
    ensures = []
    invariants = {1: ["True"], 2: ["True"]}

from contracts.c13_slice_sizes import subband_dims_nonneg, slice_bounds_in_range  # noqa: E402


@inline
def slice_ctx(state):
    """What every slice-level function relies on."""
    return (dinv(state) and not has(state, "_recorded_bytes") and has(state, "parse_code")
            and (ld_code(state["parse_code"]) or hq_code(state["parse_code"]))
            and wavelet_known(state) and slices_known(state) and coding_params_known(state) and transforms_ok(state)
            and has(state, "quant_matrix") and qm_shape(state["quant_matrix"], state["dwt_depth"], state["dwt_depth_ho"])
            and lcv_ok(state))


@inline
def nn3(m, L):
    return lo_get(m, L, "HL") >= 0 and lo_get(m, L, "LH") >= 0 and lo_get(m, L, "HH") >= 0


@inline
def qz_nonneg(m, d, dh):
    return ite(dh == 0,
               lo_get(m, 0, "LL") >= 0 and forall(1, d + 1, lambda L: nn3(m, L), trigger=lambda L: lo_row(m, L)),
               lo_get(m, 0, "L") >= 0 and forall(1, dh + 1, lambda L: lo_get(m, L, "H") >= 0, trigger=lambda L: lo_row(m, L))
               and forall(dh + 1, dh + d + 1, lambda L: nn3(m, L), trigger=lambda L: lo_row(m, L)))


@inline
def quantizer_ok(state):
    return (has(state, "quantizer") and qm_shape(state["quantizer"], state["dwt_depth"], state["dwt_depth_ho"])
            and qz_nonneg(state["quantizer"], state["dwt_depth"], state["dwt_depth_ho"]))


SLICE_POST = IO_POST + ["slice_ctx(state)"]


@spec(TD + "slice_quantizers")
class _sq:
    args = {"state": STATE, "qindex": "int"}
    requires = ["slice_ctx(state)"]
    modifies = ['state["quantizer"]']
    raises = {}
    ensures = ["slice_ctx(state)", "quantizer_ok(state)", 'is_fresh(state["quantizer"])']
    invariants = {
        1: ['has(state, "quantizer") and is_fresh(state["quantizer"])', 'lo_has(state["quantizer"], 0, "LL") and lo_get(state["quantizer"], 0, "LL") >= 0',
            'forall(1, level, lambda L: hi3(state["quantizer"], L) and nn3(state["quantizer"], L), trigger=lambda L: lo_row(state["quantizer"], L))'],
        2: [],
        3: ['has(state, "quantizer") and is_fresh(state["quantizer"])', 'lo_has(state["quantizer"], 0, "L") and lo_get(state["quantizer"], 0, "L") >= 0',
            'forall(1, level, lambda L: lo_has(state["quantizer"], L, "H") and lo_get(state["quantizer"], L, "H") >= 0, trigger=lambda L: lo_row(state["quantizer"], L))'],
        4: ['has(state, "quantizer") and is_fresh(state["quantizer"])', 'lo_has(state["quantizer"], 0, "L") and lo_get(state["quantizer"], 0, "L") >= 0',
            'forall(1, state["dwt_depth_ho"] + 1, lambda L: lo_has(state["quantizer"], L, "H") and lo_get(state["quantizer"], L, "H") >= 0, trigger=lambda L: lo_row(state["quantizer"], L))',
            'forall(state["dwt_depth_ho"] + 1, level, lambda L: hi3(state["quantizer"], L) and nn3(state["quantizer"], L), trigger=lambda L: lo_row(state["quantizer"], L))'],
        5: [],
    }


SB_PRE = ["slice_ctx(state)", "quantizer_ok(state)", 'has(state, "bits_left") and state["bits_left"] >= 0',
          '0 <= sx and sx < state["slices_x"] and 0 <= sy and sy < state["slices_y"]',
          'valid_lo(level, orient, state["dwt_depth"], state["dwt_depth_ho"])']
SB_POST = IO_POST + ["slice_ctx(state)", "quantizer_ok(state)", 'has(state, "bits_left") and state["bits_left"] >= 0']
SB_INV = IO_POST + ['has(state, "bits_left") and state["bits_left"] >= 0']


@spec(TD + "slice_band")
class _sb:
    args = {"state": STATE, "transform": "str", "level": "int", "orient": "str", "sx": "int", "sy": "int"}
    str_domains = {"transform": TRANSFORM_DOMAIN, "orient": ORIENT_DOMAIN}
    split_on = ["transform", "orient"]
    requires = SB_PRE + ['transform == "y_transform" or transform == "c1_transform" or transform == "c2_transform"']
    modifies = FRAME_IOB + ["gcontent(lo_get(state[transform], level, orient))"]
    raises = {"UnexpectedEndOfStream": None}
    ensures = SB_POST
    invariants = {1: SB_INV, 2: SB_INV}
    ghost = {
        "after_stmt1": [
            '(g_luma := (comp == "Y"))',
            'subband_dims_nonneg(state["luma_width"], state["luma_height"], state["color_diff_width"], state["color_diff_height"], '
            'state["dwt_depth"], state["dwt_depth_ho"], level, g_luma)',
            'slice_bounds_in_range(subband_height(state, level, comp), state["slices_y"], sy)',
            'slice_bounds_in_range(subband_width(state, level, comp), state["slices_x"], sx)',
            'unfold(SBH, state["luma_width"], state["luma_height"], state["color_diff_width"], state["color_diff_height"], state["dwt_depth"], state["dwt_depth_ho"], level, 1 if g_luma else 0)',
            'unfold(SBW, state["luma_width"], state["luma_height"], state["color_diff_width"], state["color_diff_height"], state["dwt_depth"], state["dwt_depth_ho"], level, 1 if g_luma else 0)',
            # intermediate steps (each becomes a fact for the index-range obligations inside the loops)
            'check(subband_height(state, level, comp) == sbh(state, level, 1 if g_luma else 0))',
            'check(subband_width(state, level, comp) == sbw(state, level, 1 if g_luma else 0))',
            'check(gheight(lo_get(state[transform], level, orient)) == sbh(state, level, 1 if g_luma else 0))',
            'check(gwidth(lo_get(state[transform], level, orient)) == sbw(state, level, 1 if g_luma else 0))',
        ],
        "after_stmt6": [
            'check(0 <= y1 and y1 <= y2 and y2 <= gheight(lo_get(state[transform], level, orient)))',
            'check(0 <= x1 and x1 <= x2 and x2 <= gwidth(lo_get(state[transform], level, orient)))',
        ],
    }


@spec(TD + "color_diff_slice_band")
class _cdsb:
    args = {"state": STATE, "level": "int", "orient": "str", "sx": "int", "sy": "int"}
    str_domains = {"orient": ORIENT_DOMAIN}
    split_on = ["orient"]
    requires = SB_PRE
    modifies = FRAME_IOB + ['gcontent(lo_get(state["c1_transform"], level, orient))', 'gcontent(lo_get(state["c2_transform"], level, orient))']
    raises = {"UnexpectedEndOfStream": None}
    ensures = SB_POST
    invariants = {1: SB_INV, 2: SB_INV}
    ghost = {
        "entry": [
            'subband_dims_nonneg(state["luma_width"], state["luma_height"], state["color_diff_width"], state["color_diff_height"], '
            'state["dwt_depth"], state["dwt_depth_ho"], level, False)',
            'slice_bounds_in_range(subband_height(state, level, "C1"), state["slices_y"], sy)',
            'slice_bounds_in_range(subband_width(state, level, "C1"), state["slices_x"], sx)',
            'unfold(SBH, state["luma_width"], state["luma_height"], state["color_diff_width"], state["color_diff_height"], state["dwt_depth"], state["dwt_depth_ho"], level, 0)',
            'unfold(SBW, state["luma_width"], state["luma_height"], state["color_diff_width"], state["color_diff_height"], state["dwt_depth"], state["dwt_depth_ho"], level, 0)',
            'check(subband_height(state, level, "C1") == sbh(state, level, 0))',
            'check(subband_width(state, level, "C1") == sbw(state, level, 0))',
            'check(gheight(lo_get(state["c1_transform"], level, orient)) == sbh(state, level, 0) and gheight(lo_get(state["c2_transform"], level, orient)) == sbh(state, level, 0))',
            'check(gwidth(lo_get(state["c1_transform"], level, orient)) == sbw(state, level, 0) and gwidth(lo_get(state["c2_transform"], level, orient)) == sbw(state, level, 0))',
        ],
        "after_stmt5": [
            'check(0 <= y1 and y1 <= y2 and y2 <= sbh(state, level, 0))',
            'check(0 <= x1 and x1 <= x2 and x2 <= sbw(state, level, 0))',
        ],
    }


SLICE_PRE = ["slice_ctx(state)", '0 <= sx and sx < state["slices_x"] and 0 <= sy and sy < state["slices_y"]']
LOOP_INV = IO_POST + ["slice_ctx(state)", "quantizer_ok(state)", 'has(state, "bits_left") and state["bits_left"] >= 0']


@spec(TD + "ld_slice")
class _lds:
    args = {"state": STATE, "sx": "int", "sy": "int"}
    requires = SLICE_PRE + ['ld_code(state["parse_code"])']
    modifies = FRAME_IOB + ['state["_level_constrained_values"]', "state.g_lcv_level", 'state["quantizer"]', "all_grids()"]
    raises = {"ConformanceError": None}
    ensures = IO_POST + ["slice_ctx(state)"]
    invariants = {k: LOOP_INV for k in range(1, 13)}


@spec(TD + "hq_slice")
class _hqs:
    args = {"state": STATE, "sx": "int", "sy": "int"}
    requires = SLICE_PRE + ['hq_code(state["parse_code"])']
    modifies = FRAME_IOB + ['state["_level_constrained_values"]', "state.g_lcv_level", 'state["quantizer"]', "all_grids()"]
    raises = {"ConformanceError": None}
    ensures = IO_POST + ["slice_ctx(state)"]
    invariants = {k: LOOP_INV for k in range(1, 8)}


@spec(TD + "slice")
class _slice:
    args = {"state": STATE, "sx": "int", "sy": "int"}
    requires = SLICE_PRE
    modifies = FRAME_IOB + ['state["_level_constrained_values"]', "state.g_lcv_level", 'state["quantizer"]', "all_grids()"]
    raises = {"ConformanceError": None}
    ensures = IO_POST + ["slice_ctx(state)"]


@spec(TD + "transform_data")
class _tdata:
    args = {"state": STATE}
    requires = ["dinv(state)", 'not has(state, "_recorded_bytes")', "hdr_known(state)",
                'has(state, "parse_code") and (ld_code(state["parse_code"]) or hq_code(state["parse_code"]))', "tp_known(state)"]
    modifies = FRAME_IOB + ['state["_level_constrained_values"]', "state.g_lcv_level", 'state["quantizer"]', "all_grids()",
                            'state["y_transform"]', 'state["c1_transform"]', 'state["c2_transform"]']
    raises = {"ConformanceError": None}
    ensures = IO_POST + ["slice_ctx(state)", "hdr_known(state)", "tp_known(state)"]
    invariants = {1: IO_POST + ["slice_ctx(state)"], 2: IO_POST + ["slice_ctx(state)"]}


from contracts.c02_corpus import MONITOR_DRIVER  # noqa: E402,F401  (native fallback: run-time monitoring over corpus streams)
