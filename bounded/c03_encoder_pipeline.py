"""C03 - encoder output is always a conformant stream in the requested format (bounded stand-in, never "proved").

Contract on  encoder.make_sequence  +  bitstream.autofill_and_serialise_stream  (judged by the real validator,
vc2_conformance.decoder init_io/parse_stream run in-process with _output_picture_callback capturing the pictures):

  PRE   the codec configuration is accepted by the encoder (no documented UnsatisfiableCodecFeaturesError), its video format is
        well-formed (11.6.2: the picture/colour-difference dimensions divide the frame dimensions), the pictures have the
        configured size and bit depth, the picture numbers that ARE given are consecutive mod 2**32 (the first one even when
        pictures are fields) and a field-coded sequence holds whole frames (an even number of pictures).
  POST  clause -> oracle (all written from the statement, none from the code)
    S  serialising does not fail             : make_sequence / autofill_and_serialise_stream raise nothing else
    V  the validator accepts                 : parse_stream returns; a ConformanceError (or any other exception) is a violation
    P  exactly the configured parameters     : every callback receives video_parameters equal, field by field, to the configured
                                               ones (same key set) and the configured picture_coding_mode
    N  one decoded picture per input picture : number of callbacks == number of input pictures
    K  the given (or consecutive) numbers    : decoded pic_num[i] == given[i] where given, else previous + 1 mod 2**32 (0 at the start)
    O  in order, of the configured size      : every decoded component has the configured dimensions (own reference of 11.6.2); in
                                               lossless configurations the i-th decoded picture is at least as close (sum of absolute
                                               differences) to the i-th input as to any other input (exact equality is C04's business
                                               and is NOT demanded here)

Domains (each one rep.add_bounded with the measured number of encoder->validator executions):
  D1 transform grid (exhaustive)   3 coding modes {HQ lossless, HQ lossy, LD lossy} x {unfragmented, fragmented} x all 7x7 wavelet
                                    pairs (custom matrix where no default exists) x depth shapes incl. asymmetric; 8x4/12x8 pictures
  D2 format grid (exhaustive)      3 modes x 3 colour subsamplings x frames/fields x sizes 2x2..16x8 (odd sizes for 4:4:4 frames) x
                                    slice grids incl. 1x1, non-dividing and one-slice-per-coefficient-or-more x fragment sizes
  D3 picture-number grid (exh.)    frames/fields x unfragmented/fragmented x HQ/LD x 0..4 pictures x first number in {0, random, 2**31-1,
                                    2**32-4 .. 2**32-1} x {all given, none given, first given, a prefix given, all but the first given}
  D4 base formats x one field      every base video format x every single-field deviation from its defaults (tiny frame size): the
                                    sequence header search must reproduce the configured parameters exactly
  D5 starved lossy                 picture_bytes at the smallest value the encoder accepts (found by scanning upwards), worst-case
                                    content; and very generous picture_bytes / deep samples forcing slice_size_scaler > 1
  D6 seeded sample                 everything at once: random base format + random deviations, bit depths 1..24 (luma != chroma),
                                    custom quantisation matrices, minimum_qindex / minimum_slice_size_scaler overrides, 0..4 pictures
  D7 full-size base formats        qsif525, qcif, sif525, cif (thorough: up to the SD formats) exactly as tabulated, so that no
                                    custom_*_flag is needed at all
Ground facts (rep.add_eval_fact): the generated domains cover every member of the live tables WaveletFilters (and every ordered pair of
distinct filters), ColorDifferenceSamplingFormats, PictureCodingModes, BaseVideoFormats and all three coding modes, fragmented and not.
Bounds: frame sizes up to 16x8 (D5: a few one-slice 64x32; D6 thorough: 24x16; D7: the real 176x120..352x288, thorough ..720x576),
dwt_depth + dwt_depth_ho <= 3 (thorough 4), sample depths <= 24 bits, <= 4 pictures (thorough 6), level = unconstrained only, one sequence
per stream.  quick: about 2350 configurations (8 worker processes); thorough: about 13400, with larger grids, sizes and depths.  All
randomness derives from `seed`; a configuration the encoder refuses (documented exception) is counted and skipped, and every domain must
keep at least two thirds of its configurations.  Unknown / time limit is never a verdict."""
import io
import random
import signal

M32 = 1 << 32
MAX_VIOLATIONS_PER_CLAUSE = 3
CASE_TIME_LIMIT = [120]  # seconds of wall time for one configuration (a non-terminating encoder must not hang the check); thorough: 900

MODES = ("hq_lossless", "hq_lossy", "ld_lossy")
VP_KEYS = ("frame_width", "frame_height", "color_diff_format_index", "source_sampling", "top_field_first", "frame_rate_numer",
           "frame_rate_denom", "pixel_aspect_ratio_numer", "pixel_aspect_ratio_denom", "clean_width", "clean_height", "left_offset",
           "top_offset", "luma_offset", "luma_excursion", "color_diff_offset", "color_diff_excursion", "color_primaries_index",
           "color_matrix_index", "transfer_function_index")


# =========================================================================================== reference (from the statement / standard)
def ref_intlog2(n):
    """(5.5.3) smallest m with 2**m >= n."""
    return (n - 1).bit_length()


def ref_dims(vp, pcm):
    """(11.6.2) {component: (width, height)} of one picture."""
    lw, lh = vp["frame_width"], vp["frame_height"]
    cw, ch = lw, lh
    cdf = int(vp["color_diff_format_index"])
    if cdf in (1, 2):
        cw //= 2
    if cdf == 2:
        ch //= 2
    if int(pcm) == 1:
        lh //= 2
        ch //= 2
    return {"Y": (lw, lh), "C1": (cw, ch), "C2": (cw, ch)}


def ref_depths(vp):
    """(11.6.3)"""
    return {"Y": ref_intlog2(vp["luma_excursion"] + 1), "C1": ref_intlog2(vp["color_diff_excursion"] + 1),
            "C2": ref_intlog2(vp["color_diff_excursion"] + 1)}


def format_well_formed(vp, pcm):
    d = ref_dims(vp, pcm)
    return all(w > 0 and h > 0 and vp["frame_width"] % w == 0 and vp["frame_height"] % h == 0 for w, h in d.values())


def expected_numbers(given):
    """Clause K: the given number where there is one, else the previous one plus one (mod 2**32), 0 at the start."""
    out, last = [], M32 - 1
    for g in given:
        last = g if g is not None else (last + 1) % M32
        out.append(last)
    return out


def matrix_shape(d, dh):
    """(12.4.5.3) [(level, [orientations])] of a transform with dwt_depth d and dwt_depth_ho dh."""
    out = [(0, ["L"] if dh else ["LL"])]
    out += [(lv, ["H"]) for lv in range(1, dh + 1)]
    out += [(lv, ["HL", "LH", "HH"]) for lv in range(dh + 1, dh + d + 1)]
    return out


def custom_matrix(d, dh, qseed):
    rng = random.Random(qseed)
    style = qseed % 3
    return {lv: {o: (0 if style == 0 else rng.randrange(0, 9) if style == 1 else rng.choice([0, 1, 4, 17, 60])) for o in os} for lv, os in matrix_shape(d, dh)}


# =========================================================================================== case -> inputs (JSON-able case dicts)
def given_numbers(case):
    """The pic_num the i-th input picture carries (None: the key is omitted and left to the automatic filling)."""
    n, first, pat = case["npics"], case["first"], case["numbering"]
    consecutive = [(first + i) % M32 for i in range(n)]
    if pat == "given":
        return consecutive
    if pat == "omitted":
        return [None] * n
    if pat == "first-given":
        return [consecutive[i] if i == 0 else None for i in range(n)]
    if pat == "prefix-given":
        return [consecutive[i] if i < (n + 1) // 2 else None for i in range(n)]
    if pat == "all-but-first":     # the first is filled in as 0, so the given ones continue from 0
        return ([None] + [i % M32 for i in range(1, n)])[:n]
    raise ValueError(pat)


def build_vp(case):
    import vc2_data_tables as T
    from vc2_conformance.pseudocode.video_parameters import set_source_defaults

    vp = set_source_defaults(T.BaseVideoFormats(case["base"]))
    if case.get("full_size"):   # the base video format exactly as tabulated (frame size, clean area, colour sampling and all)
        if (vp["frame_width"], vp["frame_height"], int(vp["color_diff_format_index"])) != (case["w"], case["h"], case["cdf"]):
            raise RuntimeError("C03 generator: full-size case does not match the live base video format table: %r" % (case,))
    else:
        w, h = case["w"], case["h"]
        vp["frame_width"], vp["frame_height"] = w, h
        vp["clean_width"], vp["clean_height"], vp["left_offset"], vp["top_offset"] = w, h, 0, 0
        vp["color_diff_format_index"] = T.ColorDifferenceSamplingFormats(case["cdf"])
    enums = {"source_sampling": T.SourceSamplingModes, "color_primaries_index": T.PresetColorPrimaries,
             "color_matrix_index": T.PresetColorMatrices, "transfer_function_index": T.PresetTransferFunctions}
    for k, v in sorted(case.get("vp", {}).items()):
        if k not in VP_KEYS:
            raise KeyError(k)
        vp[k] = enums[k](v) if k in enums else v
    return vp


def build_features(case):
    import vc2_data_tables as T
    from vc2_conformance.codec_features import CodecFeatures

    mode = case["mode"]
    return CodecFeatures(
        name="c03", level=T.Levels.unconstrained, profile=T.Profiles.low_delay if mode == "ld_lossy" else T.Profiles.high_quality,
        picture_coding_mode=T.PictureCodingModes(case["pcm"]), video_parameters=build_vp(case),
        wavelet_index=T.WaveletFilters(case["wi"]), wavelet_index_ho=T.WaveletFilters(case["wih"]), dwt_depth=case["d"], dwt_depth_ho=case["dh"],
        slices_x=case["sx"], slices_y=case["sy"], fragment_slice_count=case["frag"], lossless=(mode == "hq_lossless"),
        picture_bytes=None if mode == "hq_lossless" else case["pb"],
        quantization_matrix=custom_matrix(case["d"], case["dh"], case["qm"]) if case.get("qm") is not None else None)


def build_pictures(case, vp, pcm):
    dims, depths = ref_dims(vp, pcm), ref_depths(vp)
    rng = random.Random(case["seed"])
    out = []
    for i, g in enumerate(given_numbers(case)):
        style = case["content"][i % len(case["content"])]
        pic = {}
        for comp in ("Y", "C1", "C2"):
            (w, h), top = dims[comp], (1 << depths[comp]) - 1
            if style == "noise":
                a = [[rng.randrange(top + 1) for _ in range(w)] for _ in range(h)]
            elif style == "checker":
                a = [[top * ((x + y + i) & 1) for x in range(w)] for y in range(h)]
            elif style == "edges":
                a = [[rng.choice((0, top)) for _ in range(w)] for _ in range(h)]
            elif style == "flat":
                a = [[(top * (i + 1)) // (case["npics"] + 1)] * w for _ in range(h)]
            elif style == "max":
                a = [[top] * w for _ in range(h)]
            elif style == "zero":
                a = [[0] * w for _ in range(h)]
            else:
                raise ValueError(style)
            pic[comp] = a
        if g is not None:
            pic["pic_num"] = g
        out.append(pic)
    return out


class _Timeout(BaseException):
    pass


def _on_alarm(_s, _f):
    raise _Timeout()


def _sad(a, b):
    return sum(abs(x - y) for ra, rb in zip(a, b) for x, y in zip(ra, rb))


def run_case(case):
    """Runs one configuration through encoder -> autofill+serialise -> validator.  Returns a JSON-able dict:
    {"status": "ok" | "skip" | "timeout" | "fail", ...}; for "fail": clause, expected, observed."""
    old = signal.signal(signal.SIGALRM, _on_alarm)
    signal.alarm(CASE_TIME_LIMIT[0])
    try:
        return _TRAMPOLINE(_run_case, case)
    except _Timeout:
        return {"status": "timeout"}
    finally:
        signal.alarm(0)
        signal.signal(signal.SIGALRM, old)


def _make_trampoline(n_locals=4200):
    """Performance only.  CPython >= 3.11 keeps interpreter frames on a per-thread data stack made of 16 KiB chunks that are mmap'ed when a call
    crosses the end of a chunk and munmap'ed on return.  Depending on how deep the caller happens to be (test runner, multiprocessing worker),
    a hot leaf call of the encoder/decoder can sit exactly on such a boundary: measured 50x slow-down, almost all of it system time.  A frame
    with > 32 KiB of locals never fits the current chunk, so it gets a fresh 64 KiB chunk of its own and leaves ~30 KiB of it to its callees:
    the pipeline below it then runs inside one chunk whatever the depth of the caller."""
    ns = {}
    exec("def trampoline(f, x):\n    %s = None\n    return f(x)\n" % " = ".join("_pad%d" % i for i in range(n_locals)), ns)
    return ns["trampoline"]


_TRAMPOLINE = _make_trampoline()


def _exc(e):
    return "%s: %s" % (type(e).__name__, " ".join(str(e).split())[:300])


def _run_case(case):
    from vc2_conformance.bitstream import Stream, autofill_and_serialise_stream
    from vc2_conformance.encoder import make_sequence
    from vc2_conformance.encoder.exceptions import UnsatisfiableCodecFeaturesError
    from vc2_conformance.pseudocode.state import State
    from vc2_conformance import decoder

    cf = build_features(case)
    vp, pcm = cf["video_parameters"], cf["picture_coding_mode"]
    if not format_well_formed(vp, pcm):
        raise RuntimeError("C03 generator produced an ill-formed video format: %r" % (case,))
    want_vp = {k: vp[k] for k in VP_KEYS}
    want_pcm = int(pcm)
    kwargs = {}
    if case.get("minq"):
        kwargs["minimum_qindex"] = case["minq"]
    if case.get("mins", 1) != 1:
        kwargs["minimum_slice_size_scaler"] = case["mins"]

    # ---- PRE: the encoder accepts the configuration.  "min" picture_bytes: the smallest value the encoder accepts (scan upwards)
    pb_used = case.get("pb")
    scan = case["mode"] != "hq_lossless" and case.get("pb") == "min"
    candidates = range(1, 40 * case["sx"] * case["sy"] + 64) if scan else [pb_used]
    seq = None
    attempts = 0
    refusal = None
    for pb in candidates:
        if scan:
            cf["picture_bytes"] = pb_used = pb
        pictures = build_pictures(case, vp, pcm)
        attempts += 1
        try:
            seq = make_sequence(cf, pictures, **kwargs)
            break
        except UnsatisfiableCodecFeaturesError as e:   # documented refusal: the precondition is not met
            refusal = type(e).__name__
            continue
        except Exception as e:
            return {"status": "fail", "clause": "S", "what": "make_sequence raised an undocumented exception", "expected": "a Sequence, or a documented "
                    "UnsatisfiableCodecFeaturesError", "observed": _exc(e), "picture_bytes": pb_used}
    if seq is None:
        return {"status": "skip", "why": refusal, "attempts": attempts}
    pictures = build_pictures(case, vp, pcm)   # pristine copies (the encoder must not be trusted to leave its input alone)
    given = given_numbers(case)

    f = io.BytesIO()
    try:
        autofill_and_serialise_stream(f, Stream(sequences=[seq]))
    except Exception as e:
        out = {"status": "fail", "clause": "S", "what": "autofill_and_serialise_stream failed on the encoder's sequence", "expected": "a byte string",
               "observed": _exc(e), "picture_bytes": pb_used}
        # explained-by predicate for one way this can happen (it only labels the case, see README 'known_key'; unlisted it stays a violation):
        # the encoder's rate control chose a quantisation index that the slice header cannot express (13.5.3.1: 7 bits in LD, 13.5.4: 8 bits in HQ slices)
        top = _max_qindex(seq)
        limit = 127 if case["mode"] == "ld_lossy" else 255
        if top is not None and top > limit:
            out["known_key"] = "C03:encoder-qindex-exceeds-slice-header-field"
            out["max_qindex_in_sequence"] = top
        return out
    data = f.getvalue()

    got = []

    def cb(picture, video_parameters, picture_coding_mode):
        got.append((picture, video_parameters, picture_coding_mode))

    st = State(_output_picture_callback=cb)
    decoder.init_io(st, io.BytesIO(data))
    info = {"picture_bytes": pb_used, "stream_hex": data.hex() if len(data) <= 600 else data[:600].hex() + "...", "stream_length": len(data)}
    try:
        decoder.parse_stream(st)
    except decoder.ConformanceError as e:
        return dict(info, status="fail", clause="V", what="the validator rejects the serialised encoder output", expected="parse_stream returns",
                    observed="%s after %d decoded pictures: %s" % (type(e).__name__, len(got), " ".join(e.explain().split())[:300]))
    except Exception as e:
        return dict(info, status="fail", clause="V", what="the validator fails on the serialised encoder output", expected="parse_stream returns",
                    observed=_exc(e))

    res = {"status": "ok", "picture_bytes": pb_used, "attempts": attempts, "bytes": len(data), "npics": len(pictures)}
    # ---- N
    if len(got) != len(pictures):
        return dict(info, status="fail", clause="N", what="number of decoded pictures differs from the number of input pictures",
                    expected=len(pictures), observed=len(got))
    # ---- P
    for i, (_pic, gvp, gpcm) in enumerate(got):
        try:
            gd = {k: gvp[k] for k in gvp}
        except Exception as e:
            return dict(info, status="fail", clause="P", what="the callback's video parameters are not a mapping", expected="mapping", observed=_exc(e))
        diff = {k: [_j(want_vp.get(k)), _j(gd.get(k))] for k in sorted(set(gd) | set(want_vp)) if k not in gd or k not in want_vp or gd[k] != want_vp[k]}
        if diff:
            return dict(info, status="fail", clause="P", what="decoded picture %d carries video parameters that differ from the configured ones" % i,
                        expected={k: v[0] for k, v in diff.items()}, observed={k: v[1] for k, v in diff.items()})
        if gpcm != want_pcm:
            return dict(info, status="fail", clause="P", what="decoded picture %d carries a picture coding mode that differs from the configured one" % i,
                        expected=want_pcm, observed=_j(gpcm))
    # ---- K
    want_nums = expected_numbers(given)
    got_nums = [p.get("pic_num") for p, _v, _m in got]
    if got_nums != want_nums:
        return dict(info, status="fail", clause="K", what="decoded picture numbers are not the given (or consecutive) ones",
                    expected=want_nums, observed=[_j(x) for x in got_nums], given=given)
    # ---- O
    dims = ref_dims(vp, pcm)
    for i, (p, _v, _m) in enumerate(got):
        for comp in ("Y", "C1", "C2"):
            a = p.get(comp)
            shape = None if a is None else (len(a[0]) if len(a) else 0, len(a))
            if a is None or shape != dims[comp] or any(len(r) != dims[comp][0] for r in a):
                return dict(info, status="fail", clause="O", what="decoded picture %d component %s does not have the configured dimensions" % (i, comp),
                            expected=list(dims[comp]), observed=None if shape is None else list(shape))
    if case["mode"] == "hq_lossless" and len(pictures) > 1:
        for i, (p, _v, _m) in enumerate(got):
            dist = [sum(_sad(p[c], q[c]) for c in ("Y", "C1", "C2")) for q in pictures]
            if dist[i] > min(dist):
                return dict(info, status="fail", clause="O", what="lossless: decoded picture %d is closer to another input picture than to input picture %d" % (i, i),
                            expected="distance to input %d minimal" % i, observed={"sum_abs_diff_to_each_input": dist})
    return res


def _max_qindex(seq):
    """Largest qindex of any slice in a bitstream.Sequence description (None if it holds no slices)."""
    top = None
    for du in seq.get("data_units", []):
        holders = [du.get("picture_parse", {}).get("wavelet_transform", {}).get("transform_data", {}), du.get("fragment_parse", {}).get("fragment_data", {})]
        for h in holders:
            for key in ("ld_slices", "hq_slices"):
                for sl in h.get(key, []):
                    q = sl.get("qindex")
                    if isinstance(q, int) and (top is None or q > top):
                        top = q
    return top


def _j(x):
    if x is None or isinstance(x, (bool, str)):
        return x
    try:
        return int(x)
    except Exception:
        return repr(x)


# =========================================================================================== domains
def _case(**kw):
    c = dict(mode="hq_lossless", base=0, w=8, h=4, cdf=0, pcm=0, vp={}, wi=4, wih=4, d=1, dh=0, sx=2, sy=1, frag=0, pb=None, qm=None,
             npics=1, first=0, numbering="given", content=["noise"], seed=1)
    c.update(kw)
    if c["mode"] != "hq_lossless" and c["pb"] is None:
        c["pb"] = 14 * c["sx"] * c["sy"] + 3
    if c["pcm"] == 1 and c["npics"] % 2:
        c["npics"] += 1
    return c


def _needs_custom(defaults, wi, wih, d, dh):
    return (wi, wih, d, dh) not in defaults


def dom_transform_grid(tier, rng, defaults):
    shapes = [(0, 0), (1, 0), (2, 0), (0, 1), (1, 1), (0, 2)] + ([(3, 0), (2, 1), (1, 2), (0, 3)] if tier != "quick" else [(1, 2)])
    out = []
    for mi, mode in enumerate(MODES):
        for frag in (0, 2):
            for wi in range(7):
                for wih in range(7):
                    for d, dh in shapes:
                        if dh == 0 and wih != wi:
                            continue   # symmetric transforms have one wavelet ("both values must be equal")
                        if tier == "quick" and wi != wih and (wi + wih + d + dh + frag + len(mode)) % 3:
                            continue   # quick: a fixed third of the asymmetric pairs per shape (all pairs appear across shapes/modes)
                        if tier == "quick" and (frag == 2) != bool((wi + 2 * wih + d + dh + mi) % 2):
                            continue   # quick: fragmented or not, alternating
                        big = d + dh >= 2
                        out.append(_case(mode=mode, frag=frag, wi=wi, wih=wih, d=d, dh=dh, w=12 if big else 8, h=8 if big else 4, sx=3 if big else 2, sy=1 + (d > 1),
                                         qm=rng.randrange(1 << 20) if _needs_custom(defaults, wi, wih, d, dh) else None,
                                         cdf=(wi + d) % 3 if big else 0, content=["noise"], seed=rng.randrange(1 << 30),
                                         first=rng.choice([0, 5, M32 - 1]), npics=1))
    return out


def dom_format_grid(tier, rng, defaults):
    sizes = [(2, 2), (4, 4), (6, 4), (7, 3), (16, 8)] + ([(4, 2), (8, 8), (3, 5), (10, 4), (12, 12), (16, 4)] if tier != "quick" else [])
    out = []
    for mode in MODES:
        for cdf in (0, 1, 2):
            for pcm in (0, 1):
                for (w, h) in sizes:
                    vp = dict(frame_width=w, frame_height=h, color_diff_format_index=cdf)
                    if not format_well_formed(vp, pcm):
                        continue
                    lw, lh = ref_dims(vp, pcm)["Y"]
                    grids = sorted(set([(1, 1), (min(3, lw), min(2, lh)), (lw, lh), (lw + 1, 1)] + ([(max(1, lw // 2), max(1, lh // 2))] if tier != "quick" else [])))
                    for (sx, sy) in grids:
                        nsl = sx * sy
                        for frag in sorted(set([0, 1, max(1, nsl - 1), nsl + 1])):
                            if tier == "quick" and frag not in (0, 1) and (w + h + sx + sy + cdf + pcm + frag) % 2:
                                continue
                            d, dh = ((1, 0), (0, 1), (1, 1), (2, 0))[(w + sx + cdf + pcm + frag) % 4]
                            wi = (w + h + sx + frag) % 7
                            out.append(_case(mode=mode, cdf=cdf, pcm=pcm, w=w, h=h, sx=sx, sy=sy, frag=frag, d=d, dh=dh, wi=wi, wih=wi,
                                             npics=2 if pcm else 1, content=["noise", "edges"], seed=rng.randrange(1 << 30), first=rng.choice([0, 2, 1000])))
    return out


def dom_numbers(tier, rng, defaults):
    out = []
    firsts = [0, 1, 2 * rng.randrange(1, 1 << 30), 2 * rng.randrange(1, 1 << 30) + 1, (1 << 31) - 1, M32 - 4, M32 - 3, M32 - 2, M32 - 1]
    for pcm in (0, 1):
        for frag in (0, 1, 3):
            for mode in (("hq_lossless", "ld_lossy", "hq_lossy") if tier != "quick" else (("hq_lossless", "ld_lossy")[(pcm + frag) % 2],)):
                for n in range(0, 5 if tier == "quick" else 7):
                    if pcm and n % 2:
                        continue
                    for pat in ("given", "omitted", "first-given", "prefix-given", "all-but-first"):
                        for first in firsts:
                            if pat in ("omitted", "all-but-first") and first != 0:
                                continue   # `first` is unused by these patterns
                            if pcm and first % 2:
                                continue   # the earliest field of a frame has an even picture number
                            if n == 0 and (first or pat != "given"):
                                continue
                            out.append(_case(mode=mode, pcm=pcm, frag=frag, w=4, h=4, sx=2, sy=2, npics=n, first=first, numbering=pat,
                                             content=["noise", "flat", "edges"], seed=rng.randrange(1 << 30)))
    return out


def vp_deviations(T, base_vp, w, h):
    """Single-field (or single-group) deviations from a base format's defaults: [(label, {key: value})]."""
    out = [("defaults", {})]
    for v in T.SourceSamplingModes:
        out.append(("source_sampling", {"source_sampling": int(v)}))
    for v in (False, True):
        out.append(("top_field_first", {"top_field_first": v}))
    for n, d in ((24000, 1001), (25, 1), (50, 2), (7, 3), (1, 1), (120, 1), (1, 7)):
        out.append(("frame_rate", {"frame_rate_numer": n, "frame_rate_denom": d}))
    for n, d in ((1, 1), (10, 11), (12, 11), (4, 3), (2, 2), (7, 5)):
        out.append(("pixel_aspect_ratio", {"pixel_aspect_ratio_numer": n, "pixel_aspect_ratio_denom": d}))
    for cw, ch, lo, to in ((w - 1, h, 0, 0), (w, h - 1, 0, 0), (w - 1, h - 1, 1, 1), (1, 1, 0, 0), (1, 1, w - 1, h - 1), (w - 1, h, 1, 0)):
        out.append(("clean_area", {"clean_width": cw, "clean_height": ch, "left_offset": lo, "top_offset": to}))
    for lo, le, co, ce in ((0, 255, 128, 255), (16, 219, 128, 224), (64, 876, 512, 896), (256, 3504, 2048, 3584), (0, 1, 1, 1), (0, 65535, 32768, 65535),
                           (3, 200, 100, 1000), (0, 4095, 2048, 255), (16, 219, 128, 225), (17, 219, 128, 224), (4096, 56064, 32768, 57344)):
        out.append(("signal_range", {"luma_offset": lo, "luma_excursion": le, "color_diff_offset": co, "color_diff_excursion": ce}))
    for v in T.PresetColorPrimaries:
        out.append(("color_primaries", {"color_primaries_index": int(v)}))
    for v in T.PresetColorMatrices:
        out.append(("color_matrix", {"color_matrix_index": int(v)}))
    for v in T.PresetTransferFunctions:
        out.append(("transfer_function", {"transfer_function_index": int(v)}))
    # drop deviations that equal the defaults (keeps "defaults" once)
    return [(l, o) for l, o in out if not o or any(base_vp[k] != v for k, v in o.items())]


def dom_base_formats(tier, rng, defaults):
    import vc2_data_tables as T
    from vc2_conformance.pseudocode.video_parameters import set_source_defaults

    out = []
    for b in T.BaseVideoFormats:
        base_vp = set_source_defaults(b)
        cdf = int(base_vp["color_diff_format_index"])
        devs = vp_deviations(T, base_vp, 4, 4)
        for i, (label, over) in enumerate(devs):
            if tier == "quick" and label != "defaults" and (i + int(b)) % 3:
                continue   # quick: every deviation is applied to a third of the base formats (and every base format gets a third of them)
            pcm = (i + int(b)) % 2
            out.append(_case(mode=("hq_lossless", "ld_lossy", "hq_lossy")[(i + int(b)) % 3], base=int(b), cdf=cdf, pcm=pcm, w=4, h=4, sx=1, sy=1, d=1, vp=over, npics=2 if pcm else 1,
                             content=["noise"], seed=rng.randrange(1 << 30), numbering=("given", "omitted")[i % 2], label=label))
    return out


def dom_starved(tier, rng, defaults):
    out = []
    n = 60 if tier == "quick" else 400
    for i in range(n):
        mode = ("hq_lossy", "ld_lossy")[i % 2]
        w, h = rng.choice([(2, 2), (4, 2), (4, 4), (8, 4), (8, 8), (16, 8)])
        cdf = rng.choice([0, 1, 2])
        pcm = rng.choice([0, 0, 1])
        if not format_well_formed(dict(frame_width=w, frame_height=h, color_diff_format_index=cdf), pcm):
            cdf, pcm = 0, 0
        sx, sy = rng.choice([(1, 1), (2, 1), (1, 2), (3, 1), (3, 2), (w, 1), (5, 3)])
        wi = rng.randrange(7)
        d, dh = rng.choice([(0, 0), (1, 0), (2, 0), (0, 1), (1, 1)])
        depth = rng.choice([1, 8, 8, 10, 16])
        kind = i % 4
        if kind in (0, 1):
            pb = "min"
        elif kind == 2:
            pb = sx * sy * rng.choice([1, 2, 3, 4, 5, 7]) + rng.randrange(sx * sy)    # may be below the minimum: then it is skipped
        else:
            pb = sx * sy * rng.choice([260, 600, 2000]) + rng.randrange(sx * sy)      # lengths beyond one byte -> slice_size_scaler > 1
        exc = (1 << depth) - 1
        out.append(_case(mode=mode, w=w, h=h, cdf=cdf, pcm=pcm, sx=sx, sy=sy, frag=rng.choice([0, 0, 1, 2, sx * sy]), wi=wi, wih=wi, d=d, dh=dh, pb=pb,
                         vp=dict(luma_offset=0, luma_excursion=exc, color_diff_offset=(exc + 1) // 2, color_diff_excursion=exc),
                         npics=2 if pcm else rng.choice([1, 2]), content=[rng.choice(["edges", "checker", "noise", "max"]), rng.choice(["noise", "zero", "edges"])],
                         seed=rng.randrange(1 << 30), first=rng.choice([0, M32 - 2])))
    # deep samples, one slice, lossless: coefficient data of one slice exceeds 255 bytes -> slice_size_scaler > 1
    for i in range(4 if tier == "quick" else 16):
        depth = rng.choice([16, 20, 24])
        exc = (1 << depth) - 1
        out.append(_case(mode="hq_lossless", w=16, h=8, cdf=i % 3, sx=1, sy=1, frag=i % 2, wi=rng.randrange(7), d=1 + i % 2,
                         vp=dict(luma_offset=0, luma_excursion=exc, color_diff_offset=(exc + 1) // 2, color_diff_excursion=exc),
                         content=["noise", "edges"], npics=2, seed=rng.randrange(1 << 30)))
        out[-1]["wih"] = out[-1]["wi"]
    # one 64x32 slice of 24-bit noise: component lengths of 10..15 KiB, i.e. slice_size_scaler around 40..60, where rounding the scaler the wrong way shows
    for i in range(10 if tier == "quick" else 40):
        exc = (1 << 24) - 1 - rng.randrange(1 << 22)
        out.append(_case(mode="hq_lossless", w=64, h=32, cdf=0, sx=1, sy=1, frag=0, wi=(4, 3, 1)[i % 3], wih=(4, 3, 1)[i % 3], d=i % 2,
                         vp=dict(luma_offset=0, luma_excursion=exc, color_diff_offset=1 << 23, color_diff_excursion=(1 << 24) - 1 - rng.randrange(1 << 22)),
                         content=["noise"], npics=1, seed=rng.randrange(1 << 30)))
    return out


def dom_full_size(tier, rng, defaults):
    """The smallest base video formats at their real size with NO custom field at all (every custom_*_flag can stay False)."""
    import vc2_data_tables as T
    from vc2_conformance.pseudocode.video_parameters import set_source_defaults

    out = []
    combos = [(1, "hq_lossless", 0), (1, "ld_lossy", 1), (2, "hq_lossy", 0), (2, "hq_lossless", 1), (3, "hq_lossy", 1), (4, "ld_lossy", 0)]
    if tier != "quick":
        combos += [(3, "hq_lossless", 0), (4, "hq_lossless", 1), (5, "ld_lossy", 1), (6, "hq_lossy", 0), (7, "hq_lossless", 1), (8, "hq_lossy", 1), (22, "ld_lossy", 0)]
    for b, mode, pcm in combos:
        vp = set_source_defaults(T.BaseVideoFormats(b))
        w, h = vp["frame_width"], vp["frame_height"]
        out.append(_case(mode=mode, base=b, full_size=True, w=w, h=h, cdf=int(vp["color_diff_format_index"]), pcm=pcm, wi=4, wih=4, d=2, dh=0,
                         sx=w // 16, sy=h // (8 if pcm == 0 else 16), frag=(0, 7)[b % 2], pb=(w * h) // 2, npics=2 if pcm else 1,
                         content=["edges" if mode == "hq_lossless" else "noise"], seed=rng.randrange(1 << 30), numbering=("omitted", "given")[b % 2], first=M32 - 2))
    return out


def dom_sample(tier, rng, defaults):
    import vc2_data_tables as T
    from vc2_conformance.pseudocode.video_parameters import set_source_defaults

    out = []
    n = 350 if tier == "quick" else 5000
    maxd = 3 if tier == "quick" else 4
    sizes = [(2, 2), (4, 2), (2, 4), (4, 4), (6, 2), (6, 4), (8, 4), (8, 8), (12, 4), (12, 8), (16, 8), (3, 3), (5, 2), (7, 3), (9, 5), (1, 1), (1, 4), (16, 1)]
    if tier != "quick":
        sizes += [(24, 16), (20, 12), (13, 7), (32, 4)]
    bases = list(T.BaseVideoFormats)
    for i in range(n):
        b = rng.choice(bases)
        base_vp = set_source_defaults(b)
        w, h = rng.choice(sizes)
        cdf = rng.choice([0, 1, 2])
        pcm = rng.choice([0, 1])
        for _ in range(8):
            if format_well_formed(dict(frame_width=w, frame_height=h, color_diff_format_index=cdf), pcm):
                break
            w, h = rng.choice(sizes[:11])
        else:
            cdf, pcm = 0, 0
        over = {}
        devs = vp_deviations(T, base_vp, w, h)
        for _ in range(rng.choice([0, 1, 1, 2, 3, 5])):
            label, o = rng.choice(devs)
            if label == "clean_area" and (o["clean_width"] + o["left_offset"] > w or o["clean_height"] + o["top_offset"] > h or min(o["clean_width"], o["clean_height"]) < 1):
                continue
            over.update(o)
        if rng.random() < 0.5:   # arbitrary bit depths, luma and colour difference independently
            dl, dc = rng.choice([1, 2, 7, 8, 9, 10, 12, 16, 17, 24]), rng.choice([1, 2, 8, 10, 12, 16, 24])
            le = rng.choice([(1 << dl) - 1, (1 << dl) - 1, max(1, (1 << dl) - 1 - rng.randrange(1 << max(0, dl - 1)))])
            ce = rng.choice([(1 << dc) - 1, (1 << dc) - 1, max(1, (1 << dc) - 1 - rng.randrange(1 << max(0, dc - 1)))])
            over.update(luma_offset=rng.choice([0, 1 << max(0, dl - 4)]), luma_excursion=le, color_diff_offset=1 << (dc - 1), color_diff_excursion=ce)
        mode = rng.choice(MODES)
        while True:
            d, dh = rng.randrange(0, maxd + 1), rng.choice([0, 0, 1, 2])
            if d + dh <= maxd:
                break
        wi = rng.randrange(7)
        wih = rng.randrange(7) if dh and rng.random() < 0.7 else wi
        lw, lh = ref_dims(dict(frame_width=w, frame_height=h, color_diff_format_index=cdf), pcm)["Y"]
        sx = rng.choice([1, 1, 2, 3, lw, max(1, lw // 2), lw + 2, 5])
        sy = rng.choice([1, 1, 2, 3, lh, max(1, lh // 2), lh + 1])
        nsl = sx * sy
        needs = _needs_custom(defaults, wi, wih, d, dh)
        npics = rng.choice([0, 1, 1, 2, 3, 4])
        if pcm and npics % 2:
            npics += 1
        pat = rng.choice(["given", "given", "omitted", "first-given", "prefix-given", "all-but-first"])
        first = rng.choice([0, rng.randrange(M32), M32 - 1, M32 - 2, M32 - 3])
        if pcm:
            first -= first % 2
        c = _case(mode=mode, base=int(b), w=w, h=h, cdf=cdf, pcm=pcm, vp=over, wi=wi, wih=wih, d=d, dh=dh, sx=sx, sy=sy,
                  frag=rng.choice([0, 0, 1, 2, max(1, nsl - 1), nsl, nsl + 1, 1000]),
                  pb=rng.choice(["min", nsl * rng.choice([6, 9, 13, 40]) + rng.randrange(nsl), nsl * rng.choice([20, 90, 300]) + rng.randrange(nsl), 1 + rng.randrange(4000)]),
                  qm=rng.randrange(1 << 20) if needs or rng.random() < 0.3 else None, npics=npics, first=first, numbering=pat,
                  content=[rng.choice(["noise", "edges", "checker", "flat", "max", "zero"]) for _ in range(3)], seed=rng.randrange(1 << 30))
        if mode != "hq_lossless" and rng.random() < 0.2:
            c["minq"] = rng.choice([1, 4, 11, 30])
        if mode != "ld_lossy" and rng.random() < 0.2:
            c["mins"] = rng.choice([2, 3, 16])
        out.append(c)
    return out


DOMAINS = [
    ("D1 transform grid", dom_transform_grid, True,
     "exhaustive: {HQ lossless, HQ lossy, LD lossy} x {unfragmented, 2 slices per fragment} x wavelet pairs (7 symmetric; asymmetric shapes with all 7x7 pairs in the thorough tier, "
     "a fixed third of them per shape and fragmented/unfragmented alternating in the quick tier; custom matrix where the live default table has none) x depth shapes (dwt_depth, dwt_depth_ho) incl. (0,0), (0,1), (1,1), (0,2), (1,2); "
     "8x4 / 12x8 noise pictures"),
    ("D2 format grid", dom_format_grid, True,
     "exhaustive: 3 coding modes x 4:4:4/4:2:2/4:2:0 x frames/fields x frame sizes 2x2..16x8 (odd sizes where 11.6.2 allows) x slice grids {1x1, 3x2, one slice per luma sample, "
     "more slices than samples, (thorough) half} x fragment sizes {0, 1, slices-1, slices+1} (quick: half of the larger fragment sizes)"),
    ("D3 picture-number grid", dom_numbers, True,
     "exhaustive: frames/fields x fragment sizes {0,1,3} x {HQ lossless, LD lossy, HQ lossy} (quick: HQ lossless or LD lossy, alternating) x 0..4 pictures (thorough 0..6) x first number in {0, 1, two random, 2**31-1, 2**32-4..2**32-1} "
     "(even only for fields) x {all given, none given, first given, first half given, all but the first given}"),
    ("D4 base video formats x single-field deviations", dom_base_formats, True,
     "every base video format of the live table x {its defaults, each other source sampling / top-field-first / 7 frame rates / 6 pixel aspect ratios / 6 clean areas / 11 signal ranges / "
     "every preset colour primaries, matrix, transfer function} at frame size 4x4 (quick: each deviation on a third of the base formats)"),
    ("D5 starved and oversized lossy budgets", dom_starved, False,
     "seeded: lossy HQ/LD configurations with picture_bytes = the smallest value the encoder accepts (scan from 1 upwards), small multiples of the slice count (skipped when refused), "
     "and 260..2000 bytes per slice; worst-case contents; plus one-slice 16..24-bit lossless pictures of 16x8 (slice lengths beyond 255 bytes) and of 64x32 "
     "(lengths of 10..15 KiB: slice_size_scaler 40..60)"),
    ("D7 full-size base video formats without any custom field", dom_full_size, True,
     "qsif525 (176x120), qcif (176x144), sif525 (352x240), cif (352x288) exactly as tabulated in six coding-mode / frames-fields combinations; thorough: + 4sif525, 4sif, "
     "sd480i-60, sd576i-50, sd-pro486 (13 combinations)"),
    ("D6 seeded sample of the whole configuration space", dom_sample, False,
     "seeded: base format + 0..5 deviations, luma/colour-difference depths 1..24 independently, sizes 1x1..16x8 (thorough ..32x4/24x16), 7x7 wavelet pairs, dwt_depth+dwt_depth_ho <= 3 "
     "(thorough 4), slice grids incl. non-dividing and more slices than samples, fragment sizes incl. > slices, custom/default matrices, minimum_qindex / minimum_slice_size_scaler "
     "overrides, 0..4 pictures, all numbering patterns, first numbers near 2**32"),
]

CLAUSE_TEXT = {
    "S": "the encoder / serialiser fails on a configuration whose precondition holds",
    "V": "the validator does not accept the serialised encoder output",
    "P": "decoded pictures do not carry exactly the configured video parameters / picture coding mode",
    "N": "not one decoded picture per input picture",
    "K": "decoded picture numbers are not the given (or consecutive) ones",
    "O": "decoded pictures are not in input order / not of the configured size",
}


def check(rep, tier, seed):
    import multiprocessing as mp
    import time

    from pyvc import frontend

    frontend.ensure_repo_on_path()
    import vc2_data_tables as T
    import vc2_conformance.encoder  # noqa: F401  (imported before forking)
    import vc2_conformance.decoder  # noqa: F401
    import vc2_conformance.bitstream  # noqa: F401

    defaults = set((int(a), int(b), c, d) for (a, b, c, d) in T.QUANTISATION_MATRICES)
    all_cases = []
    for di, (name, fn, _exh, _text) in enumerate(DOMAINS):
        rng = random.Random(seed * 1000003 + 7919 * (di + 1))
        for c in fn(tier, rng, defaults):
            all_cases.append((di, c))
    # interleave heavy and light cases over the workers; order of results is restored by index
    order = list(range(len(all_cases)))
    random.Random(seed).shuffle(order)
    order.sort(key=lambda i: 0 if all_cases[i][1].get("full_size") else 1)   # the few heavy cases first (stable sort keeps the shuffle otherwise)
    CASE_TIME_LIMIT[0] = 120 if tier == "quick" else 900
    t0 = time.time()
    limit = 600 if tier == "quick" else 3000
    pool = mp.get_context("fork").Pool(8)
    outs = [None] * len(all_cases)
    abandoned = False
    try:
        res = pool.map_async(run_case, [all_cases[i][1] for i in order], chunksize=4).get(timeout=limit)
        for i, r in zip(order, res):
            outs[i] = r
    except mp.TimeoutError:
        abandoned = True
    finally:
        pool.terminate()
    if abandoned:
        rep.extra_assumptions.append("NOT bounded-checked on this tree: the encoder->validator runs did not finish within %d s (abandoned: undecided, not a verdict)" % limit)
        rep.add_bounded("C03 encoder pipeline", "abandoned after the time limit: no result", 0, False)
        return
    rep.extra_coverage["c03_wall_seconds"] = round(time.time() - t0, 1)

    per_clause = {}
    covered = {"wavelet": set(), "wavelet_ho_asym": set(), "cdf": set(), "pcm": set(), "base": set(), "mode": set(), "shape": set()}
    total_ok = total_skip = total_timeout = 0
    for di, (name, _fn, exhaustive, text) in enumerate(DOMAINS):
        idx = [i for i, (d, _c) in enumerate(all_cases) if d == di]
        ok = [i for i in idx if outs[i]["status"] == "ok"]
        skip = [i for i in idx if outs[i]["status"] == "skip"]
        tmo = [i for i in idx if outs[i]["status"] == "timeout"]
        bad = [i for i in idx if outs[i]["status"] == "fail"]
        total_ok += len(ok)
        total_skip += len(skip)
        total_timeout += len(tmo)
        for i in ok:
            c = all_cases[i][1]
            covered["wavelet"].add(c["wi"])
            if c["dh"] and c["wih"] != c["wi"]:
                covered["wavelet_ho_asym"].add((c["wi"], c["wih"]))
            covered["cdf"].add(c["cdf"])
            covered["pcm"].add(c["pcm"])
            covered["base"].add(c["base"])
            covered["mode"].add((c["mode"], c["frag"] != 0))
            covered["shape"].add((c["d"], c["dh"]))
        for i in bad:
            o = dict(outs[i])
            clause = o.pop("clause")
            o.pop("status")
            k = per_clause.get(clause, 0)
            per_clause[clause] = k + 1
            if k < MAX_VIOLATIONS_PER_CLAUSE:
                known_key = o.pop("known_key", None)
                rep.violation("c03-%s-%d" % (clause, k + 1), dict({"known_key": known_key} if known_key else {}, **{
                    "what": "%s: %s" % (CLAUSE_TEXT[clause], o.pop("what")),
                    "inputs": {"case": all_cases[i][1], "domain": name, "picture_bytes_used": o.pop("picture_bytes", None),
                               "reproduce": "bounded/c03_encoder_pipeline.py: run_case(case)"},
                    "expected": o.pop("expected", None), "observed": o.pop("observed", None), "details": o}))
        executed = len(ok) + len(bad)
        encodes = sum(outs[i].get("attempts", 1) for i in ok)
        pics = sum(outs[i].get("npics", 0) for i in ok)
        samples = [all_cases[i][1] for i in ok[:2]]
        rep.add_bounded("%s: clauses S V P N K O on every accepted configuration" % name, text, executed, exhaustive, distinct=len(ok) + len(bad), samples=samples,
                        note="%d configurations generated, %d accepted by the encoder and run through serialiser and validator (%d pictures decoded, %d make_sequence calls incl. the "
                             "picture_bytes scans), %d refused with a documented encoder exception (precondition not met: skipped), %d hit the per-configuration time limit (undecided), "
                             "%d failing" % (len(idx), len(ok), pics, encodes, len(skip), len(tmo), len(bad)))
        if len(ok) + len(bad) < (len(idx) * 2) // 3:
            raise RuntimeError("C03 %s: only %d of %d generated configurations were accepted by the encoder (refusals: %r) - the domain description would be misleading"
                               % (name, len(ok) + len(bad), len(idx), sorted(set(outs[i].get("why") for i in skip))))
    if total_timeout:
        rep.extra_assumptions.append("%d configurations hit the %d s per-configuration time limit and are undecided (not a verdict)" % (total_timeout, CASE_TIME_LIMIT[0]))
    rep.extra_coverage["c03_failing_configurations_per_clause"] = per_clause
    rep.extra_coverage["c03_accepted_refused_timeout"] = [total_ok, total_skip, total_timeout]

    # ---- ground facts over the live tables: the generated domains cover every member (a table that grows is noticed); that the encoder accepts
    #      (at least two thirds of) them is enforced per domain above
    gen = {"wavelet": set(), "pairs": set(), "cdf": set(), "pcm": set(), "base": set(), "mode": set()}
    for _di, c in all_cases:
        gen["wavelet"].add(c["wi"])
        if c["dh"] and c["wih"] != c["wi"]:
            gen["pairs"].add((c["wi"], c["wih"]))
        gen["cdf"].add(c["cdf"])
        gen["pcm"].add(c["pcm"])
        gen["base"].add(c["base"])
        gen["mode"].add((c["mode"], c["frag"] != 0))
    wl = set(int(x) for x in T.WaveletFilters)
    rep.add_eval_fact("every wavelet filter of the live table is the wavelet_index of a generated configuration, and every ordered pair of distinct filters is the "
                      "(wavelet_index, wavelet_index_ho) of a generated asymmetric configuration", gen["wavelet"] == wl and gen["pairs"] == set((a, b) for a in wl for b in wl if a != b),
                      "filters %r, %d pairs" % (sorted(gen["wavelet"]), len(gen["pairs"])))
    rep.add_eval_fact("every colour-difference sampling format, both picture coding modes and every base video format of the live tables occur in a generated configuration",
                      gen["cdf"] == set(int(x) for x in T.ColorDifferenceSamplingFormats) and gen["pcm"] == set(int(x) for x in T.PictureCodingModes)
                      and gen["base"] == set(int(x) for x in T.BaseVideoFormats), "cdf %r pcm %r base %r" % (sorted(gen["cdf"]), sorted(gen["pcm"]), sorted(gen["base"])))
    rep.add_eval_fact("each of {HQ lossless, HQ lossy, LD lossy} is generated fragmented and unfragmented",
                      gen["mode"] == set((m, f) for m in MODES for f in (False, True)), repr(sorted(gen["mode"])))
    rep.extra_coverage["c03_accepted_coverage"] = {"wavelet_index": sorted(covered["wavelet"]), "asymmetric_wavelet_pairs": len(covered["wavelet_ho_asym"]),
                                                   "base_video_formats": sorted(covered["base"]), "modes": sorted(map(list, covered["mode"]))}
    rep.extra_coverage["c03_depth_shapes_covered"] = sorted(covered["shape"])
    _probe_qindex_field(rep)


def _probe_qindex_field(rep):
    """One fixed configuration (the smallest found) of the recorded finding D9, so that the finding is exercised on every run whatever the
    seed: an accepted LD configuration whose slice needs qindex > 127 and whose serialisation raises OutOfRangeError.  Reported through
    rep.violation with the finding's key: listed in known_findings.json it prints KNOWN-FINDING; once the encoder is repaired nothing is reported."""
    import io

    from vc2_data_tables import BaseVideoFormats, Profiles
    from vc2_conformance.bitstream import Stream, autofill_and_serialise_stream
    from vc2_conformance.codec_features import CodecFeatures
    from vc2_conformance.encoder import make_sequence
    from vc2_conformance.encoder.exceptions import UnsatisfiableCodecFeaturesError
    from vc2_conformance.pseudocode.video_parameters import set_source_defaults

    vp = set_source_defaults(BaseVideoFormats.custom_format)
    vp.update(frame_width=2, frame_height=2, clean_width=2, clean_height=2, color_diff_format_index=0, luma_excursion=(1 << 24) - 1)
    cf = CodecFeatures(name="x", level=0, profile=Profiles.low_delay, picture_coding_mode=0, video_parameters=vp, wavelet_index=4, wavelet_index_ho=4, dwt_depth=0,
                       dwt_depth_ho=0, slices_x=1, slices_y=1, fragment_slice_count=0, lossless=False, picture_bytes=1, quantization_matrix={0: {"LL": 60}})
    pic = {"Y": [[(1 << 24) - 1, 0], [0, 0]], "C1": [[128, 128], [128, 128]], "C2": [[128, 128], [128, 128]], "pic_num": 0}
    try:
        seq = make_sequence(cf, [pic])
    except UnsatisfiableCodecFeaturesError:
        return  # refused with a documented error: outside the precondition
    qmax = max(sl["qindex"] for du in seq["data_units"] if "picture_parse" in du for sl in du["picture_parse"]["wavelet_transform"]["transform_data"]["ld_slices"])
    try:
        autofill_and_serialise_stream(io.BytesIO(), Stream(sequences=[seq]))
    except Exception as e:
        payload = {"what": "%s: the serialiser raised %s for a sequence the encoder produced" % (CLAUSE_TEXT["S"], type(e).__name__),
                   "inputs": {"codec_features": "2x2 4:4:4 frame, luma_excursion 2**24-1, low-delay lossy, picture_bytes 1, 1x1 slices, dwt_depth 0, quantization_matrix {0: {LL: 60}}",
                              "picture": pic, "reproduce": "bounded/c03_encoder_pipeline.py: _probe_qindex_field"},
                   "expected": "a serialised stream (or a documented UnsatisfiableCodecFeaturesError from make_sequence)", "observed": "%s: %s; largest qindex in the sequence %d" % (type(e).__name__, e, qmax)}
        if qmax > 127:
            payload["known_key"] = "C03:encoder-qindex-exceeds-slice-header-field"
        rep.violation("c03-S-fixed-probe", payload)


REGISTER = {
    "C03": dict(
        extra=[check],
        level="other",
        assumptions=[
            "BOUNDED (not proved): the encoder->serialiser->validator pipeline is executed on the stated finite domains only: frame sizes up to 16x8 (thorough 24x16; a few one-slice "
            "64x32 and the smallest base video formats at their real size), "
            "dwt_depth + dwt_depth_ho <= 3 (thorough 4), sample depths up to 24 bits, at most 4 (thorough 6) pictures, level 'unconstrained' only, one sequence per stream",
            "PRECONDITION read into the statement: the video format is well-formed (11.6.2 dimensions divide the frame size), picture numbers that are given are consecutive mod 2**32 "
            "and start even for fields, and a field-coded sequence holds an even number of pictures (the encoder accepts other inputs; the standard, hence the validator, does not)",
            "a configuration the encoder refuses with a documented UnsatisfiableCodecFeaturesError does not meet the precondition and is skipped (counted; at least two thirds of every "
            "domain must be accepted or the check fails as a checker error)",
            "TRUSTED: 'the validator' is vc2_conformance.decoder.parse_stream run in-process; 'decoded pictures' are the arguments of its _output_picture_callback",
            "'in order' is judged by content only in lossless configurations (nearest input picture); in lossy configurations order is judged by the picture numbers only",
        ],
        manifest=dict(
            category="other",
            technique="bounded stand-in: contract (precondition / postcondition from the property statement) on make_sequence + autofill_and_serialise_stream checked natively by running "
                      "the real encoder, serialiser and validator on exhaustive small grids (transform shapes x wavelet pairs, formats x slice grids x fragment sizes, picture-number "
                      "patterns, base video formats x single-field deviations) and a seeded sample of the whole configuration space",
            text="For every configuration of the stated finite domains that the encoder accepts: serialising with automatic field filling succeeds, the validator accepts the stream, "
                 "every decoded picture carries exactly the configured video parameters and picture coding mode, there is one decoded picture per input picture with the given (or "
                 "consecutive, wrapping at 2**32) picture numbers, of the configured dimensions, and (lossless) nearest to its own input picture.",
            note="Bounded / sampled: never counted as proved.  Levels other than 'unconstrained', large pictures and multi-sequence streams are not exercised.",
        ),
    )
}
