"""C12, last clause ("as the lossless quantisation test case relies on"): the test case's helper
compute_qindex_with_distinct_quant_factors must pick a qindex such that every subband's effective
index (qindex - matrix entry) is >= MINIMUM_DISTINCT_QINDEX, i.e. inside the range where lemma
Q3 proves inverse_quant(1, .) strictly increasing.  The function iterates nested dictionaries with
generator expressions (outside the verified subset): decided by evaluation over the finite live
table of default matrices (exhaustive, back end 'eval') plus seeded random matrices (bounded)."""
import random


def check(rep, tier, seed):
    from pyvc import frontend

    frontend.ensure_repo_on_path()
    from vc2_data_tables import QUANTISATION_MATRICES
    import importlib

    lq = importlib.import_module("vc2_conformance.test_cases.decoder.lossless_quantization")

    M = lq.MINIMUM_DISTINCT_QINDEX
    bad = None
    n = 0
    for key, matrix in sorted(QUANTISATION_MATRICES.items(), key=repr):
        q = lq.compute_qindex_with_distinct_quant_factors(matrix)
        n += 1
        eff = [q - v for sub in matrix.values() for v in sub.values()]
        if min(eff) < M and bad is None:
            bad = (key, matrix, q)
    rep.add_eval_fact("every default quantisation matrix: chosen qindex - entry >= MINIMUM_DISTINCT_QINDEX (%d matrices)" % n,
                      bad is None, "" if bad is None else repr(bad))
    rng = random.Random(seed)
    evals = 0
    N = 2000 if tier == "quick" else 20000
    distinct = set()
    for _ in range(N):
        levels = rng.randint(1, 5)
        matrix = {}
        for lv in range(levels):
            names = ["L"] if lv == 0 and rng.random() < 0.5 else rng.choice([["LL"], ["H"], ["HL", "LH", "HH"]])
            matrix[lv] = {o: rng.randint(0, 40) for o in names}
        q = lq.compute_qindex_with_distinct_quant_factors(matrix)
        evals += 1
        distinct.add(repr(matrix))
        eff = [q - v for sub in matrix.values() for v in sub.values()]
        if min(eff) < M:
            rep.violation("qindex-choice", {"what": "compute_qindex_with_distinct_quant_factors returns a qindex whose effective index for some subband is below MINIMUM_DISTINCT_QINDEX",
                                             "inputs": {"quant_matrix": matrix}, "observed": q, "expected": ">= %d" % (max(v for s in matrix.values() for v in s.values()) + M)})
            break
    rep.add_bounded("compute_qindex_with_distinct_quant_factors on random matrices", "%d seeded random matrices, 1-5 levels, entries 0..40" % N,
                    evals, False, distinct=len(distinct), samples=[{"quant_matrix": {0: {"L": 3}, 1: {"H": 0}}}])


REGISTER = {"C12": dict(extra=[check], assumptions=[
    "clause 'as the lossless quantisation test case relies on': compute_qindex_with_distinct_quant_factors is checked by evaluation on all default matrices and "
    "on seeded random matrices (bounded stand-in, not proved)"])}
