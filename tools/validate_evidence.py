#!/usr/bin/env python3
"""validate_evidence.py: every evidence file named in MANIFEST.json must exist, validate against the evidence
schema, carry the level category the MANIFEST claims, and - for a proof-level claim - have discharged ==
obligations, no violations and no unproved entries.  Exit 0 if all are consistent, 1 otherwise.
Run before committing evidence (tools/run_all.sh does)."""
import json, os, sys

HERE = os.path.dirname(os.path.dirname(os.path.abspath(__file__)))
SCHEMA = "/root/.vp/EVIDENCE.schema.json"
m = json.load(open(os.path.join(HERE, "MANIFEST.json")))
try:
    import jsonschema
    schema = json.load(open(SCHEMA))
except Exception as e:  # pragma: no cover
    jsonschema = None
    print("schema validation skipped:", e)
bad = 0
for c in m["checks"]:
    pid = c["property_id"]
    path = os.path.join(HERE, c["evidence_file"])
    probs = []
    if not os.path.exists(path):
        probs.append("missing")
    else:
        e = json.load(open(path))
        if jsonschema:
            try:
                jsonschema.validate(e, schema)
            except jsonschema.ValidationError as ex:
                probs.append("schema: " + ex.message[:200])
        cov = e.get("coverage", {})
        if e.get("property_id") != pid:
            probs.append("property_id %r" % e.get("property_id"))
        if e.get("level") != c["level_claimed"]["category"]:
            probs.append("level %r but MANIFEST claims %r" % (e.get("level"), c["level_claimed"]["category"]))
        if e.get("violations"):
            probs.append("violations=%r" % e.get("violations"))
        if e.get("level") == "proof":
            if cov.get("obligations") != cov.get("discharged"):
                probs.append("discharged %r != obligations %r" % (cov.get("discharged"), cov.get("obligations")))
            if cov.get("unproved"):
                probs.append("%d unproved entries" % len(cov["unproved"]))
        if not cov.get("samples"):
            probs.append("no samples")
    print("%s %s" % (pid, "ok" if not probs else "BAD: " + "; ".join(probs)))
    bad += bool(probs)
extra = sorted(set(f[:-5] for f in os.listdir(os.path.join(HERE, "evidence")) if f.endswith(".json")) - set(c["property_id"] for c in m["checks"]))
if extra:
    print("evidence files without a MANIFEST check:", extra)
    bad += 1
sys.exit(1 if bad else 0)
