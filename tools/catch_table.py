#!/usr/bin/env python3
"""Writes seeded/RESULTS.md: which check catches which seeded change (from the 'sweep' records tools/sweep_seeds.py leaves in meta.json)."""
import json, os
V = os.path.dirname(os.path.dirname(os.path.abspath(__file__)))
rows = []
for sid in sorted(os.listdir(os.path.join(V, "seeded"))):
    mp = os.path.join(V, "seeded", sid, "meta.json")
    if not os.path.isfile(mp):
        continue
    m = json.load(open(mp))
    sw = m.get("sweep")
    first = (m.get("needs_to_manifest") or [""])[0].lstrip("# ").strip()
    if isinstance(sw, dict):
        cells = []
        for pid, r in sw.items():
            how = ""
            for l in r.get("lines", []):
                if l.startswith("VIOLATION"):
                    how = l.split("replay=")[-1].split("/")[-1][:70]
                    break
            cells.append("%s: %s%s" % (pid, "CAUGHT" if (r["exit"] == 1 and r.get("n_violation_lines")) else "missed (exit %d)" % r["exit"], " (" + how + ")" if how else ""))
        res = "; ".join(cells)
    else:
        res = str(sw or "not run")
    rows.append("| %s | %s | %s | %s |" % (sid, m["property"], first[:110].replace("|", "/"), res.replace("|", "/")))
out = ["# Seeded changes and the checks that catch them", "",
       "Each row: a change to bbc/vc2_conformance that breaks the property, compiles and passes the project's whole test suite (confirmed by tools/confirm_seed.py),",
       "and the outcome of `./verif check <property> --tier quick` against a scratch worktree with the change applied (tools/sweep_seeds.py).", "",
       "| seed | property | change | outcome |", "|---|---|---|---|"] + rows
open(os.path.join(V, "seeded", "RESULTS.md"), "w").write("\n".join(out) + "\n")
print("\n".join(out[-len(rows):]))
