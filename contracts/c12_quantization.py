"""C12 - quantisation reconstructs within one step and distinguishes indices.

The four functions of pseudocode/quantization.py (and vc2_math.sign) are
*transparent*: the lemmas below execute their real bodies, re-read from /repo
on every run.  All lemmas quantify over every integer coefficient and every
index >= 0 (no upper bound; the bitstream can only express 0..255+matrix).
"""
from pyvc.api import *
from vc2_conformance.pseudocode.quantization import (
    forward_quant,
    inverse_quant,
    quant_factor,
    quant_offset,
)
from vc2_conformance.pseudocode.vc2_math import sign
from vc2_conformance.test_cases.decoder.lossless_quantization import MINIMUM_DISTINCT_QINDEX

transparent(
    "vc2_conformance.pseudocode.quantization.forward_quant",
    "vc2_conformance.pseudocode.quantization.inverse_quant",
    "vc2_conformance.pseudocode.quantization.quant_factor",
    "vc2_conformance.pseudocode.quantization.quant_offset",
    "vc2_conformance.pseudocode.vc2_math.sign",
)

PROPERTY = "C12"


@lemma
def Q1_factor_increases(i: int):
    """Quantisation factors are >= 4 and strictly increase with the index."""
    requires(i >= 0)
    f0 = quant_factor(i)
    f1 = quant_factor(i + 1)
    use("pow2_step", i // 4)
    assert f0 >= 4, "Q1.min"
    assert f1 > f0, "Q1.increasing"


@lemma
def Q2_reconstruction(c: int, i: int):
    """Dequantising the quantised value keeps the sign (or gives 0) and errs by < quant_factor/4."""
    requires(i >= 0)
    q = forward_quant(c, i)
    r = inverse_quant(q, i)
    f = quant_factor(i)
    assert r == 0 or sign(r) == sign(c), "Q2.sign"
    assert 4 * abs(r - c) < f, "Q2.within-one-step"


@lemma
def Q2_index0_lossless(c: int):
    assert inverse_quant(forward_quant(c, 0), 0) == c, "Q2.index0-lossless"


@lemma
def Q3_dequantised_one_increases(i: int):
    """inverse_quant(1, i) strictly increases from MINIMUM_DISTINCT_QINDEX upward."""
    requires(i >= MINIMUM_DISTINCT_QINDEX)
    use("pow2_step", i // 4)
    use("pow2_mono", 1, i // 4)
    assert inverse_quant(1, i + 1) > inverse_quant(1, i), "Q3.distinct"
