"""C09 (and every property that goes through a sequence header): ground facts over the finite table of base video formats.

'exactly the width and height implied by the sequence header': for a stream without custom dimensions the header implies the base
video format's values (11.4.2).  set_source_defaults is a straight-line transcription of that table; it is compared here, for EVERY
base video format and EVERY one of the 20 video parameters, with the value written in vc2_data_tables (Table 11.x of the standard) -
by evaluation over the whole finite domain, which is complete (back end 'eval'), not a sample."""


def check(rep, tier, seed):
    from pyvc import frontend

    frontend.ensure_repo_on_path()
    import vc2_data_tables as t
    from vc2_conformance.pseudocode.video_parameters import set_source_defaults

    bad = []
    n = 0
    for bvf in t.BaseVideoFormats:
        base = t.BASE_VIDEO_FORMAT_PARAMETERS[bvf]
        fr = t.PRESET_FRAME_RATES[base.frame_rate_index]
        par = t.PRESET_PIXEL_ASPECT_RATIOS[base.pixel_aspect_ratio_index]
        sr = t.PRESET_SIGNAL_RANGES[base.signal_range_index]
        cs = t.PRESET_COLOR_SPECS[base.color_spec_index]
        expected = {
            # each parameter takes the base format's value of the SAME name ...
            "frame_width": base.frame_width, "frame_height": base.frame_height, "color_diff_format_index": base.color_diff_format_index,
            "source_sampling": base.source_sampling, "top_field_first": base.top_field_first,
            "clean_width": base.clean_width, "clean_height": base.clean_height, "left_offset": base.left_offset, "top_offset": base.top_offset,
            # ... and the preset indices are expanded through the preset tables
            "frame_rate_numer": fr.numerator, "frame_rate_denom": fr.denominator,
            "pixel_aspect_ratio_numer": par.numerator, "pixel_aspect_ratio_denom": par.denominator,
            "luma_offset": sr.luma_offset, "luma_excursion": sr.luma_excursion,
            "color_diff_offset": sr.color_diff_offset, "color_diff_excursion": sr.color_diff_excursion,
            "color_primaries_index": cs.color_primaries_index, "color_matrix_index": cs.color_matrix_index,
            "transfer_function_index": cs.transfer_function_index,
        }
        for arg in (bvf, int(bvf)):
            got = dict(set_source_defaults(arg))
            n += 1
            if set(got) != set(expected):
                bad.append((int(bvf), "keys", sorted(set(got) ^ set(expected))))
                continue
            for k, v in expected.items():
                if got[k] != v or type(got[k]) is not type(v):
                    bad.append((int(bvf), k, repr(got[k]), repr(v)))
    rep.add_eval_fact("set_source_defaults(b) equals the base video format table for every base format b and every one of the 20 video parameters "
                      "(%d formats x 2 argument forms, exhaustive)" % len(list(t.BaseVideoFormats)), not bad, repr(bad[:6]))


def check_presets(rep, tier, seed):
    """The preset_* helpers (11.4.6 - 11.4.10): for every index of every preset table, exactly the documented parameters are set to the table's
    values and every other parameter is left alone (exhaustive over the finite tables, from three different starting dictionaries)."""
    from pyvc import frontend

    frontend.ensure_repo_on_path()
    import vc2_data_tables as t
    from vc2_conformance.pseudocode import video_parameters as vp

    specs = [
        ("preset_frame_rate", t.PRESET_FRAME_RATES, lambda p: {"frame_rate_numer": p.numerator, "frame_rate_denom": p.denominator}),
        ("preset_pixel_aspect_ratio", t.PRESET_PIXEL_ASPECT_RATIOS, lambda p: {"pixel_aspect_ratio_numer": p.numerator, "pixel_aspect_ratio_denom": p.denominator}),
        ("preset_signal_range", t.PRESET_SIGNAL_RANGES, lambda p: {"luma_offset": p.luma_offset, "luma_excursion": p.luma_excursion,
                                                                  "color_diff_offset": p.color_diff_offset, "color_diff_excursion": p.color_diff_excursion}),
        ("preset_color_spec", t.PRESET_COLOR_SPECS, lambda p: {"color_primaries_index": p.color_primaries_index, "color_matrix_index": p.color_matrix_index,
                                                              "transfer_function_index": p.transfer_function_index}),
        ("preset_color_primaries", {i: i for i in t.PresetColorPrimaries}, lambda p: {"color_primaries_index": p}),
        ("preset_color_matrix", {i: i for i in t.PresetColorMatrices}, lambda p: {"color_matrix_index": p}),
        ("preset_transfer_function", {i: i for i in t.PresetTransferFunctions}, lambda p: {"transfer_function_index": p}),
    ]
    bad = []
    n = 0
    for name, table, expand in specs:
        fn = getattr(vp, name)
        for idx, preset in table.items():
            want = expand(preset)
            for start in (0, 7, 22):
                for arg in (idx, int(idx)):
                    d = vp.set_source_defaults(start)
                    before = dict(d)
                    fn(d, arg)
                    n += 1
                    for k in before:
                        exp = want.get(k, before[k])
                        if d.get(k) != exp:
                            bad.append((name, int(idx), start, k, repr(d.get(k)), repr(exp)))
                    if set(d) != set(before):
                        bad.append((name, int(idx), start, "keys", sorted(set(d) ^ set(before))))
    rep.add_eval_fact("every preset_* helper sets exactly its documented video parameters to the preset table's values for every index and leaves the others "
                      "unchanged (%d calls, exhaustive over the tables)" % n, not bad, repr(bad[:6]))


REGISTER = {"C09": dict(extra=[check, check_presets], assumptions=[
    "ground fact (back end 'eval', exhaustive over the finite table): set_source_defaults agrees with vc2_data_tables for every base video format and parameter - "
    "the contract of set_source_defaults used by the proofs only states that all 20 parameters are present",
])}
