"""C09 - every decoded picture is well-formed.

* clip_component / offset_component (picture_decoding.py): 2-D loops over an abstract grid, verified with quantified
  invariants; composite lemma: after clipping and offsetting every sample is in [0, 2^depth - 1].
* idwt_pad_removal leaves exactly luma/color_diff height x width (given the transform output is at least that large,
  which C13.S2 'padded size >= picture size' supplies).
* picture_decode: the picture number handed out is the coded one; the output happens exactly once per call.
* how often picture_decode is called per data unit is an invariant of parse_sequence (contracts/c02_sequence.py):
  pictures output in this sequence == pictures started - [a fragmented picture is still in progress].
"""
from pyvc.api import *
from contracts.c02_common import *
from contracts.c02_sequence_header import coding_params_known, hdr_known  # noqa: F401
from contracts.c02_transform_data import slice_ctx, wshape, sbh, sbw  # noqa: F401
from contracts.c02_picture import wavelet_known  # noqa: F401
from contracts.c13_slice_sizes import padded_dims_cover_picture  # noqa: F401

PD = "vc2_conformance.pseudocode.picture_decoding."
ARR = "vc2_conformance.pseudocode.arrays."
transparent("vc2_conformance.pseudocode.vc2_math.clip", ARR + "width", ARR + "height")
COMP_DOMAIN = ["Y", "C1", "C2"]


@inline
def depth_of(state, c):
    return state["luma_depth"] if c == "Y" else state["color_diff_depth"]


@inline
def all_in(g, lo, hi):
    """Every sample of the 2-D array lies in [lo, hi]."""
    return forall(0, gheight(g), lambda y: forall(0, gwidth(g), lambda x: lo <= gval(g, y, x) and gval(g, y, x) <= hi))


@spec(PD + "clip_component")
class _clipc:
    args = {"state": STATE, "comp_data": "grid", "c": "str"}
    str_domains = {"c": COMP_DOMAIN}
    split_on = ["c"]
    requires = ['has(state, "luma_depth") and has(state, "color_diff_depth") and state["luma_depth"] >= 1 and state["color_diff_depth"] >= 1']
    modifies = ["gcontent(comp_data)"]
    raises = {}
    ensures = ["rows_in(comp_data, gheight(comp_data), -pow2(depth_of(state, c) - 1), pow2(depth_of(state, c) - 1) - 1)"]
    invariants = {
        1: ["rows_in(comp_data, y, -pow2(depth_of(state, c) - 1), pow2(depth_of(state, c) - 1) - 1)"],
        2: ["rows_in(comp_data, y, -pow2(depth_of(state, c) - 1), pow2(depth_of(state, c) - 1) - 1)",
            "cols_in(comp_data, y, x, -pow2(depth_of(state, c) - 1), pow2(depth_of(state, c) - 1) - 1)"],
    }


@inline
def rows_in(g, n, lo, hi):
    """Rows 0..n-1 of the array are entirely inside [lo, hi]."""
    return forall(lambda y, x: implies(0 <= y and y < n and 0 <= x and x < gwidth(g), lo <= gval(g, y, x) and gval(g, y, x) <= hi),
                  trigger=lambda y, x: gval(g, y, x))


@inline
def cols_in(g, y0, n, lo, hi):
    """Columns 0..n-1 of row y0 are inside [lo, hi]."""
    return forall(lambda x: implies(0 <= x and x < n, lo <= gval(g, y0, x) and gval(g, y0, x) <= hi), trigger=lambda x: gval(g, y0, x))


@spec(PD + "offset_component")
class _offc:
    args = {"state": STATE, "comp_data": "grid", "c": "str"}
    str_domains = {"c": COMP_DOMAIN}
    split_on = ["c"]
    requires = ['has(state, "luma_depth") and has(state, "color_diff_depth") and state["luma_depth"] >= 1 and state["color_diff_depth"] >= 1']
    modifies = ["gcontent(comp_data)"]
    raises = {}
    ensures = ["forall(lambda y, x: implies(0 <= y and y < gheight(comp_data) and 0 <= x and x < gwidth(comp_data), "
               "gval(comp_data, y, x) == old(gval(comp_data, y, x)) + pow2(depth_of(state, c) - 1)), trigger=lambda y, x: gval(comp_data, y, x))"]
    invariants = {
        1: ["forall(lambda yy, x: implies(0 <= yy and yy < gheight(comp_data) and 0 <= x and x < gwidth(comp_data), "
            "gval(comp_data, yy, x) == old(gval(comp_data, yy, x)) + (pow2(depth_of(state, c) - 1) if yy < y else 0)), trigger=lambda yy, x: gval(comp_data, yy, x))"],
        2: ["forall(lambda yy, xx: implies(0 <= yy and yy < gheight(comp_data) and 0 <= xx and xx < gwidth(comp_data), "
            "gval(comp_data, yy, xx) == old(gval(comp_data, yy, xx)) + (pow2(depth_of(state, c) - 1) if (yy < y or (yy == y and xx < x)) else 0)), "
            "trigger=lambda yy, xx: gval(comp_data, yy, xx))"],
    }


@lemma
def sample_range_after_clip_and_offset(v: int, depth: int):
    """A sample clipped to [-2^(d-1), 2^(d-1)-1] and offset by 2^(d-1) lies in [0, 2^d - 1]."""
    requires(depth >= 1 and -pow2(depth - 1) <= v and v <= pow2(depth - 1) - 1)
    use("pow2_step", depth - 1)
    assert 0 <= v + pow2(depth - 1) and v + pow2(depth - 1) <= pow2(depth) - 1, "C09.sample-in-range"


PIC = "dict:Picture"
dict_universe("Picture", ["pic_num", "Y", "C1", "C2"])


@inline
def pic_full(p):
    return has(p, "Y") and has(p, "C1") and has(p, "C2") and p["Y"] != p["C1"] and p["Y"] != p["C2"] and p["C1"] != p["C2"]


@inline
def depths_known(state):
    return has(state, "luma_depth") and has(state, "color_diff_depth") and state["luma_depth"] >= 1 and state["color_diff_depth"] >= 1


@inline
def comp_in(p, c, lo, hi):
    return rows_in(p[c], gheight(p[c]), lo, hi)


@spec(PD + "clip_picture")
class _clipp:
    args = {"state": STATE, "current_picture": PIC}
    requires = ["depths_known(state)", "pic_full(current_picture)"]
    modifies = ['gcontent(current_picture["Y"])', 'gcontent(current_picture["C1"])', 'gcontent(current_picture["C2"])']
    raises = {}
    ensures = ["pic_full(current_picture)",
               'comp_in(current_picture, "Y", -pow2(state["luma_depth"] - 1), pow2(state["luma_depth"] - 1) - 1)',
               'comp_in(current_picture, "C1", -pow2(state["color_diff_depth"] - 1), pow2(state["color_diff_depth"] - 1) - 1)',
               'comp_in(current_picture, "C2", -pow2(state["color_diff_depth"] - 1), pow2(state["color_diff_depth"] - 1) - 1)']


@spec(PD + "offset_picture")
class _offp:
    args = {"state": STATE, "current_picture": PIC}
    requires = ["depths_known(state)", "pic_full(current_picture)",
                'comp_in(current_picture, "Y", -pow2(state["luma_depth"] - 1), pow2(state["luma_depth"] - 1) - 1)',
                'comp_in(current_picture, "C1", -pow2(state["color_diff_depth"] - 1), pow2(state["color_diff_depth"] - 1) - 1)',
                'comp_in(current_picture, "C2", -pow2(state["color_diff_depth"] - 1), pow2(state["color_diff_depth"] - 1) - 1)']
    modifies = ['gcontent(current_picture["Y"])', 'gcontent(current_picture["C1"])', 'gcontent(current_picture["C2"])']
    raises = {}
    # C09: every sample is an integer in [0, 2^depth - 1] for that component's depth
    ensures = ["pic_full(current_picture)",
               'comp_in(current_picture, "Y", 0, pow2(state["luma_depth"]) - 1)',
               'comp_in(current_picture, "C1", 0, pow2(state["color_diff_depth"]) - 1)',
               'comp_in(current_picture, "C2", 0, pow2(state["color_diff_depth"]) - 1)']
    ghost = {"entry": ['use("pow2_step", state["luma_depth"] - 1)', 'use("pow2_step", state["color_diff_depth"] - 1)']}


@spec(ARR + "delete_rows_after")
class _dra:
    args = {"a": "grid", "k": "int"}
    requires = ["k >= 0"]
    modifies = ["gshape(a)"]
    raises = {}
    ensures = ["gheight(a) == (k if k < old(gheight(a)) else old(gheight(a)))", "gwidth(a) == old(gwidth(a))"]
    trusted = "`del a[k:]` on a list of rows (slice deletion is outside the verified subset): Python list semantics"


@spec(ARR + "delete_columns_after")
class _dca:
    args = {"a": "grid", "k": "int"}
    requires = ["k >= 0"]
    modifies = ["gshape(a)"]
    raises = {}
    ensures = ["gwidth(a) == (k if k < old(gwidth(a)) else old(gwidth(a)))", "gheight(a) == old(gheight(a))"]
    trusted = "`del row[k:]` for every row (slice deletion is outside the verified subset): Python list semantics"


@spec(PD + "idwt_pad_removal")
class _ipr:
    args = {"state": STATE, "pic": "grid", "c": "str"}
    str_domains = {"c": COMP_DOMAIN}
    split_on = ["c"]
    requires = ["coding_params_known(state)",
                # the synthesised array is at least as large as the picture (the transform works on the padded size: C13.S2 pw >= w)
                'gheight(pic) >= (state["luma_height"] if c == "Y" else state["color_diff_height"])',
                'gwidth(pic) >= (state["luma_width"] if c == "Y" else state["color_diff_width"])']
    modifies = ["gshape(pic)"]
    raises = {}
    # C09: each component has exactly the width and height implied by the sequence header and the picture coding mode
    ensures = ['gheight(pic) == (state["luma_height"] if c == "Y" else state["color_diff_height"])',
               'gwidth(pic) == (state["luma_width"] if c == "Y" else state["color_diff_width"])']


@spec(PD + "idwt")
class _idwt:
    args = {"state": STATE, "coeff_data": "lomap:grid"}
    result = "grid"
    requires = ["wavelet_known(state)", "coding_params_known(state)", "wshape(state, coeff_data, 1) or wshape(state, coeff_data, 0)"]
    modifies = []
    raises = {}
    ensures = ["is_fresh(result)",
               "implies(wshape(state, coeff_data, 1), gheight(result) == sbh(state, top_level(state), 1) and gwidth(result) == sbw(state, top_level(state), 1))",
               "implies(wshape(state, coeff_data, 0), gheight(result) == sbh(state, top_level(state), 0) and gwidth(result) == sbw(state, top_level(state), 0))"]
    trusted = ("inverse wavelet transform over nested-array views and level loops (outside the verified subset): assumed not to raise and to return a freshly built array "
               "of the padded picture size; its value correctness is C11 (1-D core proved, 2-D assembly bounded); the returned shape is checked by C11's bounded round trips")


@inline
def top_level(state):
    return state["dwt_depth"] + state["dwt_depth_ho"] + 1


@spec(PD + "inverse_wavelet_transform")
class _iwt:
    args = {"state": STATE}
    requires = ["slice_ctx(state)", 'has(state, "current_picture")', 'not has(state["current_picture"], "Y")',
                'state["current_picture"] != state']
    modifies = ['state["current_picture"]["Y"]', 'state["current_picture"]["C1"]', 'state["current_picture"]["C2"]', "all_grids()"]
    raises = {}
    ensures = ['pic_full(state["current_picture"])',
               'is_fresh(state["current_picture"]["Y"]) and is_fresh(state["current_picture"]["C1"]) and is_fresh(state["current_picture"]["C2"])',
               # C09: exactly the width and height implied by the sequence header and picture coding mode
               'gheight(state["current_picture"]["Y"]) == state["luma_height"] and gwidth(state["current_picture"]["Y"]) == state["luma_width"]',
               'gheight(state["current_picture"]["C1"]) == state["color_diff_height"] and gwidth(state["current_picture"]["C1"]) == state["color_diff_width"]',
               'gheight(state["current_picture"]["C2"]) == state["color_diff_height"] and gwidth(state["current_picture"]["C2"]) == state["color_diff_width"]']
    ghost = {"entry": [
        'padded_dims_cover_picture(state["luma_width"], state["luma_height"], state["color_diff_width"], state["color_diff_height"], state["dwt_depth"], state["dwt_depth_ho"], True)',
        'padded_dims_cover_picture(state["luma_width"], state["luma_height"], state["color_diff_width"], state["color_diff_height"], state["dwt_depth"], state["dwt_depth_ho"], False)',
    ]}


@spec(PD + "picture_decode")
class _pdec9:
    args = {"state": STATE}
    requires = ["slice_ctx(state)", "hdr_known(state)", 'has(state, "picture_number")', 'has(state, "video_parameters")', 'has(state, "picture_coding_mode")']
    modifies = ['state["current_picture"]', "all_grids()",
                'state["_output_picture_callback"].g_out if has(state, "_output_picture_callback") else None',
                'state["_output_picture_callback"].g_last_pic if has(state, "_output_picture_callback") else None',
                'state["_output_picture_callback"].g_last_vp if has(state, "_output_picture_callback") else None',
                'state["_output_picture_callback"].g_last_pcm if has(state, "_output_picture_callback") else None']
    raises = {}
    ensures = ['has(state, "current_picture")',
               # C09: the picture number handed out is the one coded in the stream; exactly one output per call
               'state["current_picture"]["pic_num"] == state["picture_number"]',
               # exactly one call of the output callback, with this picture, the sequence's video parameters and coding mode
               'implies(has(state, "_output_picture_callback"), state["_output_picture_callback"].g_out == old(state["_output_picture_callback"].g_out) + 1 '
               'and state["_output_picture_callback"].g_last_pic == state["current_picture"] '
               'and state["_output_picture_callback"].g_last_vp == state["video_parameters"] '
               'and state["_output_picture_callback"].g_last_pcm == state["picture_coding_mode"])',
               'pic_full(state["current_picture"])',
               'comp_in(state["current_picture"], "Y", 0, pow2(state["luma_depth"]) - 1)',
               'comp_in(state["current_picture"], "C1", 0, pow2(state["color_diff_depth"]) - 1)',
               'comp_in(state["current_picture"], "C2", 0, pow2(state["color_diff_depth"]) - 1)',
               'gheight(state["current_picture"]["Y"]) == state["luma_height"] and gwidth(state["current_picture"]["Y"]) == state["luma_width"]',
               'gheight(state["current_picture"]["C1"]) == state["color_diff_height"] and gwidth(state["current_picture"]["C1"]) == state["color_diff_width"]',
               'gheight(state["current_picture"]["C2"]) == state["color_diff_height"] and gwidth(state["current_picture"]["C2"]) == state["color_diff_width"]']
