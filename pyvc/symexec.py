"""pyvc symbolic executor: Python ``ast`` of real functions -> verification conditions.

Forward symbolic execution with ite-merging at joins.  A *unit* (a function
under contract, or a sidecar lemma) is executed once; every contract clause
and every implicit safety condition (key present, local bound, divisor
non-zero, index in range, assert, permitted exception class, callee
precondition, loop invariant init/preservation) becomes a named obligation
``facts /\\ pc ==> goal``.  Calls are replaced by the callee's contract; small
loop-free helpers declared *transparent* are inlined from the real source.
"""
import ast
import itertools

import z3

from . import frontend

I = z3.IntSort()
B = z3.BoolSort()
AII = z3.ArraySort(I, I)
AIB = z3.ArraySort(I, B)
AIA = z3.ArraySort(I, AII)


Unsupported = frontend.Unsupported  # "outside the verified subset" (never reported as a violation)


# ---------------------------------------------------------------------------
# symbolic values


class SV(object):
    __slots__ = ("k", "z", "x")

    def __init__(self, k, z=None, x=None):
        self.k = k  # int bool none str ref tuple conc optint list(concrete python list of SV)
        self.z = z
        self.x = x  # ref kind / extra

    def __repr__(self):
        return "SV(%s,%s,%s)" % (self.k, self.z, self.x)


def mk_int(z):
    if isinstance(z, int):
        z = z3.IntVal(z)
    return SV("int", z)


def mk_bool(z):
    if isinstance(z, bool):
        z = z3.BoolVal(z)
    return SV("bool", z)


NONE = SV("none")


def mk_ref(z, kind):
    return SV("ref", z, kind)


def mk_tuple(items):
    return SV("tuple", list(items))


def mk_conc(obj):
    return SV("conc", obj)


def mk_optint(isnone, v):
    return SV("optint", (isnone, v))


# ---------------------------------------------------------------------------
# spec functions (uninterpreted in SMT; each has a native twin; axioms are
# ground-instantiated on demand by use(...) and checked natively on a grid)

pow2 = z3.Function("pow2", I, I)
blen = z3.Function("blen", I, I)  # int.bit_length of |x|
bitof = z3.Function("bitof", I, I, I)  # (x >> k) & 1 for x >= 0
band = z3.Function("band", I, I, I)
bor = z3.Function("bor", I, I, I)


def n_pow2(k):
    return 2 ** k


def n_blen(x):
    return abs(x).bit_length()


def n_bitof(x, k):
    return (x >> k) & 1


SPEC_NATIVE = {
    "pow2": n_pow2,
    "blen": n_blen,
    "bitof": n_bitof,
    "band": lambda a, b: a & b,
    "bor": lambda a, b: a | b,
}
SPEC_Z3 = {"pow2": pow2, "blen": blen, "bitof": bitof, "band": band, "bor": bor}


def zdiv(a, b):
    """Python floor division for any sign of b (z3 div is Euclidean)."""
    if z3.is_int_value(b):
        if b.as_long() > 0:
            return a / b
        if b.as_long() < 0:
            return (-a) / (-b)
    return z3.If(b > 0, a / b, (-a) / (-b))


def zmod(a, b):
    if z3.is_int_value(b) and b.as_long() > 0:
        return a % b
    return a - b * zdiv(a, b)


# ground lemma library: name -> (arity, builder(args)->z3 Bool, native checker(args)->bool, grid)
def _lem(arity, build, native, grid):
    return (arity, build, native, grid)


_G = [-3, -1, 0, 1, 2, 3, 5, 8, 13]
_GP = [0, 1, 2, 3, 5, 8]

LEMMAS = {
    # pow2
    "pow2_pos": _lem(1, lambda k: z3.Implies(k >= 0, pow2(k) >= 1), lambda k: k < 0 or 2 ** k >= 1, [_GP]),
    "pow2_0": _lem(0, lambda: pow2(0) == 1, lambda: True, []),
    "pow2_step": _lem(
        1,
        lambda k: z3.Implies(k >= 0, pow2(k + 1) == 2 * pow2(k)),
        lambda k: k < 0 or 2 ** (k + 1) == 2 * 2 ** k,
        [_GP],
    ),
    "pow2_add": _lem(
        2,
        lambda a, b: z3.Implies(z3.And(a >= 0, b >= 0), pow2(a + b) == pow2(a) * pow2(b)),
        lambda a, b: a < 0 or b < 0 or 2 ** (a + b) == 2 ** a * 2 ** b,
        [_GP, _GP],
    ),
    "pow2_mono": _lem(
        2,
        lambda a, b: z3.Implies(z3.And(0 <= a, a <= b), pow2(a) <= pow2(b)),
        lambda a, b: not (0 <= a <= b) or 2 ** a <= 2 ** b,
        [_GP, _GP],
    ),
    "pow2_smono": _lem(
        2,
        lambda a, b: z3.Implies(z3.And(0 <= a, a < b), 2 * pow2(a) <= pow2(b)),
        lambda a, b: not (0 <= a < b) or 2 * 2 ** a <= 2 ** b,
        [_GP, _GP],
    ),
    # nonlinear arithmetic helpers (n >= 1)
    "div_mul_cancel": _lem(
        2,
        lambda n, x: z3.Implies(n >= 1, (n * x) / n == x),
        lambda n, x: n < 1 or (n * x) // n == x,
        [_G, _G],
    ),
    "mod_mul": _lem(
        2,
        lambda n, x: z3.Implies(n >= 1, (n * x) % n == 0),
        lambda n, x: n < 1 or (n * x) % n == 0,
        [_G, _G],
    ),
    "mul_assoc": _lem(
        3,
        lambda a, b, c: (a * b) * c == a * (b * c),
        lambda a, b, c: (a * b) * c == a * (b * c),
        [_G, _G, _G],
    ),
    "mul_comm": _lem(2, lambda a, b: a * b == b * a, lambda a, b: True, [_G, _G]),
    "mul_distr": _lem(
        3,
        lambda a, b, c: a * (b + c) == a * b + a * c,
        lambda a, b, c: a * (b + c) == a * b + a * c,
        [_G, _G, _G],
    ),
    "mul_pos": _lem(
        2,
        lambda a, b: z3.Implies(z3.And(a >= 0, b >= 0), a * b >= 0),
        lambda a, b: a < 0 or b < 0 or a * b >= 0,
        [_G, _G],
    ),
    "mul_mono": _lem(
        3,
        lambda a, b, c: z3.Implies(z3.And(a <= b, c >= 0), a * c <= b * c),
        lambda a, b, c: not (a <= b and c >= 0) or a * c <= b * c,
        [_G, _G, _G],
    ),
    "div_def": _lem(
        2,
        lambda a, n: z3.Implies(n >= 1, z3.And(n * (a / n) <= a, a < n * (a / n) + n)),
        lambda a, n: n < 1 or (n * (a // n) <= a < n * (a // n) + n),
        [_G, _G],
    ),
    "div_mono": _lem(
        3,
        lambda a, b, n: z3.Implies(z3.And(n >= 1, a <= b), a / n <= b / n),
        lambda a, b, n: not (n >= 1 and a <= b) or a // n <= b // n,
        [_G, _G, _G],
    ),
    "div_div": _lem(
        3,
        lambda a, m, n: z3.Implies(z3.And(m >= 1, n >= 1), (a / m) / n == a / (m * n)),
        lambda a, m, n: m < 1 or n < 1 or (a // m) // n == a // (m * n),
        [_G, _G, _G],
    ),
    "div_mul_div": _lem(  # (p*q*m) div p == q*m
        3,
        lambda p, q, m: z3.Implies(p >= 1, (p * (q * m)) / p == q * m),
        lambda p, q, m: p < 1 or (p * (q * m)) // p == q * m,
        [_G, _G, _G],
    ),
    "mul_div_exact": _lem(  # n|a-ish: (k*n) div (m*n) == k div m
        3,
        lambda k, m, n: z3.Implies(z3.And(m >= 1, n >= 1), (k * n) / (m * n) == k / m),
        lambda k, m, n: m < 1 or n < 1 or (k * n) // (m * n) == k // m,
        [_G, _G, _G],
    ),
    # bits
    "blen_def": _lem(
        1,
        lambda x: z3.And(
            blen(x) >= 0,
            z3.Implies(x == 0, blen(x) == 0),
            z3.Implies(x >= 1, z3.And(blen(x) >= 1, pow2(blen(x) - 1) <= x, x < pow2(blen(x)))),
        ),
        lambda x: x < 0 or (x == 0 and n_blen(x) == 0) or (2 ** (n_blen(x) - 1) <= x < 2 ** n_blen(x)),
        [_GP + [255, 256, 1023]],
    ),
    "blen_neg": _lem(1, lambda x: blen(-x) == blen(x), lambda x: n_blen(-x) == n_blen(x), [_G]),
    "blen_bound": _lem(  # 0 <= x < 2^n ==> blen(x) <= n ; x >= 2^n ==> blen(x) > n
        2,
        lambda x, n: z3.And(
            z3.Implies(z3.And(n >= 0, 0 <= x, x < pow2(n)), blen(x) <= n),
            z3.Implies(z3.And(n >= 0, x >= pow2(n)), blen(x) > n),
        ),
        lambda x, n: n < 0 or x < 0 or ((x < 2 ** n) == (n_blen(x) <= n)),
        [_GP + [255, 256], _GP],
    ),
    "bitof_def": _lem(  # x>=0,k>=0: x div 2^k = 2*(x div 2^(k+1)) + bitof(x,k), bit in {0,1}
        2,
        lambda x, k: z3.Implies(
            z3.And(x >= 0, k >= 0),
            z3.And(
                bitof(x, k) >= 0,
                bitof(x, k) <= 1,
                x / pow2(k) == 2 * (x / pow2(k + 1)) + bitof(x, k),
            ),
        ),
        lambda x, k: x < 0 or k < 0 or (x // 2 ** k == 2 * (x // 2 ** (k + 1)) + n_bitof(x, k)),
        [_GP + [255, 170], _GP],
    ),
}


LEMMAS["ceil_units_bounds"] = _lem(  # u = ceil(x / a): u*a >= x > (u-1)*a ; x >= 0 ==> u >= 0 ; x >= 1 ==> u >= 1
    2,
    lambda x, a: z3.Implies(a >= 1, z3.And(((x + a - 1) / a) * a >= x, (((x + a - 1) / a) - 1) * a < x,
                                           z3.Implies(x >= 0, (x + a - 1) / a >= 0), z3.Implies(x >= 1, (x + a - 1) / a >= 1))),
    lambda x, a: a < 1 or (((x + a - 1) // a) * a >= x > (((x + a - 1) // a) - 1) * a and (x < 0 or (x + a - 1) // a >= 0) and (x < 1 or (x + a - 1) // a >= 1)),
    [_G, _G],
)
LEMMAS["mul_le_cancel"] = _lem(  # p*m <= t*m, m >= 1 ==> p <= t
    3,
    lambda p, t, m: z3.Implies(z3.And(m >= 1, p * m <= t * m), p <= t),
    lambda p, t, m: not (m >= 1 and p * m <= t * m) or p <= t,
    [_G, _G, _G],
)
LEMMAS["mul_mono"] = _lem(  # a <= b, m >= 0 ==> a*m <= b*m
    3,
    lambda a, b, m: z3.Implies(z3.And(m >= 0, a <= b), a * m <= b * m),
    lambda a, b, m: not (m >= 0 and a <= b) or a * m <= b * m,
    [_G, _G, _G],
)
LEMMAS["pow2_8"] = _lem(0, lambda: z3.And(pow2(8) == 256, pow2(7) == 128, pow2(4) == 16), lambda: True, [])
LEMMAS["band_clear_low"] = _lem(  # x & ~(2^k - 1) == x & -(2^k): the low k bits cleared
    2,
    lambda x, k: z3.Implies(k >= 0, band(x, -pow2(k)) == (x / pow2(k)) * pow2(k)),
    lambda x, k: k < 0 or (x & -(2 ** k)) == (x // 2 ** k) * 2 ** k,
    [_G + [255, 170, 128, 127], _GP],
)
LEMMAS["div_nonneg"] = _lem(
    2,
    lambda a, n: z3.Implies(z3.And(a >= 0, n >= 1), a / n >= 0),
    lambda a, n: not (a >= 0 and n >= 1) or a // n >= 0,
    [_G, _G],
)
LEMMAS["bor_bit"] = _lem(
    2,
    lambda v, b: z3.Implies(z3.And(v >= 0, b >= 0, b <= 1), bor(2 * v, b) == 2 * v + b),
    lambda v, b: not (v >= 0 and 0 <= b <= 1) or ((2 * v) | b) == 2 * v + b,
    [_GP + [255, 1023], [0, 1]],
)


def _cleared(x, k):
    return x - z3.If(bitof(x, k) == 1, pow2(k), z3.IntVal(0))


LEMMAS["clear_bit"] = _lem(
    2,
    lambda x, k: z3.Implies(z3.And(x >= 0, k >= 0), band(x, -pow2(k) - 1) == _cleared(x, k)),
    lambda x, k: not (x >= 0 and k >= 0) or (x & ~(1 << k)) == x - (((x >> k) & 1) << k),
    [_GP + [255, 170, 85], _GP],
)
LEMMAS["set_bit"] = _lem(
    2,
    lambda y, k: z3.Implies(z3.And(y >= 0, k >= 0, bitof(y, k) == 0), bor(y, pow2(k)) == y + pow2(k)),
    lambda y, k: not (y >= 0 and k >= 0 and ((y >> k) & 1) == 0) or (y | (1 << k)) == y + (1 << k),
    [_GP + [255, 170, 85], _GP],
)
# y = x with bit k replaced by b:  bit k of y is b, every other bit j is unchanged, range preserved
LEMMAS["bit_update"] = _lem(
    4,
    lambda x, k, b, j: z3.Implies(
        z3.And(x >= 0, k >= 0, j >= 0, b >= 0, b <= 1),
        z3.And(
            bitof(_cleared(x, k) + z3.If(b == 1, pow2(k), z3.IntVal(0)), k) == b,
            z3.Implies(j != k, bitof(_cleared(x, k) + z3.If(b == 1, pow2(k), z3.IntVal(0)), j) == bitof(x, j)),
            _cleared(x, k) + z3.If(b == 1, pow2(k), z3.IntVal(0)) >= 0,
            z3.Implies(z3.And(x <= 255, k <= 7), _cleared(x, k) + z3.If(b == 1, pow2(k), z3.IntVal(0)) <= 255),
            bitof(_cleared(x, k), k) == 0,
            _cleared(x, k) >= 0,
        ),
    ),
    lambda x, k, b, j: not (x >= 0 and k >= 0 and j >= 0 and 0 <= b <= 1) or (
        (lambda y: ((y >> k) & 1) == b and (j == k or ((y >> j) & 1) == ((x >> j) & 1)) and y >= 0 and (not (x <= 255 and k <= 7) or y <= 255))(
            (x & ~(1 << k)) | (b << k))),
    [_GP + [255, 170], [0, 1, 3, 7], [0, 1], [0, 1, 2, 7]],
)
LEMMAS["bitof_small"] = _lem(  # bits of a byte above bit 7 are zero; bit of 0 is 0
    2,
    lambda x, k: z3.And(z3.Implies(z3.And(x >= 0, k >= 0, x < pow2(k)), bitof(x, k) == 0), bitof(0, k) == 0),
    lambda x, k: not (x >= 0 and k >= 0 and x < 2 ** k) or ((x >> k) & 1) == 0,
    [_GP + [255], _GP],
)


def pow2_small(y):
    """Ground facts attached automatically to every pow2(y) term the code produces."""
    t = pow2(y)
    return z3.And(
        z3.Implies(y >= 0, t >= 1),
        z3.Implies(y == 0, t == 1),
        z3.Implies(y == 1, t == 2),
        z3.Implies(y >= 1, t >= 2),
        z3.Implies(y == 2, t == 4),
        z3.Implies(y >= 2, t >= 4),
        z3.Implies(y >= 3, t >= 8),
    )


LEMMAS["pow2_small"] = _lem(
    1,
    pow2_small,
    lambda y: y < 0 or (2 ** y >= 1 and (y != 0 or 2 ** y == 1) and (y != 1 or 2 ** y == 2) and (y < 1 or 2 ** y >= 2)
                        and (y != 2 or 2 ** y == 4) and (y < 2 or 2 ** y >= 4) and (y < 3 or 2 ** y >= 8)),
    [_GP + [4, 6, 7]],
)


def selfcheck_lemmas():
    """Every ground lemma must be true natively on its grid (checker error otherwise)."""
    n = 0
    for name, (ar, build, native, grid) in LEMMAS.items():
        for args in itertools.product(*grid):
            n += 1
            if not native(*args):
                raise RuntimeError("lemma %s is false natively at %r" % (name, args))
    return n


# ---------------------------------------------------------------------------
# obligations


class Obl(object):
    def __init__(self, oid, kind, hyps, goal, lineno, text, unit):
        self.id = oid
        self.kind = kind
        self.hyps = hyps
        self.goal = goal
        self.lineno = lineno
        self.text = text
        self.unit = unit
        self.model_vars = None

    def to_smt2(self, linear_only=False):
        """linear_only: drop every hypothesis that mentions nonlinear arithmetic (sound: fewer hypotheses)."""
        s = z3.Solver()
        for h in self.hyps:
            if linear_only and is_nonlinear(h):
                continue
            s.add(h)
        s.add(z3.Not(self.goal))
        return s.to_smt2()


_NL_CACHE = {}


def is_nonlinear(e):
    """Does the term contain pow2/blen/bitof applications, products of two non-numerals or div/mod by a non-numeral?"""
    key = e.get_id()
    if key in _NL_CACHE:
        return _NL_CACHE[key]
    res = False
    stack = [e]
    seen = set()
    while stack and not res:
        t = stack.pop()
        if t.get_id() in seen:
            continue
        seen.add(t.get_id())
        if z3.is_quantifier(t):
            stack.append(t.body())
            continue
        if not z3.is_app(t):
            continue
        k = t.decl().kind()
        if k == z3.Z3_OP_UNINTERPRETED and t.decl().name() in ("pow2", "blen", "bitof", "band", "bor"):
            res = True
        elif k == z3.Z3_OP_MUL:
            if sum(0 if z3.is_int_value(c) else 1 for c in t.children()) >= 2:
                res = True
        elif k in (z3.Z3_OP_IDIV, z3.Z3_OP_MOD, z3.Z3_OP_REM, z3.Z3_OP_DIV):
            if not z3.is_int_value(t.children()[1]):
                res = True
        stack.extend(t.children())
    _NL_CACHE[key] = res
    return res


# ---------------------------------------------------------------------------
# state


class St(object):
    def __init__(self, ctx):
        self.ctx = ctx
        self.pc = []
        self.env = {}
        self.defd = {}
        self.heap = {}
        self.dead = False

    def fork(self, cond=None):
        s = St(self.ctx)
        s.pc = list(self.pc)
        if cond is not None:
            s.pc.append(cond)
        s.env = dict(self.env)
        s.defd = dict(self.defd)
        s.heap = dict(self.heap)
        s.dead = self.dead
        return s

    def become(self, other):
        self.pc = other.pc
        self.env = other.env
        self.defd = other.defd
        self.heap = other.heap
        self.dead = other.dead

    def pcz(self):
        return z3.And(*self.pc) if self.pc else z3.BoolVal(True)


class LoopCtl(object):
    def __init__(self):
        self.breaks = []
        self.continues = []


class Frame(object):
    def __init__(self, unit, modname, cls=None):
        self.unit = unit
        self.modname = modname
        self.cls = cls
        self.returns = []  # (St, SV)
        self.loops = []
        self.old_heap = None
        self.param_env = None


class Ctx(object):
    """One verification unit."""

    def __init__(self, registry, unit_id):
        self.reg = registry
        self.unit = unit_id
        self.obls = []
        self.facts = []
        self.n = 0
        self.strs = {}
        self.exc_stack = [[]]
        self.frames = []
        self.field_sorts = {}
        self.alloc_refs = []
        self.notes = []
        self.seq = itertools.count()
        self.inline_depth = 0
        self.model_consts = []  # (name, SV) for counterexample decoding
        self.spec_mode = False
        self.param_refs = []
        self.used_lemmas = set()
        self.lemma_deps = set()
        self.current_lemma = None
        self.current_measure = None
        self.verifying_fq_transparent = None
        self.current_exc = None
        self.str_domains = {}
        self.param_classes = {}
        self.defs = {}
        self.read_log = []
        self.inline_deps = {}
        self.inline_cache = {}

    def fresh(self, name, sort=I):
        self.n += 1
        return z3.Const("%s!%d" % (name, self.n), sort)

    def strid(self, s):
        if s not in self.strs:
            self.strs[s] = 1000 + len(self.strs)
        return z3.IntVal(self.strs[s])

    def assume(self, st, fact):
        if st.dead:
            return
        if st.pc:
            self.facts.append(z3.Implies(st.pcz(), fact))
        else:
            self.facts.append(fact)

    def oblige(self, st, goal, kind, node=None, text="", force=False):
        if st.dead or (self.spec_mode and not force):
            return
        lineno = getattr(node, "lineno", 0) if node is not None else 0
        oid = "%s#%s@%d/%d" % (self.unit, kind, lineno, next(self.seq))
        ob = Obl(oid, kind, list(self.facts) + list(st.pc), goal, lineno, text, self.unit)
        ob.nfacts = len(self.facts)  # hyps[:nfacts] is a prefix of the unit's final fact list
        self.obls.append(ob)

    # heap field arrays -------------------------------------------------
    def sort_of_field(self, name):
        if name.startswith(("has_", "none_")):
            return AIB
        if name == "elem":
            return AIA
        if name == "len":
            return AII
        if name.startswith("val_"):
            t = self.reg.fields.get(name[4:])
            if t is None:
                raise Unsupported("heap field %r has no declared type" % name[4:])
            return AIB if t == "bool" else AII
        raise Unsupported("unknown heap array %s" % name)

    def field_array(self, st, name, sort=None):
        if self.read_log:
            self.read_log[-1].add(name)
        if sort is None:
            sort = self.sort_of_field(name)
        if name not in st.heap:
            if name in self.field_sorts:
                arr = self.field_sorts[name][1]
            else:
                arr = z3.Const("H0_" + name, sort)
                self.field_sorts[name] = (sort, arr)
                if name.startswith("has_"):
                    for r in self.alloc_refs:
                        self.facts.append(z3.Not(arr[r]))
                if name.startswith("val_") and (self.reg.fields.get(name[4:]) or "").startswith("ref:"):
                    x = z3.Int("x!ref")
                    self.facts.append(z3.ForAll([x], arr[x] > 0, patterns=[arr[x]]))
            st.heap[name] = arr
        return st.heap[name]

    def set_field_array(self, st, name, arr):
        # SSA-name every stored array so quantifier patterns never contain store/ite
        c = self.fresh("H_" + name, arr.sort())
        self.assume(st, c == arr)
        st.heap[name] = c
        self.defs[c.get_id()] = arr

    def sel(self, arr, ref):
        """arr[ref], looking through the definitions of SSA-named stores when the answer is syntactically
        determined (same reference, or two distinct freshly allocated references); otherwise a Select term."""
        cur = arr
        for _ in range(64):
            d = self.defs.get(cur.get_id())
            if d is None or not z3.is_app(d) or d.decl().kind() != z3.Z3_OP_STORE:
                break
            a0, r0, v0 = d.children()
            if r0.eq(ref):
                return v0
            if self.is_alloc(r0) and self.is_alloc(ref):
                cur = a0
                continue
            break
        return cur[ref]

    def is_alloc(self, r):
        return any(r.eq(a) for a in self.alloc_refs)


# ---------------------------------------------------------------------------
# helpers on SVs


def fixed_len(kind):
    """n for a kind "list#n:<elem>" (fixed-arity sequence type), else None."""
    head = (kind or "").split(":", 1)[0]
    if head.startswith("list#"):
        return int(head[5:])
    return None


def as_int(ctx, st, v, node=None):
    if v.k == "int":
        return v.z
    if v.k == "bool":
        return z3.If(v.z, z3.IntVal(1), z3.IntVal(0))
    if v.k == "optint":
        ctx.oblige(st, z3.Not(v.z[0]), "not-none", node, "integer operand is not None")
        return v.z[1]
    if v.k == "conc" and isinstance(v.z, (int, bool)):
        return z3.IntVal(int(v.z))
    raise Unsupported("expected int, got %s" % v.k, node)


def truth(ctx, st, v, node=None):
    if v.k == "bool":
        return v.z
    if v.k == "int":
        return v.z != 0
    if v.k == "none":
        return z3.BoolVal(False)
    if v.k == "optint":
        return z3.And(z3.Not(v.z[0]), v.z[1] != 0)
    if v.k == "tuple":
        return z3.BoolVal(len(v.z) > 0)
    if v.k == "optref":
        return z3.Not(v.z[0])
    if v.k == "ref" and v.x and v.x.startswith("list"):
        return ctx.field_array(st, "len", AII)[v.z] != 0
    if v.k == "conc":
        return z3.BoolVal(bool(v.z))
    raise Unsupported("truthiness of %s" % v.k, node)


def sv_eq(ctx, st, a, b, node=None):
    ka, kb = a.k, b.k
    if ka == "conc":
        a = lift_conc(ctx, a, node)
        ka = a.k
    if kb == "conc":
        b = lift_conc(ctx, b, node)
        kb = b.k
    if ka in ("int", "bool") and kb in ("int", "bool"):
        if ka == kb == "bool":
            return a.z == b.z
        return as_int(ctx, st, a) == as_int(ctx, st, b)
    if ka == "conc" and kb == "conc" and callable(a.z) and callable(b.z):
        # two concrete Python function objects (e.g. entries of a live dispatch table): identity
        return z3.BoolVal(a.z is b.z)
    if ka == "none" and kb == "none":
        return z3.BoolVal(True)
    if ka == "none" and kb == "optint":
        return b.z[0]
    if kb == "none" and ka == "optint":
        return a.z[0]
    if ka == "none" or kb == "none":
        if "optref" in (ka, kb):
            o = a if ka == "optref" else b
            return o.z[0]
        return z3.BoolVal(False)
    if ka == "optref" and kb == "optref":
        return z3.And(a.z[0] == b.z[0], z3.Or(a.z[0], a.z[1] == b.z[1]))
    if ka == "optint" and kb in ("int", "bool"):
        return z3.And(z3.Not(a.z[0]), a.z[1] == as_int(ctx, st, b))
    if kb == "optint" and ka in ("int", "bool"):
        return z3.And(z3.Not(b.z[0]), b.z[1] == as_int(ctx, st, a))
    if ka == "optint" and kb == "optint":
        return z3.And(a.z[0] == b.z[0], z3.Or(a.z[0], a.z[1] == b.z[1]))
    if ka == "str" and kb == "str":
        return a.z == b.z
    if ka == "ref" and kb == "ref":
        if not ctx.spec_mode and (str(a.x).startswith(("list", "bytearray", "opaque")) or str(b.x).startswith(("list", "bytearray", "opaque"))) and not a.z.eq(b.z):
            return ctx.fresh("content_eq", B)  # == on sequences/opaque objects compares contents: left uninterpreted
        return a.z == b.z
    if ka == "array" and kb == "array":
        return a.z == b.z
    if ka == "tuple" and kb == "tuple":
        if len(a.z) != len(b.z):
            return z3.BoolVal(False)
        return z3.And(*[sv_eq(ctx, st, x, y, node) for x, y in zip(a.z, b.z)]) if a.z else z3.BoolVal(True)
    if {ka, kb} <= {"int", "bool", "str", "tuple", "none"}:
        return z3.BoolVal(False)
    raise Unsupported("equality of %s and %s" % (ka, kb), node)


def lift_conc(ctx, v, node=None):
    o = v.z
    if isinstance(o, bool):
        return mk_bool(o)
    if isinstance(o, int):
        return mk_int(int(o))
    if o is None or any(o is x for x in getattr(ctx.reg, "none_sentinels", [])):
        return NONE
    if isinstance(o, str):
        return SV("str", ctx.strid(o))
    if type(o) is tuple:
        return mk_tuple([lift_conc(ctx, mk_conc(x), node) for x in o])
    return v


def sv_ite(ctx, c, a, b):
    if a is b:
        return a
    ka, kb = a.k, b.k
    if ka == "conc":
        a = lift_conc(ctx, a)
        ka = a.k
    if kb == "conc":
        b = lift_conc(ctx, b)
        kb = b.k
    if ka == kb == "int":
        return a if a.z.eq(b.z) else mk_int(z3.If(c, a.z, b.z))
    if ka == kb == "bool":
        return a if a.z.eq(b.z) else mk_bool(z3.If(c, a.z, b.z))
    if {ka, kb} == {"int", "bool"}:
        ai = a.z if ka == "int" else z3.If(a.z, z3.IntVal(1), z3.IntVal(0))
        bi = b.z if kb == "int" else z3.If(b.z, z3.IntVal(1), z3.IntVal(0))
        return mk_int(z3.If(c, ai, bi))
    if ka == kb == "none":
        return a
    if ka == kb == "str":
        return SV("str", z3.If(c, a.z, b.z))
    if ka == kb == "ref":
        return SV("ref", z3.If(c, a.z, b.z), a.x if a.x == b.x else a.x)
    if ka == kb == "array":
        return SV("array", z3.If(c, a.z, b.z))
    if ka == kb == "tuple" and len(a.z) == len(b.z):
        return mk_tuple([sv_ite(ctx, c, x, y) for x, y in zip(a.z, b.z)])
    if ka == kb == "conc" and a.z is b.z:
        return a
    optr = {"ref", "none", "optref"}
    if ka in optr and kb in optr and "ref" in (ka, kb) or "optref" in (ka, kb) and ka in optr and kb in optr:

        def rparts(v):
            if v.k == "ref":
                return z3.BoolVal(False), v.z, v.x
            if v.k == "none":
                return z3.BoolVal(True), z3.IntVal(0), None
            return v.z[0], v.z[1], v.x

        an, av, ax = rparts(a)
        bn, bv, bx = rparts(b)
        return SV("optref", (z3.If(c, an, bn), z3.If(c, av, bv)), ax or bx)
    opt = {"int", "none", "optint"}
    if ka in opt and kb in opt:

        def parts(v):
            if v.k == "int":
                return z3.BoolVal(False), v.z
            if v.k == "none":
                return z3.BoolVal(True), z3.IntVal(0)
            return v.z

        an, av = parts(a)
        bn, bv = parts(b)
        return mk_optint(z3.If(c, an, bn), z3.If(c, av, bv))
    return SV("mixed", (c, a, b))


def common_prefix(pcs):
    n = 0
    for items in zip(*pcs):
        first = items[0]
        if all(x.eq(first) for x in items[1:]):
            n += 1
        else:
            break
    return n


def merge_states(ctx, states, into):
    """Join the given path states into `into` (ite on the diverging path conditions)."""
    alive = [s for s in states if not s.dead]
    if not alive:
        into.dead = True
        return
    if len(alive) == 1:
        into.become(alive[0].fork())
        return
    n = common_prefix([s.pc for s in alive])
    conds = [z3.And(*s.pc[n:]) if len(s.pc) > n else z3.BoolVal(True) for s in alive]
    base = alive[0].pc[:n]
    res = St(ctx)
    res.pc = list(base) + [z3.Or(*conds)]
    names = []
    for s in alive:
        for k in s.env:
            if k not in names:
                names.append(k)
    for k in names:
        val = None
        dz = None
        for s, c in reversed(list(zip(alive, conds))):
            v = s.env.get(k)
            d = s.defd.get(k, z3.BoolVal(True)) if v is not None else z3.BoolVal(False)
            if dz is None:
                val, dz = v, d
            else:
                dz = d if d.eq(dz) else z3.If(c, d, dz)
                if v is None:
                    pass
                elif val is None:
                    val = v
                else:
                    val = sv_ite(ctx, c, v, val)
        res.env[k] = val
        res.defd[k] = z3.simplify(dz)
    fields = []
    for s in alive:
        for f in s.heap:
            if f not in fields:
                fields.append(f)
    for f in fields:
        arr = None
        changed = False
        for s, c in reversed(list(zip(alive, conds))):
            a = s.heap.get(f)
            if a is None:
                a = ctx.field_sorts[f][1]
            if arr is None:
                arr = a
            elif not a.eq(arr):
                arr = z3.If(c, a, arr)
                changed = True
        res.heap[f] = arr
        if changed:
            ctx.set_field_array(res, f, arr)
    into.become(res)


# ---------------------------------------------------------------------------
# the registry of contracts / lemmas / transparent functions (filled by contracts loader)


class Registry(object):
    def __init__(self):
        self.contracts = {}  # fq -> Contract
        self.transparent = set()  # fq
        self.lemmas = {}  # name -> LemmaSrc
        self.specfuns = {}  # name -> SpecFun
        self.fields = {}  # field name -> type string
        self.builtin_methods = {}
        self.used_transparent = set()
        self.used_contracts = set()
        self.opaque_calls = {}  # fq -> description of trusted model


class LemmaSrc(object):
    def __init__(self, name, node, modname, path, params):
        self.name = name
        self.node = node
        self.modname = modname
        self.path = path
        self.params = params  # [(name, annotation string)]
        body = frontend.strip_docstring(node)
        self.requires = []
        self.ensures = []
        self.decreases = None
        rest = []
        head = True
        for s in body:
            if (
                head
                and isinstance(s, ast.Expr)
                and isinstance(s.value, ast.Call)
                and isinstance(s.value.func, ast.Name)
                and s.value.func.id in ("requires", "ensures", "decreases")
            ):
                which = s.value.func.id
                if which == "requires":
                    self.requires.append(s.value.args[0])
                elif which == "ensures":
                    self.ensures.append(s.value.args[0])
                else:
                    self.decreases = s.value.args[0]
            else:
                head = False
                rest.append(s)
        self.body = rest
        self.loops = frontend.number_loops(node)


class SpecFun(object):
    """Recursive/defined spec function: SMT uninterpreted + definitional axiom unfolded on demand."""

    def __init__(self, name, node, modname, params):
        self.name = name
        self.node = node
        self.modname = modname
        self.params = params
        sorts = [AII if ann in ("array", "bytes") else I for (_, ann) in params]
        self.z = z3.Function("sf_" + name, *(sorts + [I]))


# ---------------------------------------------------------------------------
# expression evaluation


class Exec(object):
    def __init__(self, ctx):
        self.ctx = ctx
        self.reg = ctx.reg

    # ---- names -------------------------------------------------------
    def lookup(self, st, name, node):
        ctx = self.ctx
        if name in st.env:
            d = st.defd.get(name)
            if d is not None and not z3.is_true(d):
                ctx.oblige(st, d, "local-bound", node, "local variable '%s' is bound before use" % name)
            v = st.env[name]
            if v.k == "mixed":
                raise Unsupported("variable %s has path-dependent type" % name, node)
            return v
        fr = ctx.frames[-1]
        if name in fr.locals_assigned:
            # assigned somewhere in the function but on no path reaching here
            ctx.oblige(st, z3.BoolVal(False), "local-bound", node, "local variable '%s' is bound before use" % name)
            return mk_int(ctx.fresh("unbound_" + name))
        if name in ("True", "False", "None"):
            return {"True": mk_bool(True), "False": mk_bool(False), "None": NONE}[name]
        if name in GHOST_NAMES:
            return mk_conc(GhostFn(name))
        if name in self.reg.lemmas:
            return mk_conc(self.reg.lemmas[name])
        if name in self.reg.specfuns:
            return mk_conc(self.reg.specfuns[name])
        if name in SPEC_Z3:
            return mk_conc(GhostFn(name))
        if fr.sidecar_globals is not None and name in fr.sidecar_globals:
            return mk_conc(fr.sidecar_globals[name])
        try:
            if fr.modname is None:
                raise KeyError(name)
            obj = frontend.resolve_name(fr.modname, name)
        except (KeyError, ImportError):
            gg = getattr(fr, "ghost_globals", None)
            if gg is not None and name in gg:
                return mk_conc(gg[name])
            import builtins

            if hasattr(builtins, name):
                return mk_conc(getattr(builtins, name))
            raise Unsupported("unknown name %s" % name, node)
        return mk_conc(obj)

    # ---- expressions ------------------------------------------------
    def ev(self, st, e):
        m = getattr(self, "ev_" + type(e).__name__, None)
        if m is None:
            raise Unsupported("expression %s" % type(e).__name__, e)
        return m(st, e)

    def ev_Constant(self, st, e):
        v = e.value
        if isinstance(v, bool):
            return mk_bool(v)
        if isinstance(v, int):
            return mk_int(v)
        if v is None:
            return NONE
        if isinstance(v, str):
            return SV("str", self.ctx.strid(v), v)
        if isinstance(v, bytes):
            return mk_conc(v)
        raise Unsupported("constant %r" % (v,), e)

    def ev_Name(self, st, e):
        return self.lookup(st, e.id, e)

    def ev_Tuple(self, st, e):
        return mk_tuple([self.ev(st, x) for x in e.elts])

    def ev_List(self, st, e):
        items = [self.ev(st, x) for x in e.elts]
        return self.alloc_list(st, items, e)

    def ev_Dict(self, st, e):
        ctx = self.ctx
        r = self.alloc_ref(st, "dict")
        for k, v in zip(e.keys, e.values):
            if not (isinstance(k, ast.Constant) and isinstance(k.value, str)):
                raise Unsupported("dict literal with non-constant key", e)
            self.store_key(st, mk_ref(r, "dict"), k.value, self.ev(st, v), e)
        return mk_ref(r, "dict")

    def alloc_ref(self, st, kind):
        ctx = self.ctx
        # objects that exist on entry (parameters, anything stored in the initial heap) have positive
        # references; objects allocated during the call have negative, pairwise distinct ones
        r = ctx.fresh("ref")
        others = list(ctx.alloc_refs)
        for o in others:
            ctx.facts.append(r != o)
        ctx.facts.append(r < 0)
        for f, (sort, arr0) in ctx.field_sorts.items():
            if f.startswith("has_"):
                ctx.facts.append(z3.Not(arr0[r]))
                cur = st.heap.get(f)
                if cur is not None and not cur.eq(arr0):
                    ctx.assume(st, z3.Not(cur[r]))
        ctx.alloc_refs.append(r)
        return r

    def alloc_list(self, st, items, node):
        ctx = self.ctx
        r = self.alloc_ref(st, "list")
        ln = ctx.field_array(st, "len", AII)
        ctx.set_field_array(st, "len", z3.Store(ln, r, z3.IntVal(len(items))))
        el = ctx.field_array(st, "elem", AIA)
        arr = el[r]
        kind = "list:int"
        for i, it in enumerate(items):
            if it.k == "ref":
                kind = "list:" + (it.x or "ref")
                arr = z3.Store(arr, i, it.z)
            else:
                arr = z3.Store(arr, i, as_int(ctx, st, it, node))
        ctx.set_field_array(st, "elem", z3.Store(el, r, arr))
        return mk_ref(r, kind)

    def ev_UnaryOp(self, st, e):
        ctx = self.ctx
        v = self.ev(st, e.operand)
        if isinstance(e.op, ast.Not):
            return mk_bool(z3.Not(truth(ctx, st, v, e)))
        if isinstance(e.op, ast.USub):
            return mk_int(-as_int(ctx, st, v, e))
        if isinstance(e.op, ast.UAdd):
            return mk_int(as_int(ctx, st, v, e))
        if isinstance(e.op, ast.Invert):
            return mk_int(-as_int(ctx, st, v, e) - 1)
        raise Unsupported("unary op", e)

    def ev_BoolOp(self, st, e):
        """Short-circuit with definedness: later operands are evaluated under the earlier ones."""
        ctx = self.ctx
        is_and = isinstance(e.op, ast.And)
        # result is the truth value (all uses in the code base are in boolean positions)
        base = st.fork()
        cur = st
        acc = None
        branches = []
        for i, sub in enumerate(e.values):
            v = self.ev(cur, sub)
            t = truth(ctx, cur, v, sub)
            acc = t if acc is None else (z3.And(acc, t) if is_and else z3.Or(acc, t))
            if i + 1 < len(e.values):
                # path that short-circuits here
                sc = cur.fork(z3.Not(t) if is_and else t)
                branches.append(sc)
                cur.pc.append(t if is_and else z3.Not(t))
        branches.append(cur)
        heap_changed = any(not _same_heap(b, base) for b in branches)
        if heap_changed:
            tmp = St(ctx)
            merge_states(ctx, branches, tmp)
            st.become(tmp)
        else:
            st.pc = base.pc
        return mk_bool(acc)

    def ev_IfExp(self, st, e):
        ctx = self.ctx
        c = truth(ctx, st, self.ev(st, e.test), e)
        cs = z3.simplify(c)
        if z3.is_true(cs):
            return self.ev(st, e.body)
        if z3.is_false(cs):
            return self.ev(st, e.orelse)
        a = st.fork(c)
        b = st.fork(z3.Not(c))
        va = self.ev(a, e.body)
        vb = self.ev(b, e.orelse)
        if not (_same_heap(a, st) and _same_heap(b, st)):
            a.env["__ifexp"] = va
            b.env["__ifexp"] = vb
            merge_states(ctx, [a, b], st)
            return st.env.pop("__ifexp")
        return sv_ite(ctx, c, va, vb)

    def ev_Compare(self, st, e):
        ctx = self.ctx
        left = self.ev(st, e.left)
        res = None
        for op, rt in zip(e.ops, e.comparators):
            right = self.ev(st, rt)
            r = self.compare(st, op, left, right, e)
            res = r if res is None else z3.And(res, r)
            left = right
        return mk_bool(res)

    def compare(self, st, op, a, b, node):
        ctx = self.ctx
        if isinstance(op, (ast.Eq, ast.Is)):
            return sv_eq(ctx, st, a, b, node)
        if isinstance(op, (ast.NotEq, ast.IsNot)):
            return z3.Not(sv_eq(ctx, st, a, b, node))
        if isinstance(op, (ast.In, ast.NotIn)):
            r = self.contains(st, a, b, node)
            return z3.Not(r) if isinstance(op, ast.NotIn) else r
        x = as_int(ctx, st, a, node)
        y = as_int(ctx, st, b, node)
        if isinstance(op, ast.Lt):
            return x < y
        if isinstance(op, ast.LtE):
            return x <= y
        if isinstance(op, ast.Gt):
            return x > y
        if isinstance(op, ast.GtE):
            return x >= y
        raise Unsupported("comparison", node)

    def contains(self, st, a, b, node):
        ctx = self.ctx
        if b.k == "conc":
            b2 = lift_conc(ctx, b, node)
            if b2.k == "conc" and isinstance(b.z, (list, set, frozenset, dict)):
                items = [lift_conc(ctx, mk_conc(x), node) for x in b.z]
                return z3.Or(*[sv_eq(ctx, st, a, x, node) for x in items]) if items else z3.BoolVal(False)
            b = b2
        if b.k == "tuple":
            return z3.Or(*[sv_eq(ctx, st, a, x, node) for x in b.z]) if b.z else z3.BoolVal(False)
        if b.k == "ref" and b.x and b.x.startswith("dict"):
            if a.k == "str" and a.x is not None:
                return ctx.field_array(st, "has_" + a.x, AIB)[b.z]
            raise Unsupported("membership test with symbolic key", node)
        raise Unsupported("'in' on %s" % b.k, node)

    def ev_BinOp(self, st, e):
        ctx = self.ctx
        a = self.ev(st, e.left)
        b = self.ev(st, e.right)
        op = e.op
        if a.k == "tuple" and b.k == "tuple" and isinstance(op, ast.Add):
            return mk_tuple(a.z + b.z)
        x = as_int(ctx, st, a, e)
        y = as_int(ctx, st, b, e)
        return mk_int(self.arith(st, op, x, y, e))

    def arith(self, st, op, x, y, e):
        ctx = self.ctx
        if isinstance(op, ast.Add):
            return x + y
        if isinstance(op, ast.Sub):
            return x - y
        if isinstance(op, ast.Mult):
            return x * y
        if isinstance(op, ast.FloorDiv):
            ctx.oblige(st, y != 0, "div-nonzero", e, "divisor is non-zero")
            return zdiv(x, y)
        if isinstance(op, ast.Mod):
            ctx.oblige(st, y != 0, "div-nonzero", e, "modulus is non-zero")
            return zmod(x, y)
        if isinstance(op, ast.Pow):
            xs = z3.simplify(x)
            ys = z3.simplify(y)
            if z3.is_int_value(xs) and z3.is_int_value(ys) and ys.as_long() >= 0:
                return z3.IntVal(xs.as_long() ** ys.as_long())
            if z3.is_int_value(xs) and xs.as_long() == 2:
                ctx.oblige(st, y >= 0, "pow-nonneg", e, "exponent is non-negative (else float)")
                return self.mk_pow2(st, y)
            raise Unsupported("** with non-2 symbolic base", e)
        if isinstance(op, ast.LShift):
            ctx.oblige(st, y >= 0, "shift-nonneg", e, "shift count is non-negative")
            xs = z3.simplify(x)
            if z3.is_int_value(xs) and xs.as_long() == 1:
                return self.mk_pow2(st, y)
            return x * self.mk_pow2(st, y)
        if isinstance(op, ast.RShift):
            ctx.oblige(st, y >= 0, "shift-nonneg", e, "shift count is non-negative")
            ys = z3.simplify(y)
            if z3.is_int_value(ys):
                return x / z3.IntVal(2 ** ys.as_long())
            return x / self.mk_pow2(st, y)
        if isinstance(op, ast.BitAnd):
            xs, ys = z3.simplify(x), z3.simplify(y)
            for p, q in ((xs, ys), (ys, xs)):
                if z3.is_int_value(q):
                    m = q.as_long()
                    if m >= 0 and (m & (m + 1)) == 0:  # 2^k - 1
                        return p % z3.IntVal(m + 1)
                    if 0 <= m < (1 << 24):
                        # exact for every integer p (two's complement): sum of the selected bits
                        terms = [z3.IntVal(1 << i) * ((p / z3.IntVal(1 << i)) % 2) for i in range(m.bit_length()) if (m >> i) & 1]
                        return z3.Sum(terms) if terms else z3.IntVal(0)
            return band(x, y)
        if isinstance(op, ast.BitOr):
            return bor(x, y)
        raise Unsupported("binary op %s" % type(op).__name__, e)

    def mk_pow2(self, st, y):
        ys = z3.simplify(y)
        if z3.is_int_value(ys) and ys.as_long() >= 0:
            return z3.IntVal(2 ** ys.as_long())
        t = pow2(y)
        self.ctx.assume(st, pow2_small(y))
        return t

    # ---- subscripts / attributes -------------------------------------
    def ev_Subscript(self, st, e):
        ctx = self.ctx
        base = self.ev(st, e.value)
        if isinstance(e.slice, ast.Slice):
            raise Unsupported("slice expression", e)
        if base.k == "conc":
            idx = self.ev(st, e.slice)
            return self.index_conc(st, base, idx, e)
        if base.k == "tuple":
            idx = self.ev(st, e.slice)
            iz = z3.simplify(as_int(ctx, st, idx, e))
            if z3.is_int_value(iz):
                return base.z[iz.as_long()]
            raise Unsupported("symbolic tuple index", e)
        if base.k == "array":
            return mk_int(base.z[as_int(ctx, st, self.ev(st, e.slice), e)])
        if base.k == "ref":
            kind = base.x or ""
            if kind.startswith("dict"):
                key = self.const_key(st, e.slice)
                return self.load_key(st, base, key, e)
            if kind == "file" and ctx.spec_mode:
                return mk_int(ctx.field_array(st, "elem", AIA)[base.z][as_int(ctx, st, self.ev(st, e.slice), e)])
            if kind.startswith("list") or kind == "bytearray":
                idx = as_int(ctx, st, self.ev(st, e.slice), e)
                return self.load_elem(st, base, idx, e)
        raise Unsupported("subscript of %s/%s" % (base.k, base.x), e)

    def const_key(self, st, sl):
        if isinstance(sl, ast.Constant) and isinstance(sl.value, str):
            return sl.value
        v = self.ev(st, sl)
        if v.k == "str" and v.x is not None:
            return v.x
        if v.k == "conc" and isinstance(v.z, str):
            return v.z
        raise Unsupported("dictionary key is not a constant string", sl)

    def index_conc(self, st, base, idx, node):
        ctx = self.ctx
        o = base.z
        if idx.k == "optint":
            # an optional integer used as an index: it must not be None here (TypeError / KeyError otherwise)
            ctx.oblige(st, z3.Not(idx.z[0]), "not-none", node, "index into a constant table is not None")
            idx = mk_int(idx.z[1])
        if idx.k == "conc":
            try:
                return mk_conc(o[idx.z])
            except Exception:
                raise Unsupported("concrete index failed", node)
        if idx.k == "str" and idx.x is not None and isinstance(o, dict):
            return lift_conc(ctx, mk_conc(o[idx.x]), node)
        if idx.k in ("int", "bool"):
            iz = z3.simplify(as_int(ctx, st, idx, node))
            if z3.is_int_value(iz):
                try:
                    return lift_conc(ctx, mk_conc(o[iz.as_long()]), node)
                except Exception:
                    raise Unsupported("concrete index failed", node)
            if isinstance(o, (list, tuple)) and all(isinstance(x, int) for x in o):
                ctx.oblige(st, z3.And(iz >= -len(o), iz < len(o)), "index-range", node, "index in range of constant table")
                r = z3.IntVal(o[-1])
                for j in range(len(o) - 1):
                    r = z3.If(z3.Or(iz == j, iz == j - len(o)), z3.IntVal(o[j]), r)
                return mk_int(r)
        raise Unsupported("index into constant %s with symbolic %s" % (type(o).__name__, idx.k), node)

    def field_type(self, key, node=None):
        t = self.reg.fields.get(key)
        if t is None:
            raise Unsupported("heap field %r has no declared type (contracts/schema.py)" % key, node)
        return t

    def load_key(self, st, base, key, node, check=True):
        ctx = self.ctx
        if check:
            has = ctx.sel(ctx.field_array(st, "has_" + key, AIB), base.z)
            ctx.oblige(st, has, "key-present", node, "state[%r] is present when read" % key)
        return self.load_field(st, base, key, node)

    def load_field(self, st, base, key, node):
        ctx = self.ctx
        t = self.field_type(key, node)
        if t == "any":
            return mk_ref(ctx.fresh("any_" + key), "opaque:any")  # a value whose content is never inspected
        if t == "bool":
            return mk_bool(ctx.sel(ctx.field_array(st, "val_" + key, AIB), base.z))
        v = ctx.sel(ctx.field_array(st, "val_" + key, AII), base.z)
        if t == "int":
            return mk_int(v)
        if t == "optint":
            return mk_optint(ctx.sel(ctx.field_array(st, "none_" + key, AIB), base.z), v)
        if t == "str":
            return SV("str", v)
        if t.startswith("ref:"):
            return mk_ref(v, t[4:])
        raise Unsupported("field type %s" % t, node)

    def store_key(self, st, base, key, val, node):
        ctx = self.ctx
        has = ctx.field_array(st, "has_" + key, AIB)
        ctx.set_field_array(st, "has_" + key, z3.Store(has, base.z, z3.BoolVal(True)))
        self.store_field(st, base, key, val, node)

    def store_field(self, st, base, key, val, node):
        ctx = self.ctx
        t = self.field_type(key, node)
        if t == "any":
            return
        if val.k == "conc":
            val = lift_conc(ctx, val, node)
        if t == "bool":
            arr = ctx.field_array(st, "val_" + key, AIB)
            ctx.set_field_array(st, "val_" + key, z3.Store(arr, base.z, truth(ctx, st, val, node) if val.k != "bool" else val.z))
            return
        arr = ctx.field_array(st, "val_" + key, AII)
        if t == "int":
            z = as_int(ctx, st, val, node)
        elif t == "optint":
            na = ctx.field_array(st, "none_" + key, AIB)
            if val.k == "none":
                ctx.set_field_array(st, "none_" + key, z3.Store(na, base.z, z3.BoolVal(True)))
                return
            if val.k == "optint":
                ctx.set_field_array(st, "none_" + key, z3.Store(na, base.z, val.z[0]))
                z = val.z[1]
            else:
                ctx.set_field_array(st, "none_" + key, z3.Store(na, base.z, z3.BoolVal(False)))
                z = as_int(ctx, st, val, node)
        elif t == "str":
            if val.k != "str":
                raise Unsupported("storing %s into str field %s" % (val.k, key), node)
            z = val.z
        elif t.startswith("ref:"):
            if val.k != "ref":
                raise Unsupported("storing %s into ref field %s" % (val.k, key), node)
            z = val.z
        else:
            raise Unsupported("field type %s" % t, node)
        ctx.set_field_array(st, "val_" + key, z3.Store(arr, base.z, z))

    def load_elem(self, st, base, idx, node, in_range=False):
        ctx = self.ctx
        ln = ctx.field_array(st, "len", AII)[base.z]
        iz = z3.simplify(idx)
        if in_range:
            pass  # loop counters: 0 <= idx < len by construction (no obligation, no negative-index normalisation)
        else:
            ctx.oblige(st, z3.And(idx >= -ln, idx < ln), "index-range", node, "list index in range")
            if z3.is_int_value(iz) and iz.as_long() < 0:
                idx = ln + idx
            elif not z3.is_int_value(iz):
                idx = z3.If(idx < 0, ln + idx, idx)
        v = ctx.field_array(st, "elem", AIA)[base.z][idx]
        kind = base.x or "list:int"
        sub = kind.split(":", 1)[1] if ":" in kind else "int"
        if sub == "int":
            return mk_int(v)
        if sub == "bool":
            return mk_bool(v != 0)
        # allocation model: every reference stored in the heap on entry denotes an object that existed on entry (> 0)
        h0 = ctx.field_sorts.get("elem")
        if h0 is not None:
            ctx.assume(st, z3.Implies(z3.And(base.z > 0, v == h0[1][base.z][idx]), v > 0))
        n = fixed_len(sub)
        if n is not None:
            # element type "list#n:...": a sequence type of fixed arity (e.g. a 3-field namedtuple); part of the declared type
            ctx.assume(st, ctx.field_array(st, "len", AII)[v] == n)
        return mk_ref(v, sub)

    def store_elem(self, st, base, idx, val, node):
        ctx = self.ctx
        ln = ctx.field_array(st, "len", AII)[base.z]
        ctx.oblige(st, z3.And(idx >= -ln, idx < ln), "index-range", node, "list index in range")
        iz = z3.simplify(idx)
        if z3.is_int_value(iz) and iz.as_long() < 0:
            idx = ln + idx
        elif not z3.is_int_value(iz):
            idx = z3.If(idx < 0, ln + idx, idx)
        el = ctx.field_array(st, "elem", AIA)
        z = val.z if val.k == "ref" else as_int(ctx, st, val, node)
        ctx.set_field_array(st, "elem", z3.Store(el, base.z, z3.Store(el[base.z], idx, z)))

    def ev_Attribute(self, st, e):
        ctx = self.ctx
        base = self.ev(st, e.value)
        if base.k == "conc":
            try:
                return mk_conc(getattr(base.z, e.attr))
            except AttributeError:
                raise Unsupported("attribute %s of constant" % e.attr, e)
        if base.k == "ref":
            if (base.x or "").startswith(("obj", "opaque", "file", "dict")) and e.attr in self.reg.fields:
                return self.load_field(st, base, e.attr, e)
            return mk_conc(BoundMethod(base, e.attr))
        if base.k in ("int", "bool") and e.attr == "bit_length":
            return mk_conc(BoundMethod(base, e.attr))
        if base.k == "int" and isinstance(base.x, type) and e.attr in ("name", "value"):
            if e.attr == "value":
                return mk_int(base.z)
            res = None
            for m in base.x:
                v = SV("str", ctx.strid(m.name), m.name)
                res = v if res is None else SV("str", z3.If(base.z == int(m), v.z, res.z))
            return res
        raise Unsupported("attribute %s of %s" % (e.attr, base.k), e)

    # ---- calls -------------------------------------------------------------
    def ev_Call(self, st, e):
        from .calls import do_call

        return do_call(self, st, e)

    def ev_Lambda(self, st, e):
        return mk_conc(e)

    def ev_JoinedStr(self, st, e):
        for v in e.values:
            if isinstance(v, ast.FormattedValue):
                self.ev(st, v.value)
        return SV("str", self.ctx.fresh("fstr"))


def _same_heap(a, b):
    if a.heap is b.heap:
        return True
    if set(a.heap) != set(b.heap):
        # new lazily-created field arrays are initial arrays: same
        for f in set(a.heap) | set(b.heap):
            x = a.heap.get(f)
            y = b.heap.get(f)
            if x is None or y is None:
                z = x if x is not None else y
                if not z.eq(a.ctx.field_sorts[f][1]):
                    return False
            elif not x.eq(y):
                return False
        return True
    return all(a.heap[f].eq(b.heap[f]) for f in a.heap)


class GhostFn(object):
    def __init__(self, name):
        self.name = name


class BoundMethod(object):
    def __init__(self, recv, name):
        self.recv = recv
        self.name = name


GHOST_NAMES = {
    "gval",
    "apply_forall",
    "existing_unchanged",
    "lo_has",
    "lo_row",
    "lo_get",
    "gheight",
    "gwidth",
    "is_fresh",
    "store",
    "define",
    "use_forall",
    "content",
    "fpos",
    "flen",
    "length",
    "elems",
    "field",
    "requires",
    "ensures",
    "decreases",
    "assume_",
    "use",
    "unfold",
    "forall",
    "exists",
    "implies",
    "old",
    "has",
    "cover",
    "ite",
}
