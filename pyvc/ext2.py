"""Engine extensions added for the encoder-side contracts (C14, C04, C07):

* list comprehensions / generator expressions
    - over a sequence of *known* length (a tuple value, a constant, a list whose length is a literal): unrolled
      (complete, not a bound: the length is fixed by the types the contract declares);
    - `[f(x, y) for x, y in zip(A, B)]` / `[f(x) for x in A]` / `[f(i) for i in range(n)]` over lists of symbolic
      length whose element expression is pure and allocation-free: the result is a fresh list of length
      min(len A, len B) whose content is the array  (lambda k. f(A[k], B[k]))  - a z3 lambda, no quantifier;
      the safety obligations of the element expression are generated once for an arbitrary in-range k.
* `mkarray(lambda i: e)`  - ghost: the same lambda array in contract clauses.
* unpacking a list of known length into a tuple target, namedtuple construction and attribute reads.
"""
import ast

import z3

from . import symexec as S
from .symexec import AIA, AII, SV, Unsupported, as_int, lift_conc, mk_conc, mk_int, mk_ref, mk_tuple


def _is_list(v):
    return v.k == "ref" and (v.x or "").startswith("list")


def _known_items(ex, st, seq, node):
    """Items of a sequence whose length is known, else None."""
    ctx = ex.ctx
    if seq.k == "tuple":
        return list(seq.z)
    if seq.k == "conc" and isinstance(seq.z, (list, tuple)):
        return [lift_conc(ctx, mk_conc(x), node) for x in seq.z]
    if _is_list(seq) and S.fixed_len(seq.x) is not None:
        return [ex.load_elem(st, seq, z3.IntVal(i), node) for i in range(S.fixed_len(seq.x))]
    if _is_list(seq):
        lt = ctx.field_array(st, "len", AII)[seq.z]
        ln = z3.simplify(ctx.sel(ctx.field_array(st, "len", AII), seq.z))
        if not z3.is_int_value(ln):
            ln = _implied_value(ctx, st, lt)
            if ln is not None:
                ctx.assume(st, lt == ln)
        if ln is not None and z3.is_int_value(ln) and 0 <= ln.as_long() <= 64:
            return [ex.load_elem(st, seq, z3.IntVal(i), node) for i in range(ln.as_long())]
    return None


def _implied_value(ctx, st, term):
    """The integer literal the term is forced to by the facts and the path condition, if a quick solver query finds one
    (used only to decide whether a sequence has a fixed length; a wrong 'no' just means the general, symbolic treatment)."""
    s = z3.Solver()
    s.set("timeout", 500)
    s.set("smt.mbqi", False)
    s.add(*ctx.facts)
    s.add(*st.pc)
    if s.check() != z3.sat:
        return None
    v = s.model().eval(term, model_completion=True)
    if not z3.is_int_value(v):
        return None
    s.add(term != v)
    if s.check() == z3.unsat:
        return v
    return None


class _Bind(object):
    """Temporarily binds comprehension variables in st.env."""

    def __init__(self, st):
        self.st = st
        self.saved = {}

    def set(self, ex, tgt, val, node):
        for n in ast.walk(tgt):
            if isinstance(n, ast.Name) and n.id not in self.saved:
                self.saved[n.id] = (self.st.env.get(n.id), self.st.defd.get(n.id))
        ex.assign_target(self.st, tgt, val, node)

    def restore(self):
        for n, (v, d) in self.saved.items():
            if v is None:
                self.st.env.pop(n, None)
                self.st.defd.pop(n, None)
            else:
                self.st.env[n] = v
                self.st.defd[n] = d


def install(Exec, Runner):
    def comp_items(self, st, e):
        """Element values of a comprehension all of whose generators have known length (unrolled), else None."""
        gens = e.generators
        if any(g.ifs or g.is_async for g in gens):
            raise Unsupported("comprehension with a condition", e)
        out = []
        b = _Bind(st)

        def rec(gi):
            if gi == len(gens):
                out.append(self.ev(st, e.elt))
                return True
            g = gens[gi]
            it = g.iter
            if isinstance(it, ast.Call) and isinstance(it.func, ast.Name) and it.func.id == "zip" and "zip" not in st.env:
                seqs = [_known_items(self, st, self.ev(st, a), e) for a in it.args]
                if any(x is None for x in seqs):
                    return False
                items = [mk_tuple(list(t)) for t in zip(*seqs)]
            elif isinstance(it, ast.Call) and isinstance(it.func, ast.Name) and it.func.id == "enumerate" and "enumerate" not in st.env:
                xs = _known_items(self, st, self.ev(st, it.args[0]), e)
                if xs is None:
                    return False
                items = [mk_tuple([mk_int(z3.IntVal(i)), x]) for i, x in enumerate(xs)]
            elif isinstance(it, ast.Call) and isinstance(it.func, ast.Name) and it.func.id == "range" and "range" not in st.env:
                args = [z3.simplify(as_int(self.ctx, st, self.ev(st, a), e)) for a in it.args]
                if not all(z3.is_int_value(a) for a in args):
                    return False
                items = [mk_int(z3.IntVal(i)) for i in range(*[a.as_long() for a in args])]
                if len(items) > 64:
                    return False
            else:
                items = _known_items(self, st, self.ev(st, it), e)
                if items is None:
                    return False
            for x in items:
                b.set(self, g.target, x, e)
                if not rec(gi + 1):
                    return False
            return True

        try:
            ok = rec(0)
        finally:
            b.restore()
        return out if ok else None

    def comp_map(self, st, e):
        """[elt for target in <list | zip(list, list) | range(n)>] with symbolic length: lambda array."""
        ctx = self.ctx
        if len(e.generators) != 1:
            raise Unsupported("nested comprehension over sequences of unknown length", e)
        g = e.generators[0]
        it = g.iter
        lens = ctx.field_array(st, "len", AII)
        k = ctx.fresh("ck")
        srcs = None

        def direct(bs, lst):
            # element k of lst, 0 <= k < len by construction: no index obligation, no negative-index normalisation
            v = ctx.field_array(bs, "elem", AIA)[lst.z][k]
            sub = (lst.x or "list:int").split(":", 1)[1] if ":" in (lst.x or "") else "int"
            if sub == "int":
                return mk_int(v)
            if sub == "bool":
                return S.mk_bool(v != 0)
            return mk_ref(v, sub)

        if isinstance(it, ast.Call) and isinstance(it.func, ast.Name) and it.func.id == "zip" and "zip" not in st.env:
            srcs = [self.ev(st, a) for a in it.args]
            if not all(_is_list(x) for x in srcs):
                raise Unsupported("comprehension over zip of non-lists", e)
            n = lens[srcs[0].z]
            for x in srcs[1:]:
                n = z3.If(lens[x.z] < n, lens[x.z], n)
            for x in srcs:
                ctx.assume(st, lens[x.z] >= 0)
            mkitem = lambda bs: mk_tuple([direct(bs, x) for x in srcs])
        elif isinstance(it, ast.Call) and isinstance(it.func, ast.Name) and it.func.id == "range" and "range" not in st.env and len(it.args) == 1:
            n0 = as_int(ctx, st, self.ev(st, it.args[0]), e)
            n = z3.If(n0 < 0, 0, n0)
            mkitem = lambda bs: mk_int(k)
        else:
            src = self.ev(st, it)
            if not _is_list(src):
                raise Unsupported("comprehension over %s" % src.k, e)
            n = lens[src.z]
            ctx.assume(st, n >= 0)
            mkitem = lambda bs: direct(bs, src)
        body = st.fork(z3.And(k >= 0, k < n))
        before_n, before_alloc = ctx.n, len(ctx.alloc_refs)
        b = _Bind(body)
        try:
            b.set(self, g.target, mkitem(body), e)
            v = self.ev(body, e.elt)
        finally:
            b.restore()
        if body.dead:
            raise Unsupported("comprehension element always raises", e)
        if len(ctx.alloc_refs) != before_alloc:
            raise Unsupported("comprehension element allocates (list of unknown length)", e)
        if not S._same_heap(body, st):
            raise Unsupported("comprehension element has a heap effect", e)
        if v.k == "ref":
            raise Unsupported("comprehension of references over a list of unknown length", e)
        vz = as_int(ctx, st, v, e)
        # every constant created while evaluating the element must not occur in its value (it would be shared by all k)
        made = set("!%d" % i for i in range(before_n + 1, ctx.n + 1))
        if made:
            for sub in _consts_in(vz):
                nm = sub.decl().name()
                if "!" in nm and ("!" + nm.rsplit("!", 1)[1]) in made:
                    raise Unsupported("comprehension element depends on a value that is not a function of the index", e)
        lam = z3.Lambda([k], vz)
        r = self.alloc_ref(st, "list")
        ctx.set_field_array(st, "len", z3.Store(ctx.field_array(st, "len", AII), r, n))
        el = ctx.field_array(st, "elem", AIA)
        ctx.set_field_array(st, "elem", z3.Store(el, r, lam))
        return mk_ref(r, "list:int")

    def ev_ListComp(self, st, e):
        items = comp_items(self, st, e)
        if items is not None:
            return self.alloc_list(st, items, e)
        return comp_map(self, st, e)

    def ev_GeneratorExp(self, st, e):
        items = comp_items(self, st, e)
        if items is None:
            raise Unsupported("generator expression over a sequence of unknown length", e)
        return mk_tuple(items)

    Exec.ev_ListComp = ev_ListComp
    Exec.ev_GeneratorExp = ev_GeneratorExp

    # ---- namedtuple field read on a fixed-arity sequence: slice.Y == slice[0] (api.tuple_fields) -----------------------
    base_attr = Exec.ev_Attribute

    def ev_Attribute(self, st, e):
        tf = getattr(self.reg, "tuple_fields", {})
        if e.attr in tf:
            base = self.ev(st, e.value)
            if _is_list(base) and S.fixed_len(base.x) is not None:
                return self.load_elem(st, base, z3.IntVal(tf[e.attr]), e)
            st.env["__attr_base2"] = base
            st.defd["__attr_base2"] = z3.BoolVal(True)
            try:
                e2 = ast.copy_location(ast.Attribute(value=ast.Name(id="__attr_base2", ctx=ast.Load()), attr=e.attr, ctx=ast.Load()), e)
                return base_attr(self, st, e2)
            finally:
                st.env.pop("__attr_base2", None)
                st.defd.pop("__attr_base2", None)
        return base_attr(self, st, e)

    Exec.ev_Attribute = ev_Attribute

    # ---- tuple target <- list of known length ------------------------------------------------------------
    base_assign = Runner.assign_target

    def assign_target(self, st, tgt, val, node):
        if isinstance(tgt, (ast.Tuple, ast.List)) and _is_list(val):
            ctx = self.ctx
            ln = ctx.field_array(st, "len", AII)[val.z]
            ctx.oblige(st, ln == len(tgt.elts), "unpack-arity", node, "sequence unpacked into %d names has exactly %d items" % (len(tgt.elts), len(tgt.elts)))
            ctx.assume(st, ln == len(tgt.elts))
            val = mk_tuple([self.load_elem(st, val, z3.IntVal(i), node) for i in range(len(tgt.elts))])
        return base_assign(self, st, tgt, val, node)

    Runner.assign_target = assign_target


def _consts_in(e):
    seen = set()
    todo = [e]
    while todo:
        x = todo.pop()
        if x.get_id() in seen:
            continue
        seen.add(x.get_id())
        if z3.is_app(x):
            if x.num_args() == 0 and x.decl().kind() == z3.Z3_OP_UNINTERPRETED:
                yield x
            todo.extend(x.children())
        elif z3.is_quantifier(x):
            todo.append(x.body())


def install_calls():
    from . import calls as C

    base_class_call = C.class_call

    def class_call(ex, st, cls, args, kwargs, e):
        if isinstance(cls, type) and issubclass(cls, tuple) and hasattr(cls, "_fields"):
            # namedtuple: an immutable record; modelled as an object with one field per name
            names = list(cls._fields)
            vals = dict(zip(names, args))
            for k, v in kwargs.items():
                if k not in names or k in vals:
                    raise Unsupported("namedtuple constructor argument %s" % k, e)
                vals[k] = v
            if set(vals) != set(names):
                raise Unsupported("namedtuple constructor with missing fields", e)
            r = ex.alloc_ref(st, "obj:" + cls.__name__)
            ref = mk_ref(r, "obj:" + cls.__name__)
            for k in names:
                ex.store_field(st, ref, k, vals[k], e)
            return ref
        return base_class_call(ex, st, cls, args, kwargs, e)

    C.class_call = class_call

    base_do_call = C.do_call

    def do_call(ex, st, e):
        # with_ghost(f, name=value, ...)(args...): a call of f whose contract has ghost parameters
        f = e.func
        if isinstance(f, ast.Call) and isinstance(f.func, ast.Name) and f.func.id == "with_ghost" and "with_ghost" not in st.env:
            ex.pending_ghost = {k.arg: ex.ev(st, k.value) for k in f.keywords}
            e2 = ast.copy_location(ast.Call(func=f.args[0], args=e.args, keywords=e.keywords), e)
            try:
                return base_do_call(ex, st, e2)
            finally:
                ex.pending_ghost = None
        return base_do_call(ex, st, e)

    C.do_call = do_call
    S.GHOST_NAMES.add("with_ghost")

    base_ghost = C.ghost_call

    def ghost_call(ex, st, name, e):
        if name == "mkarray":
            lam = e.args[0]
            if not isinstance(lam, ast.Lambda) or len(lam.args.args) != 1:
                raise Unsupported("mkarray needs a one-argument lambda", e)
            ctx = ex.ctx
            k = ctx.fresh("mk")
            nm = lam.args.args[0].arg
            saved = (st.env.get(nm), st.defd.get(nm))
            st.env[nm] = mk_int(k)
            st.defd[nm] = z3.BoolVal(True)
            try:
                v = ex.ev(st, lam.body)
            finally:
                if saved[0] is None:
                    st.env.pop(nm, None)
                    st.defd.pop(nm, None)
                else:
                    st.env[nm], st.defd[nm] = saved
            return SV("array", z3.Lambda([k], as_int(ctx, st, v, e)))
        if name == "check":
            # ghost assertion (a cut): proved here, then available as a fact
            from .symexec import truth

            saved = ex.ctx.spec_mode
            ex.ctx.spec_mode = True
            try:
                c = truth(ex.ctx, st, ex.ev(st, e.args[0]), e)
            finally:
                ex.ctx.spec_mode = saved
            ex.ctx.oblige(st, c, "ghost-assert", e, "ghost assertion: " + ast.unparse(e.args[0]), force=True)
            ex.ctx.assume(st, c)
            return S.NONE
        return base_ghost(ex, st, name, e)

    C.ghost_call = ghost_call
    S.GHOST_NAMES.add("mkarray")
    S.GHOST_NAMES.add("check")
