"""Contract language: what sidecar files under /verif/contracts import.

Sidecar files are ordinary Python modules.  They are *imported* (so that lemma
functions and contract clauses have a native semantics, used for replaying
counterexamples on the real code and for bounded checks) and their source is
*parsed* (the symbolic semantics).  Nothing here is ever imported by /repo.
"""
import ast
import inspect
import sys

from . import frontend
from .symexec import LEMMAS, SPEC_NATIVE, LemmaSrc, Registry, SpecFun

REG = Registry()
REG.classes = {}
REG.transparent_invariants = {}
REG.builtin_method_effects = {}
REG.opaque_classes = {}
REG.used_opaque = set()
REG.dict_universes = {}
REG.raise_requires = {}
REG.opaque_call_hooks = {}


class PreFail(Exception):
    """Native evaluation: the inputs do not satisfy the precondition (not a counterexample)."""


class ContractViolation(AssertionError):
    """Native evaluation: a contract clause is false on the real code."""


# ---- native ghost runtime ------------------------------------------------


def requires(c):
    if not c:
        raise PreFail()


def ensures(c):
    if not c:
        raise ContractViolation("ensures clause false")


def decreases(m):
    pass


def with_ghost(f, **ghost):
    """Native twin: ghost arguments do not exist at run time."""
    return f


def check(c, msg=None):
    if not c:
        raise ContractViolation("ghost assertion false")


def use(name, *args):
    ar, build, native, grid = LEMMAS[name]
    if not native(*args):
        raise RuntimeError("ground lemma %s false at %r" % (name, args))


def unfold(f, *args):
    pass


def assume_(c):
    if not c:
        raise PreFail()


def cover(c):
    pass


def implies(a, b):
    return (not a) or bool(b)


def ite(c, a, b):
    return a if c else b


def forall(*args, **kw):
    if len(args) == 3:
        lo, hi, f = args
        return all(f(j) for j in range(lo, hi))
    raise RuntimeError("unbounded forall has no native semantics")


def exists(*args, **kw):
    if len(args) == 3:
        lo, hi, f = args
        return any(f(j) for j in range(lo, hi))
    raise RuntimeError("unbounded exists has no native semantics")


def has(d, k):
    return k in d


def store(arr, i, v):
    a = list(arr)
    while len(a) <= i:
        a.append(0)
    a[i] = v
    return a


def define(f):
    pass


class _LazyArr(object):
    """Native twin of the ghost lambda array mkarray(lambda i: e)."""

    def __init__(self, f):
        self.f = f

    def __getitem__(self, i):
        return self.f(i)

    def __eq__(self, other):
        # compared with the content of a list: equal on every index of that list (lengths are stated separately)
        if isinstance(other, (list, tuple)):
            return all(self.f(i) == other[i] for i in range(len(other)))
        return NotImplemented

    __hash__ = None


def mkarray(f):
    return _LazyArr(f)


def is_fresh(x):
    return True


def apply_forall(lem, f, trigger=None):
    pass


def existing_unchanged(name):
    return True


def lo_has(m, level, orient):
    return level in m and orient in m[level]


def lo_row(m, level):
    return level in m


def lo_get(m, level, orient):
    return m[level][orient]


def gval(a, y, x):
    return a[y][x]


def gheight(a):
    return len(a)


def gwidth(a):
    return len(a[0]) if len(a) else 0


def content(f):
    """Bytes of a file-like object / list (native twin of the ghost view)."""
    if hasattr(f, "getvalue"):
        return f.getvalue()
    return list(f)


def elems(x):
    return list(x)


def fpos(f):
    return f.tell()


def flen(f):
    return len(f.getvalue())


def length(x):
    return len(x)


def field(obj, name):
    return getattr(obj, name)


pow2 = SPEC_NATIVE["pow2"]
blen = SPEC_NATIVE["blen"]
bitof = SPEC_NATIVE["bitof"]
band = SPEC_NATIVE["band"]
bor = SPEC_NATIVE["bor"]


# ---- declarations ----------------------------------------------------------


def fields(**kw):
    """Declare heap field types: int bool optint str ref:<kind>."""
    for k, v in kw.items():
        if REG.fields.get(k, v) != v:
            raise RuntimeError("conflicting type for field %s" % k)
        REG.fields[k] = v


def none_sentinel(obj):
    """A sentinel object that an optional-int field may hold instead of an integer: modelled as the None of `optint`."""
    if not hasattr(REG, "none_sentinels"):
        REG.none_sentinels = []
    REG.none_sentinels.append(obj)


def tuple_fields(**kw):
    """Names of the positions of fixed-arity sequence types (namedtuples): slice.Y is slice[0]."""
    if not hasattr(REG, "tuple_fields"):
        REG.tuple_fields = {}
    REG.tuple_fields.update(kw)


def fields_dict(d):
    fields(**d)


def transparent(*fqs):
    for fq in fqs:
        REG.transparent.add(fq)


def _sidecar_of(fn):
    mod = sys.modules[fn.__module__]
    return mod


_SIDE_AST = {}


def _module_funcdefs(mod):
    if mod.__name__ not in _SIDE_AST:
        src = inspect.getsource(mod)
        tree = ast.parse(src)
        _SIDE_AST[mod.__name__] = {n.name: n for n in tree.body if isinstance(n, ast.FunctionDef)}
        for n in tree.body:
            if isinstance(n, ast.ClassDef):
                _SIDE_AST[mod.__name__]["class:" + n.name + ":" + str(n.lineno)] = n
    return _SIDE_AST[mod.__name__]


def _ann(a):
    if a.annotation is None:
        return "int"
    if isinstance(a.annotation, ast.Constant):
        return a.annotation.value
    return ast.unparse(a.annotation)


def lemma(fn):
    mod = _sidecar_of(fn)
    node = _module_funcdefs(mod)[fn.__name__]
    params = [(a.arg, _ann(a)) for a in node.args.args]
    ls = LemmaSrc(fn.__name__, node, mod.__name__, mod.__file__, params)
    ls.sidecar_globals = mod.__dict__
    ls.native = fn
    REG.lemmas[fn.__name__] = ls
    fn.__lemma__ = ls
    return fn


class _Lazy(ast.NodeTransformer):
    """Native semantics: implies(a, b) and ite(c, a, b) must not evaluate the operand that is not needed."""

    def visit_Call(self, node):
        self.generic_visit(node)
        if isinstance(node.func, ast.Name) and node.func.id == "implies" and len(node.args) == 2:
            return ast.BoolOp(op=ast.Or(), values=[ast.UnaryOp(op=ast.Not(), operand=node.args[0]), node.args[1]])
        if isinstance(node.func, ast.Name) and node.func.id == "ite" and len(node.args) == 3:
            return ast.IfExp(test=node.args[0], body=node.args[1], orelse=node.args[2])
        return node


def lazy_expr(node):
    import copy as _copy

    return ast.fix_missing_locations(_Lazy().visit(_copy.deepcopy(node)))


def _native_twin(fn, node, mod):
    """The same function with lazily evaluated implies/ite, compiled in the sidecar module's namespace."""
    import copy as _copy

    n2 = _copy.deepcopy(node)
    n2.decorator_list = []
    n2 = _Lazy().visit(n2)
    for a in n2.args.args:
        a.annotation = None
    m = ast.Module(body=[n2], type_ignores=[])
    ast.fix_missing_locations(m)
    ns = {}
    exec(compile(m, mod.__file__ or "<sidecar>", "exec"), mod.__dict__, ns)
    twin = ns[fn.__name__]
    twin.__module__ = fn.__module__
    return twin


def inline(fn):
    """A sidecar helper whose body is inlined symbolically (like a transparent real function)."""
    mod = _sidecar_of(fn)
    node = _module_funcdefs(mod)[fn.__name__]
    twin = _native_twin(fn, node, mod)
    twin.__pyvc_inline__ = (node, mod)
    return twin


def specfun(fn):
    mod = _sidecar_of(fn)
    node = _module_funcdefs(mod)[fn.__name__]
    params = [(a.arg, _ann(a)) for a in node.args.args]
    sf = SpecFun(fn.__name__, node, mod.__name__, params)
    sf.native = fn
    REG.specfuns[fn.__name__] = sf
    fn.__specfun__ = sf
    return fn


class Contract(object):
    def __init__(self, fq, cls, mod):
        self.fq = fq
        self.short = fq.split(".")[-1] if "." in fq else fq
        try:
            self.module = frontend.get_function(fq).module
        except frontend.NoSource:
            # no analysable def (see frontend.NoSource): the unit is reported UNPROVED, its native contract check still runs
            self.module = frontend.module_prefix(fq)
        self.sidecar_globals = mod.__dict__
        self.sidecar = mod.__name__
        g = lambda k, d: getattr(cls, k, d)
        self.args = dict(g("args", {}))
        self.result = g("result", None)
        self.requires = [_parse(s) for s in g("requires", [])]
        self.ensures = [_parse(s) for s in g("ensures", [])]
        # postconditions assumed at call sites but NOT verified against the body: each needs a stated reason
        # and is listed among the assumptions in the evidence
        self.assumed_ensures = [(_parse(s), why) for (s, why) in g("assumed_ensures", [])]
        self.modifies = [_parse(s) for s in g("modifies", [])]
        self.invariants = {k: [_parse(s) for s in v] for k, v in g("invariants", {}).items()}
        self.raises = []
        raises = g("raises", {})
        for name, cond in raises.items():
            self.raises.append((name, None, _parse(cond) if cond else None))
        rx = g("raises_exact", False)
        # raises_exact: True = every class with a condition is raised IF AND ONLY IF its condition holds;
        # a list of class names = only those; a condition on a class not listed is "raised ONLY IF"
        self.raises_exact_names = None if rx is True else (set(rx) if rx else set())
        self.raises_exact = bool(rx)
        self.trusted = g("trusted", None)  # reason string: contract assumed, body not verified
        # bounded_ensures: postconditions that are only checked natively (bounded stand-in), never assumed at call sites and
        # never counted as proved; bounded_only: reason string - the body is outside the verified subset, the whole contract
        # is checked natively only
        # ghost_params: {name: type} - extra, specification-only parameters.  In the verification of the body they are arbitrary
        # values (universally quantified); a caller supplies them with  with_ghost(f, name=value)(args...)
        self.ghost_params = dict(g("ghost_params", {}))
        self.bounded_ensures = [_parse(s) for s in g("bounded_ensures", [])]
        self.bounded_only = g("bounded_only", None)
        self.ghost = {k: [_parse(x) for x in v] for k, v in g("ghost", {}).items()}
        self.str_domains = dict(g("str_domains", {}))
        self.split_on = list(g("split_on", []))
        # arg_cases: [{param: type}, ...] - the body is verified once per case with these parameter types (e.g. a
        # sequence parameter as a tuple of 2 and of 3 records); the requires clauses must restrict callers to the cases
        self.arg_cases = list(g("arg_cases", []))
        self.split_loops = list(g("split_loops", []))
        self.split_body = bool(g("split_body", False))
        self.properties = g("properties", [])

    def resolve_classes(self):
        out = []
        for (name, _, cond) in self.raises:
            if name.startswith("@"):
                out.append((name, None, cond))  # the class passed as that parameter
                continue
            cls = self.sidecar_globals.get(name)
            if cls is None:
                try:
                    cls = frontend.resolve_name(self.module, name)
                except KeyError:
                    import builtins

                    cls = getattr(builtins, name)
            out.append((name, cls, cond))
        self.raises = out


def is_exact(contract, name):
    return contract.raises_exact and (contract.raises_exact_names is None or name in contract.raises_exact_names)


def _parse(s):
    return (s, ast.parse(s.strip(), mode="eval").body)


def spec(fq):
    def deco(cls):
        mod = sys.modules[cls.__module__]
        c = Contract(fq, cls, mod)
        c.resolve_classes()
        REG.contracts[fq] = c
        return cls

    return deco


def register_class(name, fq):
    REG.classes[name] = fq


def opaque_class(fq, kind, reason):
    """Instances are opaque objects; their methods are given trusted models (listed in the evidence)."""
    REG.opaque_classes[fq] = kind
    REG.opaque_calls[fq] = reason


def raise_requires(exc_class, predicate, why):
    """Precondition of constructing/raising exc_class(a0, a1, ...): checked at every raise site in verified code.
    Used for what the exception's explain()/bitstream_viewer_hint() need of its arguments (C02, second sentence)."""
    import sys as _sys

    mod = _sys.modules[_sys._getframe(1).f_globals["__name__"]]
    REG.raise_requires.setdefault(exc_class, []).append((_parse(predicate), mod.__dict__, why))


def dict_universe(clsname, keys):
    REG.dict_universes[clsname] = list(keys)
