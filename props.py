"""Which sidecar modules / bounded checks decide which property."""

PROPS = {
    "C12": dict(
        modules=["c12_quantization"],
        level="proof",
        assumptions=[
            "the quantisation index is >= 0 (the bitstream can only express non-negative indices)",
        ],
        manifest=dict(
            category="proof",
            technique="contract-based deductive verification: VCs generated from the real source of quantization.py/vc2_math.sign by pyvc, discharged by z3",
            text="For ALL integers c and ALL indices i >= 0 (unbounded): sign preservation, |dequant(quant(c)) - c| < quant_factor/4, index 0 lossless, "
                 "quant_factor >= 4 and strictly increasing, inverse_quant(1, i) strictly increasing from MINIMUM_DISTINCT_QINDEX (read live). The bodies of "
                 "forward_quant/inverse_quant/quant_factor/quant_offset/sign are re-read from /repo and symbolically executed on every run, including their "
                 "implicit safety obligations (no zero divisor, no None arithmetic from a fall-through return).",
            note="Trusted: pyvc VC generator, z3; pow2 facts used as ground lemmas (each checked natively on a grid every run). Nothing of the statement is left uncovered.",
        ),
    ),
}
