"""C11 - forward and inverse wavelet transforms reconstruct exactly (1-D lifting core).

lift1..lift4 (picture_decoding.py) are verified against quantified contracts for every even length,
every L, D, taps, S >= 0 and every integer content.  wsum is the clamped weighted sum the lifting
steps compute; it only reads positions of one parity, which is what makes a lifting step invertible
by the step of the opposite sign (lemmas inverse_*).  The per-filter round trips unroll the stage
tuples of the live LIFTING_FILTERS table through the real oned_synthesis / oned_analysis.
"""
from pyvc.api import *
from pyvc import models  # noqa: F401
from vc2_data_tables import LIFTING_FILTERS, WaveletFilters
from vc2_conformance.pseudocode.picture_decoding import lift1, lift2, lift3, lift4, oned_synthesis, SYNTHESIS_LIFTING_FUNCTION_TYPES
from vc2_conformance.pseudocode.picture_encoding import oned_analysis, ANALYSIS_LIFTING_FUNCTION_TYPES

PD = "vc2_conformance.pseudocode.picture_decoding."
PE = "vc2_conformance.pseudocode.picture_encoding."

transparent(PD + "oned_synthesis", PE + "oned_analysis")


@inline
def clampi(p, lo, hi):
    """max(min(p, hi), lo) as the lifting loops compute it."""
    q = p if p < hi else hi
    return q if q > lo else lo


@specfun
def wsum(c: "array", n_len, taps: "array", D, n, k, odd):
    """Sum over the first k taps of taps[t] * c[clamped position], positions 2*(n+D+t) - odd clamped to the
    odd range [1, len-1] (odd == 1: lift1/lift2) or the even range [0, len-2] (odd == 0: lift3/lift4)."""
    return 0 if k <= 0 else (wsum(c, n_len, taps, D, n, k - 1, odd)
                             + taps[k - 1] * c[clampi(2 * (n + D + k - 1) - odd, odd, n_len - 2 + odd)])


@inline
def rnd(S):
    return pow2(S - 1) if S > 0 else 0


@specfun
def step(c: "array", n_len, taps: "array", D, L, S, n, odd):
    """The amount a lifting step adds to / subtracts from the n-th updated position: the rounded, shifted weighted sum
    of its clamped neighbours.  Kept opaque (unfolded only where a lift function's body is verified), so the
    round-trip lemmas reason about it as an uninterpreted term and never see the division."""
    return (wsum(c, n_len, taps, D, n, L, odd) + rnd(S)) // pow2(S)


@inline
def same_parity(c1, c2, n_len, par):
    """The two sequences agree on every index of parity `par` below n_len."""
    return forall(0, n_len, lambda j: implies(j % 2 == par, c1[j] == c2[j]), trigger=lambda j: c1[j])


@lemma
def wsum_ext(c1: "array", c2: "array", n_len: int, taps: "array", D: int, n: int, k: int, odd: int):
    """wsum only reads positions of parity `odd` inside [0, n_len)."""
    requires(n_len >= 2 and n_len % 2 == 0 and (odd == 0 or odd == 1))
    requires(same_parity(c1, c2, n_len, odd))
    ensures(wsum(c1, n_len, taps, D, n, k, odd) == wsum(c2, n_len, taps, D, n, k, odd))
    decreases(k if k > 0 else 0)
    unfold(wsum, c1, n_len, taps, D, n, k, odd)
    unfold(wsum, c2, n_len, taps, D, n, k, odd)
    if k > 0:
        wsum_ext(c1, c2, n_len, taps, D, n, k - 1, odd)


@lemma
def step_ext(c1: "array", c2: "array", n_len: int, taps: "array", D: int, L: int, S: int, n: int, odd: int):
    """step only reads positions of parity `odd` inside [0, n_len)."""
    requires(n_len >= 2 and n_len % 2 == 0 and (odd == 0 or odd == 1))
    requires(same_parity(c1, c2, n_len, odd))
    ensures(step(c1, n_len, taps, D, L, S, n, odd) == step(c2, n_len, taps, D, L, S, n, odd))
    unfold(step, c1, n_len, taps, D, L, S, n, odd)
    unfold(step, c2, n_len, taps, D, L, S, n, odd)
    wsum_ext(c1, c2, n_len, taps, D, n, L, odd)


LIFT_ARGS = {"A": "list:int", "L": "int", "D": "int", "taps": "list:int", "S": "int"}
LIFT_PRE = ["length(A) % 2 == 0 and length(A) >= 0", "L >= 0 and S >= 0 and length(taps) >= L", "A != taps"]


def _lift_contract(name, odd, sign):
    upd = 0 if odd == 1 else 1  # parity of the positions that are updated
    cls = type("_" + name, (), dict(
        args=dict(LIFT_ARGS),
        requires=list(LIFT_PRE),
        modifies=["elems(A)"],
        raises={},
        ensures=[
            "length(A) == old(length(A))",
            # positions of the other parity are untouched
            "same_parity(content(A), old(content(A)), length(A), %d)" % odd,
            # every updated position gets +/- the rounded, shifted weighted sum of its (unchanged) neighbours
            "forall(0, length(A), lambda j: implies(j %% 2 == %d, content(A)[j] == old(content(A))[j] %s "
            "step(old(content(A)), length(A), content(taps), D, L, S, j // 2, %d)), trigger=lambda j: content(A)[j])" % (upd, sign, odd),
        ],
        invariants={
            1: [
                # (explicit although a for-range loop gives it for free: keeps the proof when the loop is rewritten as a while loop)
                "0 <= n and n <= length(A) // 2",
                "length(A) == old(length(A))",
                "same_parity(content(A), old(content(A)), length(A), %d)" % odd,
                "forall(0, length(A), lambda j: implies(j %% 2 == %d and j // 2 < n, content(A)[j] == old(content(A))[j] %s "
                "step(old(content(A)), length(A), content(taps), D, L, S, j // 2, %d)), trigger=lambda j: content(A)[j])" % (upd, sign, odd),
                "forall(0, length(A), lambda j: implies(j %% 2 == %d and j // 2 >= n, content(A)[j] == old(content(A))[j]), trigger=lambda j: content(A)[j])" % upd,
            ],
            2: [
                "D <= i and i <= L + D",
                "sum == wsum(old(content(A)), length(A), content(taps), D, n, i - D, %d)" % odd,
            ],
        },
        ghost={
            "loop2.before": ["unfold(wsum, old(content(A)), length(A), content(taps), D, n, 0, %d)" % odd],
            "loop2.body_end": ["unfold(wsum, old(content(A)), length(A), content(taps), D, n, i - D + 1, %d)" % odd],
            "loop1.body_end": ["unfold(step, old(content(A)), length(A), content(taps), D, L, S, n, %d)" % odd],
        },
    ))
    cls.__module__ = __name__
    spec(PD + name)(cls)


_lift_contract("lift1", 1, "+")
_lift_contract("lift2", 1, "-")
_lift_contract("lift3", 0, "+")
_lift_contract("lift4", 0, "-")


# ---- a lifting step is undone by the step of the opposite sign -------------------------------------------


@lemma
def inverse_even(A: "list:int", L: int, D: int, taps: "list:int", S: int, add_first: bool):
    """lift2 after lift1 (or lift1 after lift2) restores the sequence, for any L, D, taps, S."""
    requires(length(A) % 2 == 0 and length(A) >= 0 and L >= 0 and S >= 0 and length(taps) >= L and A != taps)
    c0 = content(A)
    n_len = length(A)
    if add_first:
        lift1(A, L, D, taps, S)
    else:
        lift2(A, L, D, taps, S)
    c1 = content(A)
    if add_first:
        lift2(A, L, D, taps, S)
    else:
        lift1(A, L, D, taps, S)
    c2 = content(A)
    assert length(A) == n_len
    if n_len >= 2:
        # the second step computes its sums from c1, whose odd entries equal c0's
        apply_forall(step_ext, lambda m: (c1, c0, n_len, content(taps), D, L, S, m, 1), trigger=lambda m: step(c1, n_len, content(taps), D, L, S, m, 1))
    assert forall(0, n_len, lambda j: c2[j] == c0[j], trigger=lambda j: c2[j]), "C11.lifting-step-inverse (even positions)"


@lemma
def inverse_odd(A: "list:int", L: int, D: int, taps: "list:int", S: int, add_first: bool):
    """lift4 after lift3 (or lift3 after lift4) restores the sequence."""
    requires(length(A) % 2 == 0 and length(A) >= 0 and L >= 0 and S >= 0 and length(taps) >= L and A != taps)
    c0 = content(A)
    n_len = length(A)
    if add_first:
        lift3(A, L, D, taps, S)
    else:
        lift4(A, L, D, taps, S)
    c1 = content(A)
    if add_first:
        lift4(A, L, D, taps, S)
    else:
        lift3(A, L, D, taps, S)
    c2 = content(A)
    assert length(A) == n_len
    if n_len >= 2:
        apply_forall(step_ext, lambda m: (c1, c0, n_len, content(taps), D, L, S, m, 0), trigger=lambda m: step(c1, n_len, content(taps), D, L, S, m, 0))
    assert forall(0, n_len, lambda j: c2[j] == c0[j], trigger=lambda j: c2[j]), "C11.lifting-step-inverse (odd positions)"


# ---- per-filter round trips over the live LIFTING_FILTERS table ---------------------------------------------
# oned_analysis applies reversed(stages) with the ANALYSIS function types, oned_synthesis applies stages in order
# with the SYNTHESIS function types (certified for all 7 filters by the call-trace ground fact in
# bounded/c11_transform.py).  rt(A, w, j) makes exactly those calls for stages j..0 and proves, stage by stage from the
# outside in, that the sequence is restored: analysis stage j; (inner round trip); synthesis stage j.


@lemma
def stage_inverse(c0: "array", c1: "array", c1b: "array", c2: "array", n_len: int, taps: "array", D: int, L: int, S: int, odd: int, first_adds: bool):
    """Pure-array form of 'a lifting step is undone by the opposite-sign step, whatever happened in between, as long
    as the sequence was restored in between': c0 -step-> c1 ~ c1b -opposite step-> c2 implies c2 == c0 on [0, n_len).
    The hypotheses are exactly the postconditions of lift1..lift4 (first_adds: the first step is the adding one)."""
    requires(n_len >= 2 and n_len % 2 == 0 and (odd == 0 or odd == 1))
    requires(same_parity(c1, c0, n_len, odd))
    requires(forall(0, n_len, lambda j: implies(j % 2 == 1 - odd, c1[j] == c0[j] + (step(c0, n_len, taps, D, L, S, j // 2, odd) if first_adds
                                                                                     else 0 - step(c0, n_len, taps, D, L, S, j // 2, odd))), trigger=lambda j: c1[j]))
    requires(forall(0, n_len, lambda q: c1b[q] == c1[q], trigger=lambda q: c1b[q]))
    requires(same_parity(c2, c1b, n_len, odd))
    requires(forall(0, n_len, lambda j: implies(j % 2 == 1 - odd, c2[j] == c1b[j] + (0 - step(c1b, n_len, taps, D, L, S, j // 2, odd) if first_adds
                                                                                      else step(c1b, n_len, taps, D, L, S, j // 2, odd))), trigger=lambda j: c2[j]))
    ensures(forall(0, n_len, lambda q: c2[q] == c0[q], trigger=lambda q: c2[q]))
    apply_forall(step_ext, lambda m: (c1b, c1, n_len, taps, D, L, S, m, odd), trigger=lambda m: step(c1b, n_len, taps, D, L, S, m, odd))
    apply_forall(step_ext, lambda m: (c1, c0, n_len, taps, D, L, S, m, odd), trigger=lambda m: step(c1, n_len, taps, D, L, S, m, odd))


@inline
def rt_as(A, w, j):
    """analysis of stages j, j-1, ..., 0 followed by synthesis of stages 0, ..., j restores A."""
    if j >= 0:
        stage = LIFTING_FILTERS[w].stages[j]
        taps = list(stage.taps)
        c0 = content(A)
        n_len = length(A)
        first = ANALYSIS_LIFTING_FUNCTION_TYPES[stage.lift_type]
        second = SYNTHESIS_LIFTING_FUNCTION_TYPES[stage.lift_type]
        # the contracts of lift1/lift2 describe steps reading odd positions, lift3/lift4 even positions; lift1/lift3 add
        odd = 1 if (first is lift1 or first is lift2) else 0
        first_adds = first is lift1 or first is lift3
        first(A, stage.L, stage.D, taps, stage.S)
        c1 = content(A)
        rt_as(A, w, j - 1)
        assert forall(0, n_len, lambda q: content(A)[q] == c1[q], trigger=lambda q: content(A)[q]), "inner stages restored"
        c1b = content(A)  # equal to c1 on [0, n_len), possibly a different sequence object beyond
        second(A, stage.L, stage.D, taps, stage.S)
        assert length(A) == n_len
        stage_inverse(c0, c1, c1b, content(A), n_len, content(taps), stage.D, stage.L, stage.S, odd, first_adds)
        assert forall(0, n_len, lambda q: content(A)[q] == c0[q], trigger=lambda q: content(A)[q]), "C11.stage-restored"


@inline
def rt_sa(A, w, j, k):
    """synthesis of stages j, ..., k-1 followed by analysis of stages k-1, ..., j restores A."""
    if j < k:
        stage = LIFTING_FILTERS[w].stages[j]
        taps = list(stage.taps)
        c0 = content(A)
        n_len = length(A)
        first = SYNTHESIS_LIFTING_FUNCTION_TYPES[stage.lift_type]
        second = ANALYSIS_LIFTING_FUNCTION_TYPES[stage.lift_type]
        odd = 1 if (first is lift1 or first is lift2) else 0
        first_adds = first is lift1 or first is lift3
        first(A, stage.L, stage.D, taps, stage.S)
        c1 = content(A)
        rt_sa(A, w, j + 1, k)
        assert forall(0, n_len, lambda q: content(A)[q] == c1[q], trigger=lambda q: content(A)[q]), "inner stages restored"
        c1b = content(A)
        second(A, stage.L, stage.D, taps, stage.S)
        assert length(A) == n_len
        stage_inverse(c0, c1, c1b, content(A), n_len, content(taps), stage.D, stage.L, stage.S, odd, first_adds)
        assert forall(0, n_len, lambda q: content(A)[q] == c0[q], trigger=lambda q: content(A)[q]), "C11.stage-restored"


@lemma
def oned_roundtrip_filter_0(A: "list:int", analysis_first: bool):
    """oned_synthesis(oned_analysis(A, 0), 0) == A == oned_analysis(oned_synthesis(A, 0), 0): any even length, any content."""
    requires(length(A) % 2 == 0 and length(A) >= 2)
    c0 = content(A)
    n_len = length(A)
    if analysis_first:
        rt_as(A, 0, len(LIFTING_FILTERS[0].stages) - 1)
    else:
        rt_sa(A, 0, 0, len(LIFTING_FILTERS[0].stages))
    assert forall(0, n_len, lambda q: content(A)[q] == c0[q], trigger=lambda q: content(A)[q]), "C11.oned-roundtrip filter 0"


@lemma
def oned_roundtrip_filter_1(A: "list:int", analysis_first: bool):
    """oned_synthesis(oned_analysis(A, 1), 1) == A == oned_analysis(oned_synthesis(A, 1), 1): any even length, any content."""
    requires(length(A) % 2 == 0 and length(A) >= 2)
    c0 = content(A)
    n_len = length(A)
    if analysis_first:
        rt_as(A, 1, len(LIFTING_FILTERS[1].stages) - 1)
    else:
        rt_sa(A, 1, 0, len(LIFTING_FILTERS[1].stages))
    assert forall(0, n_len, lambda q: content(A)[q] == c0[q], trigger=lambda q: content(A)[q]), "C11.oned-roundtrip filter 1"


@lemma
def oned_roundtrip_filter_2(A: "list:int", analysis_first: bool):
    """oned_synthesis(oned_analysis(A, 2), 2) == A == oned_analysis(oned_synthesis(A, 2), 2): any even length, any content."""
    requires(length(A) % 2 == 0 and length(A) >= 2)
    c0 = content(A)
    n_len = length(A)
    if analysis_first:
        rt_as(A, 2, len(LIFTING_FILTERS[2].stages) - 1)
    else:
        rt_sa(A, 2, 0, len(LIFTING_FILTERS[2].stages))
    assert forall(0, n_len, lambda q: content(A)[q] == c0[q], trigger=lambda q: content(A)[q]), "C11.oned-roundtrip filter 2"


@lemma
def oned_roundtrip_filter_3(A: "list:int", analysis_first: bool):
    """oned_synthesis(oned_analysis(A, 3), 3) == A == oned_analysis(oned_synthesis(A, 3), 3): any even length, any content."""
    requires(length(A) % 2 == 0 and length(A) >= 2)
    c0 = content(A)
    n_len = length(A)
    if analysis_first:
        rt_as(A, 3, len(LIFTING_FILTERS[3].stages) - 1)
    else:
        rt_sa(A, 3, 0, len(LIFTING_FILTERS[3].stages))
    assert forall(0, n_len, lambda q: content(A)[q] == c0[q], trigger=lambda q: content(A)[q]), "C11.oned-roundtrip filter 3"


@lemma
def oned_roundtrip_filter_4(A: "list:int", analysis_first: bool):
    """oned_synthesis(oned_analysis(A, 4), 4) == A == oned_analysis(oned_synthesis(A, 4), 4): any even length, any content."""
    requires(length(A) % 2 == 0 and length(A) >= 2)
    c0 = content(A)
    n_len = length(A)
    if analysis_first:
        rt_as(A, 4, len(LIFTING_FILTERS[4].stages) - 1)
    else:
        rt_sa(A, 4, 0, len(LIFTING_FILTERS[4].stages))
    assert forall(0, n_len, lambda q: content(A)[q] == c0[q], trigger=lambda q: content(A)[q]), "C11.oned-roundtrip filter 4"


@lemma
def oned_roundtrip_filter_5(A: "list:int", analysis_first: bool):
    """oned_synthesis(oned_analysis(A, 5), 5) == A == oned_analysis(oned_synthesis(A, 5), 5): any even length, any content."""
    requires(length(A) % 2 == 0 and length(A) >= 2)
    c0 = content(A)
    n_len = length(A)
    if analysis_first:
        rt_as(A, 5, len(LIFTING_FILTERS[5].stages) - 1)
    else:
        rt_sa(A, 5, 0, len(LIFTING_FILTERS[5].stages))
    assert forall(0, n_len, lambda q: content(A)[q] == c0[q], trigger=lambda q: content(A)[q]), "C11.oned-roundtrip filter 5"


@lemma
def oned_roundtrip_filter_6(A: "list:int", analysis_first: bool):
    """oned_synthesis(oned_analysis(A, 6), 6) == A == oned_analysis(oned_synthesis(A, 6), 6): any even length, any content."""
    requires(length(A) % 2 == 0 and length(A) >= 2)
    c0 = content(A)
    n_len = length(A)
    if analysis_first:
        rt_as(A, 6, len(LIFTING_FILTERS[6].stages) - 1)
    else:
        rt_sa(A, 6, 0, len(LIFTING_FILTERS[6].stages))
    assert forall(0, n_len, lambda q: content(A)[q] == c0[q], trigger=lambda q: content(A)[q]), "C11.oned-roundtrip filter 6"


