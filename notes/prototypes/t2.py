import z3, time
def prove(name, f, timeout=20000):
    s=z3.Solver(); s.set("timeout",timeout); s.add(z3.Not(f))
    t=time.time(); r=s.check(); print(name, "PROVED" if r==z3.unsat else r, "%.2fs"%(time.time()-t))
    if r==z3.sat: print(s.model())
b=z3.Int('b')
def F(r,b):
    return [4*b,(503829*b+52958)/105917,(665857*b+58854)/117708,(440253*b+32722)/65444][r]
def off(f): return (f+1)/2
def iq1(f): return (f+off(f)+2)/4
for r in range(4):
    f0=F(r,b); f1=F(r+1,b) if r<3 else F(0,2*b)
    prove("qf-mono r=%d"%r, z3.Implies(b>=1, f1>f0))
    lo = 2 if r==3 else 4
    prove("iq1-mono r=%d b>=%d"%(r,lo), z3.Implies(b>=lo, iq1(f1)>iq1(f0)))
    prove("iq1-mono r=%d b>=%d even"%(r,lo), z3.Implies(z3.And(b>=lo,b%2==0), iq1(f1)>iq1(f0)))
