"""C20: exp-Golomb length functions, offset conversion, and the property-level lemmas that tie the
writer's postconditions to both readers' postconditions."""
from pyvc.api import *
from contracts.c20_common import *
from contracts import c20_decoder_io, c20_reader, c20_writer  # noqa: F401
from contracts.c20_writer import eg_len
from vc2_conformance.bitstream.exceptions import OutOfRangeError
from vc2_conformance.bitstream.io import from_bit_offset, to_bit_offset

transparent("vc2_conformance.bitstream.io.to_bit_offset", "vc2_conformance.bitstream.io.from_bit_offset")

EG = "vc2_conformance.bitstream.exp_golomb."


@spec(EG + "exp_golomb_length")
class _eg_len:
    args = {"value": "int"}
    result = "int"
    requires = []
    modifies = []
    raises = {"OutOfRangeError": "value < 0"}
    raises_exact = True
    # the same term the writer's contract uses for the number of bits write_uint appends
    ensures = ["result == eg_len(value)", "result >= 1"]
    ghost = {"entry": ['use("blen_def", value + 1)']}


@spec(EG + "signed_exp_golomb_length")
class _seg_len:
    args = {"value": "int"}
    result = "int"
    requires = []
    modifies = []
    raises = {}
    # the same terms write_sint's contract uses
    ensures = ["result == (1 if value == 0 else eg_len(abs(value)) + 1)"]
    ghost = {"exit": ['use("blen_def", 1)', 'use("pow2_small", 0)', 'use("pow2_small", 1)']}


@lemma
def offsets_roundtrip(b: int, k: int):
    requires(0 <= k and k <= 7)
    t = from_bit_offset(to_bit_offset(b, k))
    assert t[0] == b and t[1] == k, "from_bit_offset(to_bit_offset(b, k)) == (b, k)"


@lemma
def offsets_roundtrip2(n: int):
    t = from_bit_offset(n)
    assert to_bit_offset(t[0], t[1]) == n and 0 <= t[1] and t[1] <= 7, "to_bit_offset(from_bit_offset(n)) == n"


# ---- what the writer wrote, both readers read back (at the same positions) ------------------------
# Both readers' contracts return bitsval / ue_val of *their* tape at *their* position (identical
# clauses in c20_decoder_io and c20_reader), the writer's contracts state the same functions of its
# view, and flush()/seek() state that the file agrees with the view on every written bit.  The
# lemmas below close the gap: the spec functions only depend on the bits the code occupies.


@lemma
def RT_nbits(view: "array", tape: "array", p0: int, n: int, v: int):
    """A tape agreeing with the writer's view on the n written bits yields v = bitsval for any reader."""
    requires(bitsval(view, p0, n) == v)
    requires(forall(p0, p0 + n, lambda q: tbit(tape, q) == tbit(view, q), trigger=lambda q: tbit(tape, q)))
    bitsval_ext(tape, view, p0, n)
    assert bitsval(tape, p0, n) == v, "RT.nbits"


@lemma
def RT_uint(view: "array", tape: "array", p0: int, v: int):
    requires(v >= 0 and ue_pattern(view, p0, v))
    requires(forall(p0, p0 + eg_len(v), lambda q: tbit(tape, q) == tbit(view, q), trigger=lambda q: tbit(tape, q)))
    ue_pattern_ext(tape, view, p0, v)
    ue_pattern_decodes(tape, p0, v)
    assert ue_val(tape, p0, 1) == v, "RT.uint-value"
    assert ue_end(tape, p0) == p0 + eg_len(v), "RT.uint-position"


@lemma
def RT_uint_bounded(view: "array", tape: "array", p0: int, L: int, v: int):
    """Inside a bounded block that the code fits into, the bounded readers decode the same value."""
    requires(v >= 0 and ue_pattern(view, p0, v) and p0 + eg_len(v) <= L)
    requires(forall(p0, p0 + eg_len(v), lambda q: tbit(tape, q) == tbit(view, q), trigger=lambda q: tbit(tape, q)))
    ue_pattern_ext(tape, view, p0, v)
    ueb_pattern_decodes(tape, p0, L, v)
    assert ueb_val(tape, p0, L, 1) == v, "RT.uintb-value"
    assert ueb_end(tape, p0, L) == p0 + eg_len(v), "RT.uintb-position"
