import io as _io, struct, sys
sys.path.insert(0,'/repo/tests')
from sample_codec_features import MINIMAL_CODEC_FEATURES as CF
from vc2_conformance.bitstream import Stream
from vc2_conformance.bitstream.vc2_autofill import autofill_and_serialise_stream
from vc2_conformance.encoder import make_sequence
from vc2_conformance import picture_generators as pg
import vc2_conformance.decoder as dec
from vc2_conformance.pseudocode.state import State
pics=list(pg.mid_gray(CF["video_parameters"], CF["picture_coding_mode"]))
seq=make_sequence(CF, pics)
# set picture's next_parse_offset to 0 explicitly
names=[d["parse_info"]["parse_code"].name for d in seq["data_units"]]
print(names)
for d in seq["data_units"]:
    if "picture" in d["parse_info"]["parse_code"].name:
        d["parse_info"]["next_parse_offset"]=0
f=_io.BytesIO(); autofill_and_serialise_stream(f, Stream(sequences=[seq])); b=bytearray(f.getvalue())
def run(b):
    st=State(); dec.init_io(st, _io.BytesIO(bytes(b)))
    try:
        dec.parse_stream(st); print("ACCEPT")
    except dec.ConformanceError as e:
        print("ConformanceError", type(e).__name__)
    except Exception as e:
        print("OTHER", type(e).__name__, repr(e))
run(b)
# corrupt the last parse_info's previous_parse_offset (last 4 bytes)
b2=bytearray(b); b2[-1]^=1
run(b2)
