"""C20: shared ghost definitions - the bit tape, fixed-width values and exp-Golomb decoding as
functions of the tape (unbounded, and inside a bounded block with limit L)."""
from pyvc.api import *
from pyvc import models  # noqa: F401  (trusted library models)

# ---- ghost views ---------------------------------------------------------------


@specfun
def tbit(c: "array", p):
    """Bit p of the tape whose bytes are c (MSB first).  Uninterpreted in the VCs except where unfolded."""
    return bitof(c[p // 8], 7 - p % 8)


@specfun
def bitsval(c: "array", p, n):
    """Value of the n tape bits starting at p, MSB first."""
    return 0 if n <= 0 else 2 * bitsval(c, p, n - 1) + tbit(c, p + n - 1)


# unsigned interleaved exp-Golomb decoding as a function of the tape:
#   ue_val(c, p, acc): the value read_uint returns when started at p with accumulator acc
#   ue_end(c, p):      the tape position just after the code that starts at p


@specfun
def ue_val(c: "array", p, acc):
    return acc - 1 if tbit(c, p) == 1 else ue_val(c, p + 2, 2 * acc + tbit(c, p + 1))


@specfun
def ue_end(c: "array", p):
    return p + 1 if tbit(c, p) == 1 else ue_end(c, p + 2)



# ---- bounded blocks: the virtual tape reads 1 at and beyond the block limit L, where the position freezes


@inline
def imin(a, b):
    return a if a < b else b


@inline
def vbit(c, p, L):
    return tbit(c, p) if p < L else 1


@specfun
def ueb_val(c: "array", p, L, acc):
    return acc - 1 if vbit(c, p, L) == 1 else ueb_val(c, imin(p + 2, L), L, 2 * acc + vbit(c, imin(p + 1, L), L))


@specfun
def ueb_end(c: "array", p, L):
    return imin(p + 1, L) if vbit(c, p, L) == 1 else ueb_end(c, imin(p + 2, L), L)


