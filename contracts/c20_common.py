"""C20: shared ghost definitions - the bit tape, fixed-width values and exp-Golomb decoding as
functions of the tape (unbounded, and inside a bounded block with limit L)."""
from pyvc.api import *
from pyvc import models  # noqa: F401  (trusted library models)

# ---- ghost views ---------------------------------------------------------------


@specfun
def tbit(c: "array", p):
    """Bit p of the tape whose bytes are c (MSB first).  Uninterpreted in the VCs except where unfolded."""
    return bitof(c[p // 8], 7 - p % 8)


@specfun
def bitsval(c: "array", p, n):
    """Value of the n tape bits starting at p, MSB first."""
    return 0 if n <= 0 else 2 * bitsval(c, p, n - 1) + tbit(c, p + n - 1)


# unsigned interleaved exp-Golomb decoding as a function of the tape:
#   ue_val(c, p, acc): the value read_uint returns when started at p with accumulator acc
#   ue_end(c, p):      the tape position just after the code that starts at p


@specfun
def ue_val(c: "array", p, acc):
    return acc - 1 if tbit(c, p) == 1 else ue_val(c, p + 2, 2 * acc + tbit(c, p + 1))


@specfun
def ue_end(c: "array", p):
    return p + 1 if tbit(c, p) == 1 else ue_end(c, p + 2)



# ---- bounded blocks: the virtual tape reads 1 at and beyond the block limit L, where the position freezes


@inline
def imin(a, b):
    return a if a < b else b


@inline
def vbit(c, p, L):
    return tbit(c, p) if p < L else 1


@specfun
def ueb_val(c: "array", p, L, acc):
    return acc - 1 if vbit(c, p, L) == 1 else ueb_val(c, imin(p + 2, L), L, 2 * acc + vbit(c, imin(p + 1, L), L))


@specfun
def ueb_end(c: "array", p, L):
    return imin(p + 1, L) if vbit(c, p, L) == 1 else ueb_end(c, imin(p + 2, L), L)




@specfun
def bitsvalb(c: "array", p, L, n):
    """Value of n bits read from p inside a bounded block ending at L (1s at and past L)."""
    return 0 if n <= 0 else 2 * bitsvalb(c, p, L, n - 1) + vbit(c, p + n - 1, L)


@inline
def imax0(a):
    return a if a > 0 else 0


# ---- the spec functions depend only on the tape bits they cover (extensionality lemmas) ----------


@lemma
def bitsval_ext(c1: "array", c2: "array", p: int, n: int):
    requires(forall(p, p + n, lambda q: tbit(c1, q) == tbit(c2, q), trigger=lambda q: tbit(c1, q)))
    ensures(bitsval(c1, p, n) == bitsval(c2, p, n))
    decreases(imax0(n))
    unfold(bitsval, c1, p, n)
    unfold(bitsval, c2, p, n)
    if n > 0:
        bitsval_ext(c1, c2, p, n - 1)


# ---- the bit pattern write_uint produces, as a predicate on the tape, and what it decodes to ------


@specfun
def pairs_ok(c: "array", p, V, n, k):
    """1 iff the first k (0, x) pairs at p spell the bits of V (which has n bits) below its leading 1."""
    return 1 if k <= 0 else (1 if (pairs_ok(c, p, V, n, k - 1) == 1 and tbit(c, p + 2 * (k - 1)) == 0
                                   and tbit(c, p + 2 * (k - 1) + 1) == bitof(V, n - 1 - k)) else 0)


@lemma
def pairs_ok_ext(c1: "array", c2: "array", p: int, V: int, n: int, k: int):
    requires(forall(p, p + 2 * k, lambda q: tbit(c1, q) == tbit(c2, q), trigger=lambda q: tbit(c1, q)))
    ensures(pairs_ok(c1, p, V, n, k) == pairs_ok(c2, p, V, n, k))
    decreases(imax0(k))
    unfold(pairs_ok, c1, p, V, n, k)
    unfold(pairs_ok, c2, p, V, n, k)
    if k > 0:
        pairs_ok_ext(c1, c2, p, V, n, k - 1)


@lemma
def pairs_decode(c: "array", p: int, V: int, n: int, k: int):
    """Decoding the first k pairs leaves the accumulator at the top k+1 bits of V."""
    requires(V >= 1 and n == blen(V) and 0 <= k and k <= n - 1 and pairs_ok(c, p, V, n, k) == 1)
    ensures(ue_val(c, p, 1) == ue_val(c, p + 2 * k, V // pow2(n - 1 - k)))
    ensures(ue_end(c, p) == ue_end(c, p + 2 * k))
    decreases(k)
    use("blen_def", V)
    unfold(pairs_ok, c, p, V, n, k)
    if k == 0:
        use("div_def", V, pow2(n - 1))
        use("pow2_step", n - 1)
    else:
        pairs_decode(c, p, V, n, k - 1)
        unfold(ue_val, c, p + 2 * (k - 1), V // pow2(n - k))
        unfold(ue_end, c, p + 2 * (k - 1))
        use("bitof_def", V, n - 1 - k)
        use("pow2_small", n - 1 - k)


@inline
def ue_pattern(c, p, v):
    """The tape holds, at p, exactly the bits write_uint(v) produces."""
    return pairs_ok(c, p, v + 1, blen(v + 1), blen(v + 1) - 1) == 1 and tbit(c, p + 2 * (blen(v + 1) - 1)) == 1


@lemma
def ue_pattern_decodes(c: "array", p: int, v: int):
    """Both readers' spec function decodes the written pattern back to v and stops right after it."""
    requires(v >= 0 and ue_pattern(c, p, v))
    ensures(ue_val(c, p, 1) == v)
    ensures(ue_end(c, p) == p + (blen(v + 1) - 1) * 2 + 1)
    use("blen_def", v + 1)
    pairs_decode(c, p, v + 1, blen(v + 1), blen(v + 1) - 1)
    unfold(ue_val, c, p + 2 * (blen(v + 1) - 1), v + 1)
    unfold(ue_end, c, p + 2 * (blen(v + 1) - 1))
    use("pow2_small", 0)


@lemma
def ue_pattern_ext(c1: "array", c2: "array", p: int, v: int):
    requires(v >= 0 and ue_pattern(c2, p, v))
    requires(forall(p, p + (blen(v + 1) - 1) * 2 + 1, lambda q: tbit(c1, q) == tbit(c2, q), trigger=lambda q: tbit(c1, q)))
    ensures(ue_pattern(c1, p, v))
    use("blen_def", v + 1)
    pairs_ok_ext(c1, c2, p, v + 1, blen(v + 1), blen(v + 1) - 1)


@lemma
def pairs_decode_b(c: "array", p: int, L: int, V: int, n: int, k: int):
    """Bounded-block twin of pairs_decode, for codes that lie wholly inside the block."""
    requires(V >= 1 and n == blen(V) and 0 <= k and k <= n - 1 and pairs_ok(c, p, V, n, k) == 1 and p + 2 * k < L)
    ensures(ueb_val(c, p, L, 1) == ueb_val(c, p + 2 * k, L, V // pow2(n - 1 - k)))
    ensures(ueb_end(c, p, L) == ueb_end(c, p + 2 * k, L))
    decreases(k)
    use("blen_def", V)
    unfold(pairs_ok, c, p, V, n, k)
    if k == 0:
        use("div_def", V, pow2(n - 1))
        use("pow2_step", n - 1)
    else:
        pairs_decode_b(c, p, L, V, n, k - 1)
        unfold(ueb_val, c, p + 2 * (k - 1), L, V // pow2(n - k))
        unfold(ueb_end, c, p + 2 * (k - 1), L)
        use("bitof_def", V, n - 1 - k)
        use("pow2_small", n - 1 - k)


@lemma
def ueb_pattern_decodes(c: "array", p: int, L: int, v: int):
    requires(v >= 0 and ue_pattern(c, p, v) and p + (blen(v + 1) - 1) * 2 + 1 <= L)
    ensures(ueb_val(c, p, L, 1) == v)
    ensures(ueb_end(c, p, L) == p + (blen(v + 1) - 1) * 2 + 1)
    use("blen_def", v + 1)
    pairs_decode_b(c, p, L, v + 1, blen(v + 1), blen(v + 1) - 1)
    unfold(ueb_val, c, p + 2 * (blen(v + 1) - 1), L, v + 1)
    unfold(ueb_end, c, p + 2 * (blen(v + 1) - 1), L)
    use("pow2_small", 0)
