"""C04 - lossless encodings reconstruct exactly: the DC-prediction step.

The encoder's apply_dc_prediction (encoder/pictures.py, reverse raster order, subtracts the prediction) must be undone exactly
by the decoder's dc_prediction (decoder/transform_data_syntax.py, raster order, adds the prediction), for every band of any size
and content.  pred(g, y, x) is the prediction of 13.4: the rounded mean of the left, upper-left and upper neighbours, the left
neighbour in the first row, the upper neighbour in the first column, 0 at the origin.

  apply_dc_prediction   new[y][x] == old[y][x] - pred(old, y, x)                       (contract, verified on the real loops)
  dc_prediction         if band == A0 - pred(A0, ., .) pointwise for SOME array A0, then afterwards band == A0
                        (contract with a ghost parameter A0; the induction over raster order is the loop invariant)
  dc_roundtrip          dc_prediction(apply_dc_prediction(band)) == band               (lemma over the two contracts)
"""
from pyvc.api import *
from pyvc import models  # noqa: F401
from vc2_conformance.encoder.pictures import apply_dc_prediction
from vc2_conformance.decoder.transform_data_syntax import dc_prediction

transparent("vc2_conformance.pseudocode.vc2_math.mean", "vc2_conformance.pseudocode.arrays.width", "vc2_conformance.pseudocode.arrays.height")

PROPERTY = "C04"


@inline
def mean3(a, b, c):
    """Integer mean with rounding (5.5.3): (sum + n//2) // n for n = 3."""
    return (a + b + c + 1) // 3


@inline
def pred(g, y, x):
    """(13.4) prediction of g[y][x] from the current content of g."""
    return (mean3(gval(g, y, x - 1), gval(g, y - 1, x - 1), gval(g, y - 1, x)) if (x > 0 and y > 0)
            else (gval(g, 0, x - 1) if x > 0 else (gval(g, y - 1, 0) if y > 0 else 0)))


@inline
def pred_old(g, y, x):
    """(13.4) prediction of g[y][x] from the content g had on entry."""
    return (mean3(old(gval(g, y, x - 1)), old(gval(g, y - 1, x - 1)), old(gval(g, y - 1, x))) if (x > 0 and y > 0)
            else (old(gval(g, 0, x - 1)) if x > 0 else (old(gval(g, y - 1, 0)) if y > 0 else 0)))


@inline
def inside(g, y, x):
    return 0 <= y and y < gheight(g) and 0 <= x and x < gwidth(g)


@spec("vc2_conformance.encoder.pictures.apply_dc_prediction")
class _apply_dc_prediction:
    args = {"band": "grid"}
    requires = []
    modifies = ["gcontent(band)"]
    raises = {}
    ensures = ["forall(lambda y, x: implies(inside(band, y, x), gval(band, y, x) == old(gval(band, y, x)) - pred_old(band, y, x)), trigger=lambda y, x: gval(band, y, x))"]
    invariants = {
        # reverse raster order: rows below the counter are done, the others untouched
        # (the explicit counter ranges keep the proof when a for loop is rewritten as a while loop)
        1: ["-1 <= y and y < gheight(band)",
            "forall(lambda yy, xx: implies(inside(band, yy, xx), gval(band, yy, xx) == old(gval(band, yy, xx)) - (pred_old(band, yy, xx) if yy > y else 0)), "
            "trigger=lambda yy, xx: gval(band, yy, xx))"],
        2: ["-1 <= x and x < gwidth(band) and 0 <= y and y < gheight(band)",
            "forall(lambda yy, xx: implies(inside(band, yy, xx), gval(band, yy, xx) == old(gval(band, yy, xx)) - "
            "(pred_old(band, yy, xx) if (yy > y or (yy == y and xx > x)) else 0)), trigger=lambda yy, xx: gval(band, yy, xx))"],
    }


@spec("vc2_conformance.decoder.transform_data_syntax.dc_prediction")
class _dc_prediction:
    args = {"band": "grid"}
    ghost_params = {"A0": "grid"}
    requires = ["A0 != band and gheight(A0) == gheight(band) and gwidth(A0) == gwidth(band)",
                "forall(lambda y, x: implies(inside(band, y, x), gval(band, y, x) == gval(A0, y, x) - pred(A0, y, x)), trigger=lambda y, x: gval(band, y, x))"]
    modifies = ["gcontent(band)"]
    raises = {}
    ensures = ["forall(lambda y, x: implies(inside(band, y, x), gval(band, y, x) == gval(A0, y, x)), trigger=lambda y, x: gval(band, y, x))"]
    invariants = {
        # raster order: everything before the counter is already the original value, the rest still holds the residual
        1: ["0 <= y and y <= gheight(band)",
            "forall(lambda yy, xx: implies(inside(band, yy, xx), gval(band, yy, xx) == gval(A0, yy, xx) - (0 if yy < y else pred(A0, yy, xx))), "
            "trigger=lambda yy, xx: gval(band, yy, xx))"],
        2: ["0 <= x and x <= gwidth(band) and 0 <= y and y < gheight(band)",
            "forall(lambda yy, xx: implies(inside(band, yy, xx), gval(band, yy, xx) == gval(A0, yy, xx) - "
            "(0 if (yy < y or (yy == y and xx < x)) else pred(A0, yy, xx))), trigger=lambda yy, xx: gval(band, yy, xx))"],
    }


@lemma
def dc_roundtrip(band: "grid", orig: "grid"):
    """The decoder's DC prediction undoes the encoder's, for a band of any size and any integer content."""
    requires(band != orig and gheight(orig) == gheight(band) and gwidth(orig) == gwidth(band))
    requires(forall(lambda y, x: implies(inside(band, y, x), gval(band, y, x) == gval(orig, y, x)), trigger=lambda y, x: gval(band, y, x)))
    apply_dc_prediction(band)
    with_ghost(dc_prediction, A0=orig)(band)
    assert forall(lambda y, x: implies(inside(band, y, x), gval(band, y, x) == gval(orig, y, x)), trigger=lambda y, x: gval(band, y, x)), "C04.dc-roundtrip"
