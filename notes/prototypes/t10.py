import z3,time
z3.set_param("smt.mbqi", False)
I=z3.IntSort(); Ref=z3.DeclareSort('Ref'); AI=z3.ArraySort(I,I)
def check(name,hyps,goal,timeout=30000):
    s=z3.Solver(); s.set("timeout",timeout)
    for h in hyps: s.add(h)
    s.add(z3.Not(goal)); t=time.time(); r=s.check(); print(name,"PROVED" if r==z3.unsat else r,"%.2fs"%(time.time()-t))
# heap: rows of 2-D array 'a': rowref(a, y): Ref ; ielem: Ref -> Array Int Int ; ilen: Ref -> Int
rowref=z3.Function('rowref',I,Ref)      # for the fixed outer list
H,W,lo,hi=z3.Ints('H W lo hi')
ielem0=z3.Const('ielem0',z3.ArraySort(Ref,AI))  # heap at loop entry (outer loop head state)
ielem =z3.Const('ielem', z3.ArraySort(Ref,AI))  # heap at inner loop head
ielem2=z3.Const('ielem2',z3.ArraySort(Ref,AI))  # after body
y,x,yy,xx=z3.Ints('y x yy xx')
wf=[z3.ForAll([yy,xx], z3.Implies(z3.And(0<=yy,yy<H,0<=xx,xx<H,yy!=xx), rowref(yy)!=rowref(xx)), patterns=[z3.MultiPattern(rowref(yy),rowref(xx))]), lo<=hi, H>=0, W>=0]
def inrange(hp,yy,xx): return z3.And(lo<=hp[rowref(yy)][xx], hp[rowref(yy)][xx]<=hi)
def Inv(hp,y,x):  # rows <y fully done; row y done up to x
    return z3.And(0<=y,y<=H,0<=x,x<=W,
        z3.ForAll([yy,xx], z3.Implies(z3.And(0<=yy,yy<y,0<=xx,xx<W), inrange(hp,yy,xx)), patterns=[hp[rowref(yy)][xx]]),
        z3.ForAll([xx], z3.Implies(z3.And(0<=xx,xx<x), inrange(hp,y,xx)), patterns=[hp[rowref(y)][xx]]))
v=ielem[rowref(y)][x]
clipped=z3.If(z3.If(v>lo,v,lo)<hi, z3.If(v>lo,v,lo), hi)
body=ielem2==z3.Store(ielem,rowref(y),z3.Store(ielem[rowref(y)],x,clipped))
check("inner-preserve", wf+[Inv(ielem,y,x), y<H, x<W, body], Inv(ielem2,y,x+1))
check("outer-step", wf+[Inv(ielem,y,W), y<H], Inv(ielem,y+1,0))
