"""C14 bounded stand-in: native checking of the contracts in contracts/c14_encoder.py (see bounded/native_contracts.py)."""
from bounded.native_contracts import make_hook

REGISTER = {"C14": dict(extra=[make_hook(["c14_encoder"])], assumptions=[
    "BOUNDED (not proved): the whole-picture postconditions hq_lossy_picture_ok / ld_lossy_picture_ok (every slice of the returned list, in raster order, has "
    "8-bit length fields, its even share of the bytes, the smallest fitting qindex and exactly the quantised coefficients; HQ total within slice_size_scaler of "
    "picture_bytes) and all of make_transform_data_hq_lossless are checked natively on seeded generated coefficient arrays (see bounded_checks)",
])}
