"""C02 / C01 / C10: ground facts over finite live tables and the trusted models' assumptions, decided by
evaluation in CPython on every run (back end 'eval'), plus a purity scan of the verified validator functions."""
import ast
import itertools


def check(rep, tier, seed):
    from pyvc import frontend

    frontend.ensure_repo_on_path()
    from vc2_data_tables import ParseCodes, Profiles, Levels, PROFILES, QUANTISATION_MATRICES, LEVELS
    from vc2_conformance.level_constraints import LEVEL_SEQUENCE_RESTRICTIONS
    from vc2_conformance.symbol_re import Matcher, WILDCARD, END_OF_SEQUENCE
    from vc2_conformance.pseudocode.state import State
    from vc2_conformance.decoder.transform_data_syntax import initialize_wavelet_data
    from vc2_conformance.pseudocode.slice_sizes import subband_width, subband_height

    names = [m.name for m in ParseCodes]
    # M1: the generic matcher accepts exactly 'sequence_header' first and anything afterwards
    ok = True
    for first in names:
        m = Matcher("sequence_header .* end_of_sequence")
        r = m.match_symbol(first)
        ok &= r == (first == "sequence_header")
    for seq in itertools.product(names, repeat=3):
        m = Matcher("sequence_header .* end_of_sequence")
        ok &= m.match_symbol("sequence_header")
        for s in seq:
            ok &= bool(m.match_symbol(s))
    rep.add_eval_fact("M1: the real Matcher('sequence_header .* end_of_sequence') accepts exactly sequence_header first and then every symbol (all sequences up to length 4)", ok)
    # M3: every symbol the matchers can report names a parse code (getattr(ParseCodes, name) cannot fail)
    ok = True
    for pat in ["sequence_header .* end_of_sequence"] + [r.sequence_restriction_regex for r in LEVEL_SEQUENCE_RESTRICTIONS.values()]:
        for seq in itertools.product(names, repeat=2):
            m = Matcher(pat)
            for s in ("sequence_header",) + seq:
                for v in m.valid_next_symbols():
                    ok &= v in (WILDCARD, END_OF_SEQUENCE) or hasattr(ParseCodes, v)
                if not m.match_symbol(s):
                    break
    rep.add_eval_fact("M3: every symbol valid_next_symbols() reports for the generic and the %d level patterns is WILDCARD, END_OF_SEQUENCE or a ParseCodes name" % len(LEVEL_SEQUENCE_RESTRICTIONS), ok)
    # M4: every level's pattern accepts a sequence header first
    ok = all(Matcher(LEVEL_SEQUENCE_RESTRICTIONS[lv].sequence_restriction_regex).match_symbol("sequence_header") for lv in Levels)
    rep.add_eval_fact("M4: every Levels member has a sequence restriction whose matcher accepts sequence_header first (the assert in parse_parameters)", ok)
    rep.add_eval_fact("G1: every Profiles member is a key of PROFILES and every Levels member a key of LEVEL_SEQUENCE_RESTRICTIONS and LEVELS",
                      all(p in PROFILES for p in Profiles) and all(lv in LEVEL_SEQUENCE_RESTRICTIONS and lv in LEVELS for lv in Levels))
    # G2: each profile allows picture/fragment codes of one class only (what makes slice parameters of a continuation fragment safe)
    ok = True
    for p, params in PROFILES.items():
        classes = set("ld" if (int(c) & 0xF8) == 0xC8 else "hq" for c in params.allowed_parse_codes if (int(c) & 0x88) == 0x88)
        ok &= len(classes) == 1 and (classes == {"ld"}) == (int(p) == 0)
    rep.add_eval_fact("G2: each profile permits picture/fragment parse codes of exactly one class (LD for profile 0, HQ for profile 3)", ok)
    # G4: default quantisation matrices are shaped for their depths (trusted contract of set_quant_matrix)
    ok = True
    for (wi, wiho, d, dh), m in QUANTISATION_MATRICES.items():
        want = {0: {"LL"} if dh == 0 else {"L"}}
        for lv in range(1, dh + 1):
            want[lv] = {"H"}
        for lv in range(dh + 1, dh + d + 1):
            want[lv] = {"HL", "LH", "HH"}
        ok &= set(m.keys()) == set(want) and all(set(m[lv].keys()) == want[lv] for lv in want) and all(isinstance(v, int) for s in m.values() for v in s.values())
    rep.add_eval_fact("G4: every one of the %d default quantisation matrices has exactly the levels/orientations of its (dwt_depth, dwt_depth_ho)" % len(QUANTISATION_MATRICES), ok)
    # trusted contract of initialize_wavelet_data: arrays of subband_height x subband_width for every subband, fresh objects
    ok = True
    n = 0
    for d in range(0, 4):
        for dh in range(0, 4):
            for (lw, lh, cw, ch) in ((1, 1, 1, 1), (7, 5, 4, 3), (16, 9, 8, 9)):
                st = State(luma_width=lw, luma_height=lh, color_diff_width=cw, color_diff_height=ch, dwt_depth=d, dwt_depth_ho=dh)
                for comp in ("Y", "C1", "C2"):
                    out = initialize_wavelet_data(st, comp)
                    n += 1
                    want = {0: ["LL"] if dh == 0 else ["L"]}
                    for lv in range(1, dh + 1):
                        want[lv] = ["H"]
                    for lv in range(dh + 1, dh + d + 1):
                        want[lv] = ["HL", "LH", "HH"]
                    ok &= sorted(out.keys()) == sorted(want)
                    for lv, os_ in want.items():
                        ok &= sorted(out[lv].keys()) == sorted(os_)
                        for o in os_:
                            a = out[lv][o]
                            ok &= len(a) == subband_height(st, lv, comp) and all(len(r) == subband_width(st, lv, comp) for r in a)
                            ok &= len(set(id(r) for r in a)) == len(a)
    rep.add_eval_fact("initialize_wavelet_data builds one subband_height x subband_width array (distinct row objects) per subband: depths 0..3 x 0..3, three sizes, three components (%d calls)" % n, ok)
    # purity scan: the verified validator modules never write module-level state (determinism argument of C10)
    bad = []
    for mod in ("decoder/stream.py", "decoder/sequence_header.py", "decoder/picture_syntax.py", "decoder/fragment_syntax.py",
                "decoder/transform_data_syntax.py", "decoder/assertions.py", "decoder/io.py", "pseudocode/state.py", "pseudocode/video_parameters.py"):
        import os

        path = os.path.join(frontend.REPO, "vc2_conformance", mod)
        tree = ast.parse(open(path).read())
        for node in ast.walk(tree):
            if isinstance(node, (ast.Global, ast.Nonlocal)):
                bad.append("%s:%d global/nonlocal" % (mod, node.lineno))
        for fn in [n_ for n_ in ast.walk(tree) if isinstance(n_, ast.FunctionDef)]:
            for d in fn.args.defaults:
                if isinstance(d, (ast.Dict, ast.List, ast.Set)) or (isinstance(d, ast.Call) and getattr(d.func, "id", "") in ("dict", "list", "set")):
                    bad.append("%s:%d mutable default argument" % (mod, fn.lineno))
    rep.add_eval_fact("purity: no global/nonlocal statement and no mutable default argument in the verified validator modules", not bad, "; ".join(bad))


REGISTER = {
    "C02": dict(extra=[check]),
    "C10": dict(extra=[check]),
    "C01": dict(extra=[check]),
}
