"""C02, second sentence (every reported conformance error can be explained, located and turned into a
bitstream-viewer hint without failing) - BOUNDED stand-in: the real validator is run on the corpus of small
streams (contracts/c02_corpus.py) and on seeded field-aware and byte-level mutations of them; every
ConformanceError is put through exactly what vc2-bitstream-validator does with it.  Also the first sentence
is sampled natively on the same inputs (nothing but ConformanceError may escape).  Never counted as proved."""
import io
import random
from textwrap import dedent


def _mutations(rng, data, n):
    out = []
    for _ in range(n):
        b = bytearray(data)
        r = rng.random()
        if r < 0.3 and b:
            i = rng.randrange(len(b))
            b[i] = rng.randrange(256)
        elif r < 0.5 and b:
            i = rng.randrange(len(b))
            b[i] ^= 1 << rng.randrange(8)
        elif r < 0.65 and len(b) > 1:
            del b[rng.randrange(len(b)):]
        elif r < 0.8 and b:
            # field-aware: overwrite the parse code / offsets of some parse_info header
            idx = [i for i in range(len(b) - 13) if b[i:i + 4] == b"BBCD"]
            if idx:
                i = rng.choice(idx)
                which = rng.choice([4, 5, 6, 7, 8, 9, 10, 11, 12])
                b[i + which] = rng.choice([0x00, 0x10, 0x20, 0x30, 0xC8, 0xE8, 0xCC, 0xEC, 0xFC, 0x0C, 0xFF, rng.randrange(256)])
        elif b:
            i = rng.randrange(len(b))
            b[i:i] = bytes([rng.randrange(256)])
        out.append(bytes(b))
    return out


def check(rep, tier, seed):
    from pyvc import frontend

    frontend.ensure_repo_on_path()
    from contracts import c02_corpus
    from vc2_conformance import decoder
    from vc2_conformance.decoder import io as dio
    from vc2_conformance.pseudocode.state import State
    from vc2_conformance.bitstream.io import to_bit_offset

    rng = random.Random(seed)
    S = c02_corpus._streams()
    per = 150 if tier == "quick" else 2500
    evals = 0
    errors = {}
    accepted = 0
    failed = 0
    samples = []
    names = sorted(S)
    cases = []
    for name in names:
        cases.append((name, S[name]))
        for k, m in enumerate(_mutations(rng, S[name], per)):
            cases.append(("%s~%d" % (name, k), m))
        other = S[rng.choice(names)]
        cases.append((name + "+cat", S[name] + other))
    for (label, data) in cases:
        evals += 1
        state = State()
        try:
            dio.init_io(state, io.BytesIO(data))
            decoder.parse_stream(state)
            accepted += 1
            continue
        except decoder.ConformanceError as e:
            exc = e
        except Exception as e:  # first sentence violated
            failed += 1
            if failed <= 3:
                rep.violation("escape-%d" % failed, {"what": "the validator fails with %s instead of a conformance error" % type(e).__name__,
                                                      "inputs": {"stream_hex": data.hex(), "derived_from": label}, "observed": repr(e)})
            continue
        errors[type(exc).__name__] = errors.get(type(exc).__name__, 0) + 1
        try:
            str(exc)
            text = exc.explain()
            assert isinstance(text, str) and text.strip()
            off = exc.offending_offset()
            if off is None:
                off = to_bit_offset(*dio.tell(state))
            hint = dedent(exc.bitstream_viewer_hint()).strip().format(cmd="vc2-bitstream-viewer", file="stream.vc2", offset=off)
            assert isinstance(hint, str)
            if hasattr(exc, "documentation_section"):
                exc.documentation_section()
        except Exception as e2:
            failed += 1
            if failed <= 3:
                rep.violation("explain-%d" % failed, {"what": "%s cannot be explained/located/turned into a viewer hint: %s" % (type(exc).__name__, type(e2).__name__),
                                                       "inputs": {"stream_hex": data.hex(), "derived_from": label}, "observed": repr(e2)})
        if len(samples) < 4:
            samples.append({"derived_from": label, "bytes": len(data), "verdict": type(exc).__name__})
    rep.add_bounded("validator verdict + explain()/offending_offset()/bitstream_viewer_hint() on corpus streams and mutations",
                    "%d corpus streams x (%d seeded byte-level and parse_info-field mutations + concatenations)" % (len(names), per),
                    evals, False, distinct=len(errors) + (1 if accepted else 0), samples=samples,
                    note="accepted %d; distinct conformance errors reached: %s" % (accepted, ", ".join(sorted(errors))))


REGISTER = {"C02": dict(extra=[check], assumptions=[
    "BOUNDED (not proved): the second sentence of C02 (explain/locate/viewer hint never fail) is sampled on corpus streams and seeded mutations only, "
    "apart from the raise-site preconditions proved deductively"])}
