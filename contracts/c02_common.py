"""C02 / C01 / C10: shared declarations for the validator contracts.

* heap field types of `State` and `VideoParameters`,
* the declared key universe of State (what `reset_state` iterates over; C27 shows no other key can exist),
* trusted models of opaque library objects (Matcher, OrderedDict, constraint-table queries),
* small helpers inlined from their real source (parse-code predicates, version implications, assert_in_enum ...).
"""
from pyvc.api import *
from pyvc import models  # noqa: F401
from pyvc.api import REG
from contracts.c20_decoder_io import dinv, dpos, tape, nbits_total  # noqa: F401  (I/O view of the state)
from contracts import c20_decoder_io  # noqa: F401  (contracts of decoder/io.py are reused as callee contracts)

import z3

from pyvc.symexec import AIB, AII, B, SV, Unsupported, as_int, mk_bool, mk_int, mk_ref, NONE
from vc2_conformance.pseudocode.state import State
from vc2_conformance.pseudocode.video_parameters import VideoParameters

STATE = "dict:State"
VP = "dict:VideoParameters"

dict_universe("State", State.entry_objs.keys())
dict_universe("VideoParameters", VideoParameters.entry_objs.keys())

INT_KEYS = [
    "parse_code", "next_parse_offset", "previous_parse_offset", "picture_coding_mode", "major_version", "minor_version",
    "profile", "level", "luma_width", "luma_height", "color_diff_width", "color_diff_height", "luma_depth", "color_diff_depth",
    "picture_number", "wavelet_index", "dwt_depth", "wavelet_index_ho", "dwt_depth_ho", "slices_x", "slices_y",
    "slice_bytes_numerator", "slice_bytes_denominator", "slice_prefix_bytes", "slice_size_scaler",
    "fragment_data_length", "fragment_slice_count", "fragment_x_offset", "fragment_y_offset", "fragment_slices_received",
    "_num_pictures_in_sequence", "_last_parse_info_offset", "_last_sequence_header_offset", "_expected_major_version",
    "_last_picture_number", "_fragment_slices_remaining",
]
fields(**{k: "int" for k in INT_KEYS})
fields(
    fragmented_picture_done="bool",
    video_parameters="ref:dict:VideoParameters",
    quant_matrix="ref:lomap:int",
    quantizer="ref:lomap:int",
    y_transform="ref:lomap:grid",
    c1_transform="ref:lomap:grid",
    c2_transform="ref:lomap:grid",
    current_picture="ref:dict:Picture",
    _generic_sequence_matcher="ref:opaque:Matcher",
    _level_sequence_matcher="ref:opaque:Matcher",
    _output_picture_callback="ref:opaque:callback",
    _last_sequence_header_bytes="ref:list:int",
    _level_constrained_values="ref:opaque:OrderedDict",
    # offsets recorded for error messages are (byte, bit) tuples: only their presence matters
    _last_picture_number_offset="any",
    _picture_initial_fragment_offset="any",
    # ghost fields of the Matcher model
    m_generic="bool",
    m_level="bool",
    m_count="int",
    # ghost: "the level has been recorded in state['_level_constrained_values']" (what explain() of level errors needs)
    g_lcv_level="bool",
    # ghost: number of pictures handed to the output callback / output_picture so far
    g_out="int", g_last_pic="ref:dict:Picture", g_last_vp="ref:dict:VideoParameters", g_last_pcm="int",
    # entries of state["current_picture"]
    pic_num="int", Y="ref:grid", C1="ref:grid", C2="ref:grid",
)
fields(**{k: "int" for k in VideoParameters.entry_objs.keys() if k != "top_field_first"})
fields(top_field_first="bool")

# ---- opaque library objects ------------------------------------------------------------------------

opaque_class("vc2_conformance.symbol_re.Matcher", "opaque:Matcher",
             "pattern matcher (heap-allocated NFA, outside the verified subset): assumed contract M1/M2 below; bounded-checked under C18")
opaque_class("collections.OrderedDict", "opaque:OrderedDict", "OrderedDict(): an empty mapping; only stored, passed on and item-assigned")

GENERIC_PATTERN = "sequence_header .* end_of_sequence"


def _matcher_ctor(ex, st, ref, args, e):
    """Matcher(pattern): records whether this is the generic 'sequence_header .* end_of_sequence' matcher."""
    ctx = ex.ctx
    is_generic = len(args) == 1 and args[0].k == "str" and args[0].x == GENERIC_PATTERN
    g = ctx.field_array(st, "val_m_generic", AIB)
    ctx.set_field_array(st, "val_m_generic", z3.Store(g, ref, z3.BoolVal(is_generic)))
    c = ctx.field_array(st, "val_m_count", AII)
    ctx.set_field_array(st, "val_m_count", z3.Store(c, ref, z3.IntVal(0)))
    # a pattern that is not a literal comes from LEVEL_SEQUENCE_RESTRICTIONS[level].sequence_restriction_regex
    is_level = len(args) == 1 and args[0].k == "str" and args[0].x is None
    lv = ctx.field_array(st, "val_m_level", AIB)
    ctx.set_field_array(st, "val_m_level", z3.Store(lv, ref, z3.BoolVal(is_level)))


REG.opaque_ctor_hooks = getattr(REG, "opaque_ctor_hooks", {})
REG.opaque_ctor_hooks["vc2_conformance.symbol_re.Matcher"] = _matcher_ctor

SEQ_HDR_NAME = "sequence_header"


@models.model("opaque:Matcher", "match_symbol", effects=["val_m_count"])
def _matcher_match_symbol(ex, st, recv, args, kwargs, e):
    """M1: never raises; returns a bool; the generic matcher accepts exactly 'sequence_header' first and then anything.
    M2: a successful match advances the matcher by one symbol, a failed one leaves it unchanged."""
    ctx = ex.ctx
    g = ctx.field_array(st, "val_m_generic", AIB)[recv.z]
    cnt = ctx.field_array(st, "val_m_count", AII)
    res = ctx.fresh("matched", B)
    sym = args[0]
    if sym.k == "str":
        first_ok = sym.z == ctx.strid(SEQ_HDR_NAME)
        ctx.assume(st, z3.Implies(g, res == z3.If(cnt[recv.z] == 0, first_ok, z3.BoolVal(True))))
        # M4 (ground fact, evaluated each run on the real Matcher for all levels): every level pattern accepts a sequence header first
        lvl = ctx.field_array(st, "val_m_level", AIB)[recv.z]
        ctx.assume(st, z3.Implies(z3.And(lvl, cnt[recv.z] == 0, first_ok), res))
    ctx.set_field_array(st, "val_m_count", z3.Store(cnt, recv.z, z3.If(res, cnt[recv.z] + 1, cnt[recv.z])))
    return mk_bool(res)


@models.model("opaque:Matcher", "is_complete")
def _matcher_is_complete(ex, st, recv, args, kwargs, e):
    return mk_bool(ex.ctx.fresh("complete", B))


@models.model("opaque:Matcher", "valid_next_symbols")
def _matcher_valid_next(ex, st, recv, args, kwargs, e):
    r = ex.alloc_ref(st, "opaque:symbols")
    return mk_ref(r, "opaque:symbols")


# ---- transparent helpers (inlined from the real source on every run) -----------------------------------------

PCF = "vc2_conformance.pseudocode.parse_code_functions."
VC = "vc2_conformance.version_constraints."
transparent(*[PCF + n for n in ("is_seq_header", "is_end_of_sequence", "is_auxiliary_data", "is_padding_data", "is_ld", "is_hq",
                                "is_picture", "is_fragment", "using_dc_prediction")])
transparent(*[VC + n for n in ("preset_frame_rate_version_implication", "preset_signal_range_version_implication",
                               "preset_color_spec_version_implication", "preset_color_primaries_version_implication",
                               "preset_color_matrix_version_implication", "preset_transfer_function_version_implication",
                               "wavelet_transform_version_implication", "profile_version_implication",
                               "parse_code_version_implication")])
transparent("vc2_conformance.decoder.assertions.assert_in_enum", "vc2_conformance.decoder.assertions.assert_in",
            "vc2_conformance.decoder.assertions.log_version_lower_bound",
            "vc2_conformance.pseudocode.vc2_math.intlog2")


def _callback_call(ex, st, f, args, e):
    """state["_output_picture_callback"](picture, video_parameters, picture_coding_mode): the callback is opaque and assumed
    not to touch `state`; the call is the observable 'picture output' event, counted by the ghost field g_out of the state."""
    ctx = ex.ctx
    note = "TRUSTED: the output-picture callback does not raise and does not modify the decoder state"
    if note not in ctx.notes:
        ctx.notes.append(note)
    # ghost bookkeeping on the callback object: how often it was called and with what
    cnt = ctx.field_array(st, "val_g_out", AII)
    ctx.set_field_array(st, "val_g_out", z3.Store(cnt, f.z, cnt[f.z] + 1))
    if len(args) == 3 and args[0].k == "ref" and args[1].k == "ref":
        for fld, v in (("val_g_last_pic", args[0].z), ("val_g_last_vp", args[1].z), ("val_g_last_pcm", as_int(ctx, st, args[2], e))):
            arr = ctx.field_array(st, fld, AII)
            ctx.set_field_array(st, fld, z3.Store(arr, f.z, v))
    return NONE


REG.opaque_call_hooks["opaque:callback"] = _callback_call
