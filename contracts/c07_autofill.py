"""C07 - automatic field filling: the picture-number clause, proved on the real autofill_picture_number.

Model: a stream description is a tree of fixed-entry dictionaries (static keys).  A picture_number field holds an integer or
the AUTO sentinel: declared `optint`, with AUTO as its None (api.none_sentinel).  The two data-unit loops are verified by the
usual loop rule; the clauses of the statement are ghost assertions about an ARBITRARY data unit of an arbitrary sequence:

  explicit numbers are left alone;  an omitted / AUTO number of a picture or of the first fragment of a picture becomes the
  previous number + 1 modulo 2**32;  of a later fragment it repeats the previous number;  numbering restarts from
  initial_picture_number in every sequence.
"""
from pyvc.api import *
from pyvc import models  # noqa: F401
from vc2_conformance.bitstream.vc2_autofill import AUTO

AF = "vc2_conformance.bitstream.vc2_autofill."

none_sentinel(AUTO)

fields(
    sequences="ref:list:dict:Sequence",
    data_units="ref:list:dict:DataUnit",
    parse_info="ref:dict:ParseInfo",
    picture_parse="ref:dict:PictureParse",
    fragment_parse="ref:dict:FragmentParse",
    picture_header="ref:dict:PictureHeader",
    fragment_header="ref:dict:FragmentHeader",
    parse_code="int",
    picture_number="optint",
    fragment_slice_count="int",
)


@inline
def is_pic(pc):
    return pc == 0xC8 or pc == 0xE8


@inline
def is_frag(pc):
    return pc == 0xCC or pc == 0xEC


@spec(AF + "autofill_picture_number")
class _autofill_picture_number:
    args = {"stream": "dict:Stream", "initial_picture_number": "int"}
    requires = []
    # only these entries are ever written (frame: every other entry of every dictionary of the tree is untouched)
    modifies = ['any_key("picture_parse")', 'any_key("fragment_parse")', 'any_key("picture_header")', 'any_key("fragment_header")', 'any_key("picture_number")']
    raises = {}
    ensures = []
    invariants = {1: ["True"], 2: ["True"]}
    ghost = {
        # numbering restarts in every sequence: the first automatic number of a sequence is initial_picture_number (mod 2**32)
        "loop1.after_stmt1": ["check(((last_picture_number + 1) & 0xFFFFFFFF) == (initial_picture_number & 0xFFFFFFFF))"],
        "loop2.body_start": [
            "(g_last := last_picture_number)",
            "(g_coded := has(data_unit, 'parse_info') and has(data_unit['parse_info'], 'parse_code'))",
            "(g_pc := data_unit['parse_info']['parse_code'])",
            # an explicitly supplied picture number: present and not the AUTO sentinel
            "(g_pic_explicit := has(data_unit, 'picture_parse') and has(data_unit['picture_parse'], 'picture_header') "
            "and has(data_unit['picture_parse']['picture_header'], 'picture_number') and data_unit['picture_parse']['picture_header']['picture_number'] is not None)",
            "(g_pic_old := data_unit['picture_parse']['picture_header']['picture_number'])",
            "(g_frag_explicit := has(data_unit, 'fragment_parse') and has(data_unit['fragment_parse'], 'fragment_header') "
            "and has(data_unit['fragment_parse']['fragment_header'], 'picture_number') and data_unit['fragment_parse']['fragment_header']['picture_number'] is not None)",
            "(g_frag_old := data_unit['fragment_parse']['fragment_header']['picture_number'])",
            # the first fragment of a picture carries no slices (fragment_slice_count 0, which is also the default of an omitted count)
            "(g_first_fragment := not (has(data_unit, 'fragment_parse') and has(data_unit['fragment_parse'], 'fragment_header') "
            "and has(data_unit['fragment_parse']['fragment_header'], 'fragment_slice_count')) or data_unit['fragment_parse']['fragment_header']['fragment_slice_count'] == 0)",
        ],
        "loop2.body_end": [
            # a picture: explicit number kept, automatic number = previous + 1 modulo 2**32; it becomes the previous number
            "check(implies(g_coded and is_pic(g_pc), has(data_unit, 'picture_parse') and has(data_unit['picture_parse'], 'picture_header') "
            "and has(data_unit['picture_parse']['picture_header'], 'picture_number') "
            "and data_unit['picture_parse']['picture_header']['picture_number'] == (g_pic_old if g_pic_explicit else ((g_last + 1) & 0xFFFFFFFF)) "
            "and last_picture_number == data_unit['picture_parse']['picture_header']['picture_number']))",
            # a fragment: explicit number kept; automatic: previous + 1 for the first fragment of a picture, the previous number repeated otherwise
            "check(implies(g_coded and is_frag(g_pc), has(data_unit, 'fragment_parse') and has(data_unit['fragment_parse'], 'fragment_header') "
            "and has(data_unit['fragment_parse']['fragment_header'], 'picture_number') "
            "and data_unit['fragment_parse']['fragment_header']['picture_number'] == "
            "(g_frag_old if g_frag_explicit else (((g_last + 1) & 0xFFFFFFFF) if g_first_fragment else g_last)) "
            "and last_picture_number == data_unit['fragment_parse']['fragment_header']['picture_number']))",
            # anything else neither consumes nor changes a number
            "check(implies(not (g_coded and (is_pic(g_pc) or is_frag(g_pc))), last_picture_number == g_last))",
        ],
    }
