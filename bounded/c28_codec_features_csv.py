"""C28 -- bounded stand-in: "reading a codec-features CSV either succeeds in-domain or explains".

Property (properties.jsonl, C28): for ANY CSV text, ``read_codec_features_csv`` either returns
configurations whose fields lie in their documented domains or raises ``InvalidCodecFeaturesError``;
it never raises anything else.

What this module does (a BOUNDED, SAMPLED check -- never a proof):

* ``check_domains`` is a post-condition checker for a returned mapping of CodecFeatures.  It is written
  from the documentation (the ``CodecFeatures`` docstring, docs/source/user_guide/generating_test_cases.rst,
  and the ``quant_matrix`` layout of (12.4.5.3)), not from the parser's own validation code.
* the input generator starts from the sample CSV files shipped with the repository (and a built-in seed
  table written from the user guide), and derives texts by cell-by-cell mutation, paired mutations
  (lossless x picture_bytes, depths x quantisation matrix), structural mutations (rows, columns, names,
  quoting, line terminators, bare CR, NUL, over-long fields, BOM, dialects) and seeded random CSV.
* every text is handed to the real ``read_codec_features_csv`` (imported from the tree under check);
  any exception other than InvalidCodecFeaturesError, and any returned value outside the domains, is a
  failing case.
* known finding D6 (``csv.Error`` escaping from the iteration of ``csv.reader``): a failing case gets the
  known_key ``C28-D6-csv-error-escapes`` only if a deliberately defective reference ("the documented
  behaviour, except that an error of the standard csv reader is passed on untranslated") reproduces the
  observed exception exactly: the escaping exception is exactly ``csv.Error``, an independent run of the
  standard library's csv reader over the same lines raises ``csv.Error`` with the identical message, and
  the innermost Python frame of the traceback is in codec_features.py (i.e. the error was raised by the C
  reader while codec_features.py was iterating it).  Anything else is a new VIOLATION.

Replay of a failing case:  /verif/.venv/bin/python -m bounded.c28_codec_features_csv <replay.json>
"""
import base64
import collections
import collections.abc
import csv
import enum
import hashlib
import io
import json
import multiprocessing
import os
import random
import sys
import time
import traceback
import zlib

PID = "C28"
KNOWN_KEY_D6 = "C28-D6-csv-error-escapes"

# =====================================================================================================
# (a) documented domains -- written from the CodecFeatures docstring and the user guide
# =====================================================================================================

# name of the vc2_data_tables enumeration documented for each enum-typed field
CF_ENUMS = {
    "level": "Levels",
    "profile": "Profiles",
    "picture_coding_mode": "PictureCodingModes",
    "wavelet_index": "WaveletFilters",
    "wavelet_index_ho": "WaveletFilters",
}
# integer fields and the smallest meaningful value: depths and "0 = not fragmented" may be zero, a
# picture has at least one slice in each direction
CF_INT_MIN = {
    "dwt_depth": 0,
    "dwt_depth_ho": 0,
    "slices_x": 1,
    "slices_y": 1,
    "fragment_slice_count": 0,
}
CF_KEYS = frozenset(
    ["name", "video_parameters", "lossless", "picture_bytes", "quantization_matrix"] + list(CF_ENUMS) + list(CF_INT_MIN)
)

VP_ENUMS = {
    "color_diff_format_index": "ColorDifferenceSamplingFormats",
    "source_sampling": "SourceSamplingModes",
    "color_primaries_index": "PresetColorPrimaries",
    "color_matrix_index": "PresetColorMatrices",
    "transfer_function_index": "PresetTransferFunctions",
}
# sizes, rates, ratios and excursions are at least one (they are divisors / extents); offsets and the
# clean area (unsigned in the stream) are at least zero
VP_INT_MIN = {
    "frame_width": 1,
    "frame_height": 1,
    "frame_rate_numer": 1,
    "frame_rate_denom": 1,
    "pixel_aspect_ratio_numer": 1,
    "pixel_aspect_ratio_denom": 1,
    "clean_width": 0,
    "clean_height": 0,
    "left_offset": 0,
    "top_offset": 0,
    "luma_offset": 0,
    "luma_excursion": 1,
    "color_diff_offset": 0,
    "color_diff_excursion": 1,
}
VP_BOOLS = ("top_field_first",)
VP_KEYS = frozenset(list(VP_ENUMS) + list(VP_INT_MIN) + list(VP_BOOLS))

# every row the user guide documents, in the guide's order, with the kind of its cells
#   ("enum", EnumName, default_allowed) | ("int", minimum, default_allowed) | ("bool", default_allowed)
ROWS = collections.OrderedDict(
    [
        ("name", ("name",)),
        ("level", ("enum", "Levels", False)),
        ("profile", ("enum", "Profiles", False)),
        ("picture_coding_mode", ("enum", "PictureCodingModes", False)),
        ("base_video_format", ("enum", "BaseVideoFormats", False)),
        ("frame_width", ("int", 1, True)),
        ("frame_height", ("int", 1, True)),
        ("color_diff_format_index", ("enum", "ColorDifferenceSamplingFormats", True)),
        ("source_sampling", ("enum", "SourceSamplingModes", True)),
        ("top_field_first", ("bool", True)),
        ("frame_rate_numer", ("int", 1, True)),
        ("frame_rate_denom", ("int", 1, True)),
        ("pixel_aspect_ratio_numer", ("int", 1, True)),
        ("pixel_aspect_ratio_denom", ("int", 1, True)),
        ("clean_width", ("int", 0, True)),
        ("clean_height", ("int", 0, True)),
        ("left_offset", ("int", 0, True)),
        ("top_offset", ("int", 0, True)),
        ("luma_offset", ("int", 0, True)),
        ("luma_excursion", ("int", 1, True)),
        ("color_diff_offset", ("int", 0, True)),
        ("color_diff_excursion", ("int", 1, True)),
        ("color_primaries_index", ("enum", "PresetColorPrimaries", True)),
        ("color_matrix_index", ("enum", "PresetColorMatrices", True)),
        ("transfer_function_index", ("enum", "PresetTransferFunctions", True)),
        ("wavelet_index", ("enum", "WaveletFilters", False)),
        ("wavelet_index_ho", ("enum", "WaveletFilters", False)),
        ("dwt_depth", ("int", 0, False)),
        ("dwt_depth_ho", ("int", 0, False)),
        ("slices_x", ("int", 1, False)),
        ("slices_y", ("int", 1, False)),
        ("lossless", ("bool", False)),
        ("picture_bytes", ("picture_bytes",)),
        ("fragment_slice_count", ("int", 0, False)),
        ("quantization_matrix", ("qm",)),
    ]
)


def _is_plain_int(v):
    return isinstance(v, int) and not isinstance(v, bool) and not isinstance(v, enum.Enum)


def check_quantization_matrix(qm, dwt_depth, dwt_depth_ho):
    """None, or {level: {orientation: int}} with exactly the levels 0..dwt_depth_ho+dwt_depth and per level
    exactly the orientations the transform has there ((12.4.5.3) quant_matrix): level 0 is LL for a
    symmetric transform and L otherwise, the horizontal-only levels 1..dwt_depth_ho hold H, the remaining
    dwt_depth levels hold HL, LH, HH."""
    if qm is None:
        return []
    if not isinstance(qm, dict):
        return ["quantization_matrix is %s, neither None nor a dict" % type(qm).__name__]
    n_levels = dwt_depth + dwt_depth_ho + 1
    if len(qm) != n_levels:
        return ["quantization_matrix has %d levels %r, transform (dwt_depth=%d, dwt_depth_ho=%d) has %d"
                % (len(qm), sorted(qm, key=repr)[:12], dwt_depth, dwt_depth_ho, n_levels)]
    probs = []
    for lvl, orients in qm.items():
        if not _is_plain_int(lvl) or not (0 <= lvl < n_levels):
            probs.append("quantization_matrix has level key %r outside 0..%d" % (lvl, n_levels - 1))
            continue
        if lvl == 0:
            want = {"LL"} if dwt_depth_ho == 0 else {"L"}
        elif lvl <= dwt_depth_ho:
            want = {"H"}
        else:
            want = {"HL", "LH", "HH"}
        if not isinstance(orients, dict) or set(orients) != want:
            probs.append("quantization_matrix[%d] is %r, expected orientations %s" % (lvl, orients, sorted(want)))
            continue
        for o, v in orients.items():
            if not _is_plain_int(v):
                probs.append("quantization_matrix[%d][%r] = %r is not an integer" % (lvl, o, v))
    return probs


def check_domains(out, tables):
    """Post-condition of a *returned* value.  `tables` is the vc2_data_tables module (the enumerations the
    documentation refers to).  Returns a list of (field, human-readable problem) (empty: in-domain)."""
    if not isinstance(out, dict):
        return [("return value", "returned %s, not a dictionary of CodecFeatures" % type(out).__name__)]
    probs = []

    def bad(w, field, msg):
        probs.append((field, "%s %s %s" % (w, field, msg)))

    seen = set()
    for key, cf in out.items():
        w = "[%r]" % (key,)
        if not isinstance(key, str):
            bad(w, "key", "is not a string")
        if not isinstance(cf, collections.abc.Mapping):
            bad(w, "value", "is %s, not a CodecFeatures mapping" % type(cf).__name__)
            continue
        have = set(cf.keys())
        if have != CF_KEYS:
            bad(w, "fields", "missing %s / undocumented %s" % (sorted(CF_KEYS - have), sorted(have - CF_KEYS, key=repr)))
        name = cf.get("name")
        if not isinstance(name, str) or name != key:
            bad(w, "name", "= %r differs from its key" % (name,))
        if name in seen:
            bad(w, "name", "= %r is used by more than one configuration" % (name,))
        seen.add(name)
        for f, en in CF_ENUMS.items():
            if f in cf and not isinstance(cf[f], getattr(tables, en)):
                bad(w, f, "= %r is not a member of %s" % (cf[f], en))
        for f, lo in CF_INT_MIN.items():
            if f in cf and not (_is_plain_int(cf[f]) and cf[f] >= lo):
                bad(w, f, "= %r is not an integer >= %d" % (cf[f], lo))
        if "lossless" in cf:
            ll = cf["lossless"]
            if not isinstance(ll, bool):
                bad(w, "lossless", "= %r is not a bool" % (ll,))
            if "picture_bytes" in cf:
                pb = cf["picture_bytes"]
                if ll:
                    if pb is not None:
                        bad(w, "picture_bytes", "= %r although lossless (must be absent/None)" % (pb,))
                else:
                    if not (_is_plain_int(pb) and pb >= 1):
                        bad(w, "picture_bytes", "= %r although lossy (must be an integer >= 1)" % (pb,))
        if "quantization_matrix" in cf and _is_plain_int(cf.get("dwt_depth")) and _is_plain_int(cf.get("dwt_depth_ho")) \
                and cf["dwt_depth"] >= 0 and cf["dwt_depth_ho"] >= 0:
            for msg in check_quantization_matrix(cf["quantization_matrix"], cf["dwt_depth"], cf["dwt_depth_ho"]):
                bad(w, "quantization_matrix", ": " + msg)
        if "video_parameters" in cf:
            vp = cf["video_parameters"]
            if not isinstance(vp, collections.abc.Mapping):
                bad(w, "video_parameters", "is %s, not a mapping" % type(vp).__name__)
            else:
                hv = set(vp.keys())
                if hv != VP_KEYS:
                    bad(w, "video_parameters fields", "missing %s / undocumented %s" % (sorted(VP_KEYS - hv), sorted(hv - VP_KEYS, key=repr)))
                for f, en in VP_ENUMS.items():
                    if f in vp and not isinstance(vp[f], getattr(tables, en)):
                        bad(w, "video_parameters." + f, "= %r is not a member of %s" % (vp[f], en))
                for f, lo in VP_INT_MIN.items():
                    if f in vp and not (_is_plain_int(vp[f]) and vp[f] >= lo):
                        bad(w, "video_parameters." + f, "= %r is not an integer >= %d" % (vp[f], lo))
                for f in VP_BOOLS:
                    if f in vp and not isinstance(vp[f], bool):
                        bad(w, "video_parameters." + f, "= %r is not a bool" % (vp[f],))
    return probs


# =====================================================================================================
# running one case on the real code
# =====================================================================================================

MODES = ("nl", "raw", "univ")
_MODE_NEWLINE = {"nl": "\n", "raw": "", "univ": None}
MODE_WORDS = {
    "nl": "io.StringIO(text) (lines end at '\\n' only, no translation)",
    "raw": "io.StringIO(text, newline='') (what the csv documentation recommends)",
    "univ": "io.StringIO(text, newline=None) (universal newlines, what open(path) in the test-case generator CLI does)",
}


def make_lines(text, mode):
    return io.StringIO(text, newline=_MODE_NEWLINE[mode])


def reference_csv_reader_error(text, mode):
    """The deliberately defective reference for D6: run the *standard library* csv reader (default
    dialect) over the same lines; if that raises csv.Error, the defective reference lets exactly that
    error escape.  Returns the message, or None when the standard reader reads the text without error."""
    try:
        for _row in csv.reader(make_lines(text, mode)):
            pass
    except csv.Error as e:
        return str(e)
    return None


def count_nonempty_columns(text, mode):
    """Number of columns holding at least one non-blank cell, per the documented table layout: the first
    cell of a row is its key, rows whose key is blank or starts with '#' are ignored, cells are stripped.
    Read with the standard csv reader; None if that reader rejects the text."""
    cols = set()
    try:
        for row in csv.reader(make_lines(text, mode)):
            if not row:
                continue
            key = row[0].strip()
            if key == "" or key[0] == "#":
                continue
            for j in range(1, len(row)):
                if row[j].strip() != "":
                    cols.add(j)
    except csv.Error:
        return None
    return len(cols)


def _load_target():
    from pyvc import frontend

    frontend.ensure_repo_on_path()
    import vc2_conformance.codec_features as cfmod
    import vc2_data_tables

    return cfmod, vc2_data_tables


def run_case(text, mode, cfmod=None, tables=None):
    """-> ("ok", n_configs) | ("icfe", None) | ("fail", detail-dict)"""
    if cfmod is None:
        cfmod, tables = _load_target()
    ICFE = cfmod.InvalidCodecFeaturesError
    try:
        out = cfmod.read_codec_features_csv(make_lines(text, mode))
    except ICFE:
        return ("icfe", None)
    except KeyboardInterrupt:
        raise
    except BaseException as e:  # noqa -- every other exception is a failing case, never ignored
        tb = traceback.extract_tb(e.__traceback__)
        inner = tb[-1] if tb else None
        et = type(e)
        tname = "%s.%s" % (et.__module__, et.__qualname__)
        msg = str(e)
        detail = {
            "kind": "exception",
            "exception": tname,
            "message": msg[:300],
            "innermost_frame": None if inner is None else {
                "file": os.path.basename(inner.filename), "function": inner.name, "line": (inner.line or "").strip()},
            "expected": "a returned dictionary of CodecFeatures, or InvalidCodecFeaturesError",
            "observed": "%s: %s" % (tname, msg[:200]),
            "known_key": None,
        }
        # explained-by predicate for the known finding D6
        if et is csv.Error and inner is not None and os.path.basename(inner.filename) == "codec_features.py":
            ref = reference_csv_reader_error(text, mode)
            if ref is not None and ref == msg:
                detail["known_key"] = KNOWN_KEY_D6
                detail["explained_by"] = "standard csv.reader over the same lines raises csv.Error(%r); the defective reference lets it escape" % ref[:80]
        detail["sig"] = "%s|%s|%s" % (detail["known_key"] or "new", tname, msg[:40] if detail["known_key"] else (
            "%s:%s" % (detail["innermost_frame"]["function"], detail["innermost_frame"]["line"][:60]) if inner else ""))
        return ("fail", detail)
    probs = check_domains(out, tables)
    if not probs and isinstance(out, dict):
        # "unique names": every non-empty column is its own configuration (none silently merged or dropped)
        ncols = count_nonempty_columns(text, mode)
        if ncols is not None and ncols != len(out):
            probs.append(("configurations != non-empty columns",
                          "the table has %d non-empty column(s) but %d configuration(s) were returned (names %r): columns were merged "
                          "or dropped, names are not unique per column" % (ncols, len(out), list(out)[:6])))
    if probs:
        return ("fail", {
            "kind": "domain",
            "problems": [m for _f, m in probs[:10]],
            "expected": "every returned field inside its documented domain",
            "observed": probs[0][1][:400],
            "known_key": None,
            "sig": "new|domain|" + probs[0][0],
        })
    return ("ok", len(out))


# =====================================================================================================
# (b) input generation
# =====================================================================================================

class Raw(str):
    """A cell that is written verbatim (no quoting), to produce malformed CSV on purpose."""


def emit_row(row, delim=",", quote="minimal", quotechar='"'):
    cells = []
    for c in row:
        if isinstance(c, Raw):
            cells.append(str(c))
        elif quote == "all" or (quote == "minimal" and (delim in c or quotechar in c or "\n" in c or "\r" in c)):
            cells.append(quotechar + c.replace(quotechar, quotechar * 2) + quotechar)
        else:
            cells.append(c)
    return delim.join(cells)


def emit(grid, delim=",", eol="\n", quote="minimal", last_eol=True, quotechar='"'):
    lines = [emit_row(row, delim, quote, quotechar) for row in grid]
    s = eol.join(lines)
    if lines and last_eol:
        s += eol
    return s


class Table(object):
    """A grid with its emitted lines cached, for cheap single-cell replacement (default dialect)."""

    def __init__(self, grid):
        self.grid = grid
        self.lines = [emit_row(r) for r in grid]
        self.around = {}

    def cell(self, i, j, value):
        row = list(self.grid[i])
        while len(row) <= j:
            row.append("")
        row[j] = value
        if i not in self.around:
            self.around[i] = ("".join(l + "\n" for l in self.lines[:i]), "\n" + "".join(l + "\n" for l in self.lines[i + 1:]))
        pre, post = self.around[i]
        return pre + emit_row(row) + post


def parse_grid(text):
    return [list(r) for r in csv.reader(io.StringIO(text))]


def data_rows(grid):
    """indices of rows that carry a key (non-empty first cell that is not a comment)"""
    return [i for i, r in enumerate(grid) if r and r[0].strip() and not r[0].strip().startswith("#")]


def single_column(grid, j):
    return [[r[0], r[j] if j < len(r) else ""] if r else [] for r in grid]


def builtin_grid():
    """A seed table written from the user guide: lossy HQ / lossless HQ / low-delay asymmetric transform
    with a custom quantisation matrix / everything given numerically."""
    cols = [
        dict(name="hq_lossy", level="unconstrained", profile="high_quality", picture_coding_mode="pictures_are_frames",
             base_video_format="hd1080p_50", wavelet_index="le_gall_5_3", wavelet_index_ho="le_gall_5_3", dwt_depth="2",
             dwt_depth_ho="0", slices_x="240", slices_y="135", lossless="FALSE", picture_bytes="1296000",
             fragment_slice_count="0", quantization_matrix="default"),
        dict(name="hq_lossless", level="0", profile="3", picture_coding_mode="pictures_are_fields",
             base_video_format="hd1080i_50", wavelet_index="haar_no_shift", wavelet_index_ho="haar_no_shift", dwt_depth="3",
             dwt_depth_ho="0", slices_x="16", slices_y="8", lossless="TRUE", picture_bytes="",
             fragment_slice_count="4", quantization_matrix="0 1 1 2 3 3 4 5 5 6"),
        dict(name="ld_asym", level="unconstrained", profile="low_delay", picture_coding_mode="0",
             base_video_format="custom_format", frame_width="64", frame_height="32", color_diff_format_index="color_4_2_0",
             source_sampling="interlaced", top_field_first="false", frame_rate_numer="30000", frame_rate_denom="1001",
             pixel_aspect_ratio_numer="10", pixel_aspect_ratio_denom="11", clean_width="60", clean_height="30",
             left_offset="2", top_offset="1", luma_offset="16", luma_excursion="219", color_diff_offset="128",
             color_diff_excursion="224", color_primaries_index="sdtv_525", color_matrix_index="sdtv",
             transfer_function_index="linear", wavelet_index="fidelity", wavelet_index_ho="daubechies_9_7", dwt_depth="1",
             dwt_depth_ho="2", slices_x="4", slices_y="2", lossless="no", picture_bytes="512",
             fragment_slice_count="0", quantization_matrix="0 1 2 3 4 5"),
    ]
    grid = [["# built-in seed (written from the user guide)"] + [""] * len(cols)]
    for key in ROWS:
        grid.append([key] + [c.get(key, "default" if key != "picture_bytes" else "") for c in cols])
    return grid


SEED_FILES = (
    "tests/sample_codec_features.csv",
    "tests/sample_codec_features_invalid.csv",
    "docs/source/_static/user_guide/sample_codec_features.csv",
)


def load_seed_grids():
    """-> [(label, grid)], [notes].  The repository's sample files are looked up next to the package under
    check and, when a scratch copy has no tests/ or docs/, in /repo."""
    from pyvc import frontend

    seeds, notes = [], []
    for rel in SEED_FILES:
        for root in (frontend.REPO, "/repo"):
            p = os.path.join(root, rel)
            if os.path.exists(p):
                with open(p, newline="", encoding="utf-8") as f:
                    txt = f.read()
                seeds.append((rel, parse_grid(txt)))
                break
        else:
            notes.append("sample file %s not found" % rel)
    seeds.append(("builtin", builtin_grid()))
    return seeds, notes


LONG = 131072  # default csv.field_size_limit()

# values tried in every data cell
UNIVERSAL = [
    "", "default", "DEFAULT", "Default", "dEfAuLt", " default ", "defaults", "none", "None", "null", "NaN", "inf",
    "0", "1", "2", "3", "7", "-1", "-0", "+3", "007", "100", "65535", "4294967296",
    "1.5", "1.0", "0.0", "1e3", "0x10", "0b1", "0o7", " 7 ", "\t7\t", "1_000", "1__0", "_1", "1,000", "1 2", "1/2", "--1", "1-",
    "\u0663", "\uff17", "\u00b2", "\uff11\uff12\uff13", "\u00a07", "\u20077", "\x0c7", "\x1f7", "7\x00", "\x007", "\ufeff7", "7\u200b",
    "9" * 30, "9" * 4300, "9" * 4301, "-" + "9" * 4301,
    "TRUE", "FALSE", "true", "false", "True", "False", "tRuE", "T", "F", "t", "f", "Y", "N", "y", "n", "yes", "no", "YES", "NO",
    "Yes", "No", "on", "off", "01", "yes ", "\uff54\uff52\uff55\uff45", "\u00df", "\u0130",
    "#7", "'7'", "a\"b", "\"", "7\n", "7\n8", "7\r", "\n", "x", "hd", "unconstrained", "high_quality", "le_gall_5_3",
    "0 0 0 0", "4 2 2 0 4 4 2", "0 1 2 3 4 5", "1 1 1 1 1 1 1", "0", "0 0 0 0 0 0 0 0 0 0", "0\t1\t1\t1", "0,1,1,1", "0 1 1 x",
    "0 1 1 1.5", "-1 -2 -3 -4", "0  1   1    1", "0\n1\n1\n1", "0 0 0 0 0 0 0", "1 2", "1 2 3",
]
UNIVERSAL = list(collections.OrderedDict.fromkeys(UNIVERSAL))


def enum_values(tables, enum_name):
    E = getattr(tables, enum_name)
    members = list(E)
    vals = []
    mx = max(int(m) for m in members)
    for m in members:
        vals += [m.name, str(int(m))]
    for m in members[:3] + members[-1:]:
        vals += [m.name.upper(), m.name.capitalize(), m.name.replace("_", "-"), " " + m.name + " ", m.name + "x", m.name[:-1],
                 "%s.%s" % (enum_name, m.name), "%d.0" % int(m), hex(int(m)), "+%d" % int(m), "0%d" % int(m), "%d " % int(m)]
    vals += [str(mx + 1), str(mx + 2), "-1", "-2", "63", "255", "256", str(2 ** 64), "name", "value", "__class__", "mro"]
    # a name of some *other* enumeration
    vals += ["hdtv", "progressive", "low_delay", "custom_format", "color_4_4_4"]
    return list(collections.OrderedDict.fromkeys(vals))


TRUTHY = ["1", "true", "TRUE", "True", "t", "T", "y", "Y", "yes", "YES"]
FALSY = ["0", "false", "FALSE", "False", "f", "F", "n", "N", "no", "NO"]


def qm_text(rng, depth, ho, delta=0, neg=False):
    n = 1 + ho + 3 * depth + delta
    return " ".join(str(rng.randint(-3 if neg else 0, 9)) for _ in range(max(0, n)))


def valid_cell(rng, tables, key, col):
    """A cell value the documentation allows for `key` (col carries what was chosen for earlier rows)."""
    kind = ROWS[key]
    if kind[0] == "name":
        return "cfg_%d" % rng.randrange(10 ** 6)
    if kind[0] == "enum":
        if kind[2] and rng.random() < 0.3:
            return rng.choice(["default", "DEFAULT", "Default"])
        m = rng.choice(list(getattr(tables, kind[1])))
        return m.name if rng.random() < 0.6 else str(int(m))
    if kind[0] == "int":
        if kind[2] and rng.random() < 0.3:
            return "default"
        lo = kind[1]
        if key in ("dwt_depth", "dwt_depth_ho"):
            return str(rng.choice([0, 0, 1, 2, 3, 4]))
        return str(rng.choice([lo, lo, lo + 1, rng.randint(lo, 5000), rng.randint(lo, 2 ** 40)]))
    if kind[0] == "bool":
        if kind[1] and rng.random() < 0.3:
            return "default"
        return rng.choice(TRUTHY + FALSY)
    if kind[0] == "picture_bytes":
        return "" if col.get("lossless") in TRUTHY else str(rng.choice([1, 24, rng.randint(1, 10 ** 7)]))
    if kind[0] == "qm":
        if rng.random() < 0.4:
            return "default"
        try:
            d, h = int(col.get("dwt_depth", "0")), int(col.get("dwt_depth_ho", "0"))
        except ValueError:
            d, h = 0, 0
        return qm_text(rng, min(d, 6), min(h, 6))
    raise AssertionError(kind)


def valid_grid(rng, tables, ncols, shuffle=False):
    cols = []
    for _ in range(ncols):
        col = {}
        for key in ROWS:
            col[key] = valid_cell(rng, tables, key, col)
        cols.append(col)
    keys = list(ROWS)
    if shuffle:
        rng.shuffle(keys)
    return [[k] + [c[k] for c in cols] for k in keys]


class Cases(object):
    """Accumulates (family, label, text, mode) with de-duplication."""

    def __init__(self):
        self.items = []
        self.seen = set()
        self.generated = 0

    def add(self, family, label, text, modes=None):
        self.generated += 1
        if modes is None:
            # without a carriage return the three ways of presenting the text yield the same lines
            modes = MODES if "\r" in text else ("nl",)
        for m in modes:
            h = (text, m)
            if h in self.seen:
                continue
            self.seen.add(h)
            self.items.append((family, label, text, m))


def with_cell(grid, i, j, value):
    g = [list(r) for r in grid]
    while len(g[i]) <= j:
        g[i].append("")
    g[i][j] = value
    return g


def gen_cell_mutations(cases, tables, seeds, tier, rng):
    fam = "cell"
    singles = []  # single-column tables make the effect of a cell observable (no other column masks it)
    for label, grid in seeds:
        width = max(len(r) for r in grid)
        for j in range(1, width):
            singles.append(("%s#col%d" % (label, j), single_column(grid, j)))
    if tier == "quick":
        # one column per distinct flavour: lossy default-heavy, lossless, explicit numeric, custom matrix, asymmetric
        want = ("tests/sample_codec_features.csv#col1", "docs/source/_static/user_guide/sample_codec_features.csv#col3",
                "docs/source/_static/user_guide/sample_codec_features.csv#col4", "builtin#col3")
        chosen = [s for s in singles if s[0] in want]
        chosen += [s for s in singles if s[0].startswith("builtin") and s not in chosen][:4 - len(chosen)]
    else:
        chosen = singles
    for label, grid in chosen:
        tab = Table(grid)
        for i in data_rows(grid):
            key = grid[i][0].strip()
            vals = list(UNIVERSAL)
            kind = ROWS.get(key)
            if kind and kind[0] == "enum":
                vals += enum_values(tables, kind[1])
            for v in vals:
                cases.add(fam, "%s row %s := %r" % (label, key, v[:40]), tab.cell(i, 1, v))
    # cells of the multi-column files (later columns may be masked by earlier invalid ones; still useful)
    for label, grid in seeds:
        width = max(len(r) for r in grid)
        rows = data_rows(grid)
        tab = Table(grid)
        for i in rows:
            cols = list(range(1, width)) if tier != "quick" else [1 + (i % max(1, width - 1))]
            for j in cols:
                vals = UNIVERSAL if tier != "quick" else rng.sample(UNIVERSAL, 12)
                for v in vals:
                    cases.add(fam, "%s cell(%s,col%d) := %r" % (label, grid[i][0], j, v[:40]), tab.cell(i, j, v))
    # over-long cells in a few places
    for label, grid in chosen[:2] if tier == "quick" else chosen:
        rows = data_rows(grid)
        tab = Table(grid)
        picks = [rows[0], rows[-1]] if tier == "quick" else [rows[0], rows[len(rows) // 2], rows[-1]]
        for i in picks:
            for n in (LONG, LONG + 1, 200000) if tier == "quick" else (LONG - 1, LONG, LONG + 1, 200000):
                cases.add(fam, "%s row %s := 'x'*%d" % (label, grid[i][0], n), tab.cell(i, 1, "x" * n))
                if n == LONG + 1 or tier != "quick":
                    cases.add(fam, "%s row %s := '1'*%d" % (label, grid[i][0], n), tab.cell(i, 1, "1" * n))
            cases.add(fam, "%s row %s := quoted 'x'*%d" % (label, grid[i][0], LONG + 1), tab.cell(i, 1, Raw('"' + "x" * (LONG + 1) + '"')))
            cases.add(fam, "%s row %s := 140000 spaces" % (label, grid[i][0]), tab.cell(i, 1, " " * 140000))
            cases.add(fam, "%s key %s + 'k'*%d" % (label, grid[i][0], LONG + 1), tab.cell(i, 0, grid[i][0] + "k" * (LONG + 1)))
            cases.add(fam, "%s comment of %d chars before %s" % (label, LONG + 1, grid[i][0]), emit(grid[:i] + [["#" + "c" * (LONG + 1), ""]] + grid[i:]))


def gen_paired(cases, tables, seeds, tier, rng):
    fam = "paired"
    base = single_column(dict(seeds)["builtin"], 1)
    idx = {r[0]: i for i, r in enumerate(base) if r}

    def setm(g, **kv):
        g = [list(r) for r in g]
        for k, v in kv.items():
            g[idx[k]][1] = v
        return g

    bools = TRUTHY + FALSY + ["", "default", "2", "-1", "maybe", "on", "off", "tRuE", " yes "]
    pbs = ["", "0", "1", "24", "1296000", "default", "-1", "1.5", " 7 ", "0x10", "none", "9" * 4301, "TRUE"]
    for b in bools:
        for pb in pbs:
            cases.add(fam, "lossless=%r picture_bytes=%r" % (b, pb), emit(setm(base, lossless=b, picture_bytes=pb)))
        # picture_bytes row absent altogether
        g = setm(base, lossless=b)
        del g[idx["picture_bytes"]]
        cases.add(fam, "lossless=%r, no picture_bytes row" % b, emit(g))
    depths = range(0, 4) if tier == "quick" else range(0, 6)
    hos = range(0, 4) if tier == "quick" else range(0, 5)
    for d in depths:
        for h in hos:
            need = 1 + h + 3 * d
            for delta in (-need, -3, -2, -1, 0, 1, 2, 3):
                if need + delta < 0:
                    continue
                for neg in (False, True):
                    cases.add(fam, "depth=%d ho=%d matrix with %d values%s" % (d, h, need + delta, " (negative)" if neg else ""),
                              emit(setm(base, dwt_depth=str(d), dwt_depth_ho=str(h), quantization_matrix=qm_text(rng, d, h, delta, neg))))
            for sep in ("\t", "  ", "\n", "\r\n", "\x0b", "\u2003", ",", ";", " , "):
                vals = [str(rng.randint(0, 9)) for _ in range(need)]
                cases.add(fam, "depth=%d ho=%d matrix separated by %r" % (d, h, sep),
                          emit(setm(base, dwt_depth=str(d), dwt_depth_ho=str(h), quantization_matrix=sep.join(vals))))
            for bad in ("x", "1.5", "0x1", "", "default", "1_0", "\u0663", "9" * 4301, "-", "+1"):
                vals = [str(rng.randint(0, 9)) for _ in range(need)]
                vals[rng.randrange(need)] = bad
                cases.add(fam, "depth=%d ho=%d matrix with entry %r" % (d, h, bad[:10]),
                          emit(setm(base, dwt_depth=str(d), dwt_depth_ho=str(h), quantization_matrix=" ".join(vals))))
    # huge depths with and without a matrix (the shape check must not need depth-many values to reject)
    for d in ("1000000", str(10 ** 18), "9" * 4000):
        for q in ("default", "0 1 1 1", "0"):
            cases.add(fam, "dwt_depth=%s.. matrix=%r" % (d[:8], q), emit(setm(base, dwt_depth=d, quantization_matrix=q)))
            cases.add(fam, "dwt_depth_ho=%s.. matrix=%r" % (d[:8], q), emit(setm(base, dwt_depth_ho=d, quantization_matrix=q)))
    # every base video format with everything else left at 'default' (defaults must be in-domain as well)
    for m in tables.BaseVideoFormats:
        g = [[k, "default" if (ROWS[k][0] in ("enum", "int", "bool") and ROWS[k][-1] is True) else base[idx[k]][1]] for k in ROWS]
        gi = {r[0]: i for i, r in enumerate(g)}
        g[gi["base_video_format"]][1] = m.name
        cases.add(fam, "all defaults of base_video_format=%s" % m.name, emit(g))
        g[gi["base_video_format"]][1] = str(int(m))
        g[gi["top_field_first"]][1] = "DEFAULT"
        cases.add(fam, "all defaults of base_video_format=%d" % int(m), emit(g))


def gen_structural(cases, tables, seeds, tier, rng):
    fam = "structural"
    tiny = ["", "\n", "\n\n\n", " ", "   \n", "name", "name\n", "name,", "name,\n", "name,a", "name,a\n", "#", "#,\n", "# only a comment,,\n",
            ",", ",,,\n", ",a\n", "\ufeff", "\ufeffname,a\n", "\x00", "\x00\n", "name,\x00\n", "\r", "\r\n", "\r\r", "\n\r", '"', '""', '"\n',
            '"\r', 'name,"', 'name,"a', 'name,"a"b\n', 'name,a"b\n', "a\rb", "name,a\rb\n", "name,a\r\nlevel,0\n", "name,a\rlevel,0\r",
            "name,a\r,b\n", "name,\ra\n", "name\r,a\n", "\rname,a\n", "name,a,a\n", "name,a, a \n", "name,,\nlevel,,\n", "sep=,\nname,a\n",
            "name,column_C,\n", "name,column_B\n", "name,,column_B\n", "level,0\n", "level,0,0\n", "name,a\nname,b\n", "name,a\nlevel,0\nlevel,99\n",
            "NAME,a\n", " name ,a\n", "name ,a\nname,b\n", "name;a\n", "name\ta\n", "name,a\x0blevel,0\n", "name,a\u2028level,0\n",
            "name,a\x85level,0\n", "name,a\x1clevel,0\n", "name," + "a," * 50 + "\n", "," * 5000 + "\n", "name" + ",x" * 5000 + "\n",
            "name," + "x" * (LONG + 1) + "\n", "name," + "x" * LONG + "\n", '"' + "x" * (LONG + 1), "#" + "x" * (LONG + 1) + "\n",
            "x" * (LONG + 1), "name,a\n" + " " * (LONG + 1) + "\n", ("name,a\n" * 20000), '"' + ("name,a\n" * 20000)]
    for t in tiny:
        cases.add(fam, "tiny %r" % t[:30], t, modes=MODES if len(t) < 1000 else None)

    tables_ = list(seeds)
    if tier != "quick":
        for label, grid in seeds:
            for j in range(1, max(len(r) for r in grid)):
                tables_.append(("%s#col%d" % (label, j), single_column(grid, j)))
    for label, grid in tables_:
        width = max(len(r) for r in grid)
        rows = data_rows(grid)
        keyrow = {grid[i][0].strip(): i for i in rows}
        base_txt = emit(grid)
        tab = Table(grid)
        cases.add(fam, "%s unchanged" % label, base_txt, modes=MODES)
        # --- rows
        for i in rows:
            k = grid[i][0]
            cases.add(fam, "%s delete row %s" % (label, k), emit(grid[:i] + grid[i + 1:]))
            cases.add(fam, "%s duplicate row %s" % (label, k), emit(grid[:i + 1] + [grid[i]] + grid[i + 1:]))
            cases.add(fam, "%s duplicate row %s at end with other values" % (label, k), emit(grid + [[k] + [rng.choice(UNIVERSAL) for _ in range(width - 1)]]))
            cases.add(fam, "%s earlier copy of row %s with other values" % (label, k), emit([[k] + [rng.choice(UNIVERSAL) for _ in range(width - 1)]] + grid))
            cases.add(fam, "%s blank key of row %s" % (label, k), tab.cell(i, 0, ""))
            cases.add(fam, "%s comment out row %s" % (label, k), tab.cell(i, 0, "#" + k))
            cases.add(fam, "%s key %s upper-case" % (label, k), tab.cell(i, 0, k.upper()))
            cases.add(fam, "%s key %s padded" % (label, k), tab.cell(i, 0, "  " + k + "\t"))
            cases.add(fam, "%s key %s with BOM" % (label, k), tab.cell(i, 0, "\ufeff" + k))
            cases.add(fam, "%s key %s + x" % (label, k), tab.cell(i, 0, k + "x"))
            cases.add(fam, "%s key %s with NUL" % (label, k), tab.cell(i, 0, k + "\x00"))
            cases.add(fam, "%s row %s key only" % (label, k), emit(grid[:i] + [grid[i][:1]] + grid[i + 1:]))
            cases.add(fam, "%s row %s truncated to 2 cells" % (label, k), emit(grid[:i] + [grid[i][:2]] + grid[i + 1:]))
            cases.add(fam, "%s row %s one extra cell" % (label, k), emit(grid[:i] + [grid[i] + ["1"]] + grid[i + 1:]))
            cases.add(fam, "%s row %s three extra cells" % (label, k), emit(grid[:i] + [grid[i] + ["", "", "x"]] + grid[i + 1:]))
            cases.add(fam, "%s row %s moved last" % (label, k), emit(grid[:i] + grid[i + 1:] + [grid[i]]))
            cases.add(fam, "%s row %s moved first" % (label, k), emit([grid[i]] + grid[:i] + grid[i + 1:]))
            # malformed CSV at this row
            for raw in ('"abc', 'a"b', '"a"b', ' "a"', '"a""', 'a\rb', '\r1', '1\r', 'a\r\rb', '"a\rb"', '"a\nb"', 'a\x00b', '\x00', '"\x00"'):
                cases.add(fam, "%s row %s col1 raw %r" % (label, k, raw), tab.cell(i, 1, Raw(raw)))
            if width > 2:
                cases.add(fam, "%s row %s last cell raw CR" % (label, k), tab.cell(i, width - 1, Raw("1\r")))
                cases.add(fam, "%s row %s last cell open quote" % (label, k), tab.cell(i, width - 1, Raw('"1')))
        cases.add(fam, "%s unknown extra row" % label, emit(grid + [["bogus"] + ["1"] * (width - 1)]))
        cases.add(fam, "%s unknown extra row, empty cells" % label, emit(grid + [["bogus"] + [""] * (width - 1)]))
        cases.add(fam, "%s unknown extra row in one column" % label, emit(grid + [["bogus", "", "1"][:max(2, min(3, width))]]))
        cases.add(fam, "%s rows reversed" % label, emit(grid[::-1]))
        cases.add(fam, "%s rows sorted" % label, emit(sorted(grid)))
        for n in range(3 if tier == "quick" else 40):
            g = list(grid)
            rng.shuffle(g)
            cases.add(fam, "%s rows shuffled #%d" % (label, n), emit(g))
        cases.add(fam, "%s twice" % label, base_txt + base_txt)
        cases.add(fam, "%s transposed" % label, emit([list(x) for x in zip(*[r + [""] * (width - len(r)) for r in grid])]))
        # --- names
        if "name" in keyrow:
            ni = keyrow["name"]
            names = grid[ni][1:]
            cases.add(fam, "%s all names equal" % label, emit(grid[:ni] + [["name"] + ["same"] * (width - 1)] + grid[ni + 1:]))
            cases.add(fam, "%s names blank" % label, emit(grid[:ni] + [["name"] + [""] * (width - 1)] + grid[ni + 1:]))
            cases.add(fam, "%s names all spaces" % label, emit(grid[:ni] + [["name"] + ["  "] * (width - 1)] + grid[ni + 1:]))
            if width > 2:
                cases.add(fam, "%s names equal after stripping" % label, emit(with_cell(with_cell(grid, ni, 1, " dup"), ni, 2, "dup\t")))
                cases.add(fam, "%s names differ in case only" % label, emit(with_cell(with_cell(grid, ni, 1, "dup"), ni, 2, "DUP")))
                cases.add(fam, "%s explicit name collides with default name of a later column" % label,
                          emit(with_cell(with_cell(grid, ni, 1, "column_C"), ni, 2, "")))
                cases.add(fam, "%s explicit name collides with default name of an earlier column" % label,
                          emit(with_cell(with_cell(grid, ni, 1, ""), ni, 2, "column_B")))
                cases.add(fam, "%s first name blank" % label, tab.cell(ni, 1, ""))
            for nm in ("a,b", 'a"b', "a\nb", "\x00", "\u00e9\u4e2d", "#c", "name", "default", "column_B", "x" * 300, "{}", "{0}", "%s", "'"):
                cases.add(fam, "%s first name := %r" % (label, nm[:12]), tab.cell(ni, 1, nm))
        # --- columns
        for j in range(1, width):
            cases.add(fam, "%s delete column %d" % (label, j), emit([r[:j] + r[j + 1:] for r in grid]))
            cases.add(fam, "%s duplicate column %d" % (label, j), emit([r + r[j:j + 1] for r in grid]))
            cases.add(fam, "%s empty column before %d" % (label, j), emit([r[:j] + [""] + r[j:] for r in grid]))
            if "name" in keyrow:
                g = [r + r[j:j + 1] for r in grid]
                g[keyrow["name"]][-1] = "copy"
                cases.add(fam, "%s duplicate column %d renamed" % (label, j), emit(g))
        for ncopies in ((30,) if tier == "quick" else (30, 750)):
            g = [r[:1] + r[1:2] * ncopies if r else [] for r in grid]
            if "name" in keyrow:
                del g[keyrow["name"]]
            cases.add(fam, "%s first column x%d without names" % (label, ncopies), emit(g))
        # --- quoting, terminators, dialects, whitespace, BOM
        cases.add(fam, "%s all quoted" % label, emit(grid, quote="all"))
        cases.add(fam, "%s all quoted CRLF" % label, emit(grid, quote="all", eol="\r\n"), modes=MODES)
        for eol in ("\r\n", "\r", "\n\r", "\r\r\n", "\n\n", "\x0b", "\x0c", "\x1c", "\x85", "\u2028"):
            cases.add(fam, "%s eol %r" % (label, eol), emit(grid, eol=eol), modes=MODES)
        cases.add(fam, "%s no final newline" % label, emit(grid, last_eol=False))
        cases.add(fam, "%s final CR" % label, emit(grid, last_eol=False) + "\r", modes=MODES)
        cases.add(fam, "%s mixed eol" % label, "".join(l + rng.choice(["\n", "\r\n", "\r"]) for l in base_txt.split("\n")), modes=MODES)
        for d in (";", "\t", "|", " ", ":", ", ", " ,", ",,"):
            cases.add(fam, "%s delimiter %r" % (label, d), emit(grid, delim=d))
        cases.add(fam, "%s single-quote quoting" % label, emit(grid, quote="all", quotechar="'"))
        cases.add(fam, "%s BOM" % label, "\ufeff" + base_txt)
        cases.add(fam, "%s BOM quoted" % label, "\ufeff" + emit(grid, quote="all"))
        cases.add(fam, "%s NUL prefix" % label, "\x00" + base_txt)
        cases.add(fam, "%s NUL after every newline" % label, base_txt.replace("\n", "\n\x00"))
        for pad in (" ", "\t", "\u00a0", "\u2003", "\u3000", "\x0b", "\x1f", "\u200b", "\ufeff"):
            cases.add(fam, "%s cells padded with %r" % (label, pad), emit([[pad + c + pad for c in r] for r in grid]))
        cases.add(fam, "%s sep= header" % label, "sep=,\n" + base_txt)
        cases.add(fam, "%s garbage prefix" % label, "hello world\n\n" + base_txt)
        cases.add(fam, "%s garbage suffix" % label, base_txt + "hello,world\n")
        cases.add(fam, "%s open quote then whole file (short)" % label, '"' + base_txt)
        big = base_txt * (2 + LONG // max(1, len(base_txt)))
        cases.add(fam, "%s repeated to %d chars" % (label, len(big)), big)
        cases.add(fam, "%s open quote then %d chars" % (label, len(big)), '"' + big)
        cases.add(fam, "%s open quote in first data cell then %d chars" % (label, len(big)), base_txt.replace(",", ',"', 1) + big)
        cases.add(fam, "%s upper-cased" % label, base_txt.upper())
        cases.add(fam, "%s lower-cased" % label, base_txt.lower())
        cases.add(fam, "%s every comma doubled" % label, base_txt.replace(",", ",,"))


SOUP = [",", ",", '"', "\n", "\n", "\r", " ", "#", "a", "1", "-", "0", "name", "level", "default", "\x00", "\t", ";", "TRUE", "\ufeff", "''"]


def gen_random(cases, tables, seeds, tier, rng):
    fam = "random"
    n = {"quick": 1, "thorough": 12}[tier]
    keys = list(ROWS)
    # valid-by-construction tables, then 0..3 cells replaced
    for t in range(1500 * n):
        g = valid_grid(rng, tables, rng.randint(1, 4), shuffle=rng.random() < 0.3)
        nmut = rng.choice([0, 0, 1, 1, 2, 3])
        for _ in range(nmut):
            i = rng.randrange(len(g))
            j = rng.randrange(1, len(g[i]))
            kind = ROWS[g[i][0]]
            pool = UNIVERSAL if kind[0] != "enum" or rng.random() < 0.5 else enum_values(tables, kind[1])
            g[i][j] = rng.choice(pool)
        opts = {}
        if rng.random() < 0.2:
            opts["quote"] = "all"
        if rng.random() < 0.2:
            opts["eol"] = rng.choice(["\r\n", "\r"])
        if rng.random() < 0.1:
            opts["last_eol"] = False
        cases.add(fam, "valid table, %d cells replaced #%d" % (nmut, t), emit(g, **opts))
    # random grids
    for t in range(1000 * n):
        nrows = rng.randint(0, 45)
        ncols = rng.randint(0, 5)
        g = []
        for _ in range(nrows):
            r = rng.random()
            key = rng.choice(keys) if r < 0.8 else rng.choice(["", "#c", "bogus", "NAME", " level", "name\x00", "\ufeffname", rng.choice(UNIVERSAL)])
            row = [key]
            for _ in range(rng.randint(max(0, ncols - 1), ncols + 1) if rng.random() < 0.2 else ncols):
                if key in ROWS and rng.random() < 0.7:
                    row.append(valid_cell(rng, tables, key, {}))
                else:
                    row.append(rng.choice(UNIVERSAL))
            g.append(row)
        cases.add(fam, "random grid #%d" % t, emit(g, delim=rng.choice([",", ",", ",", ";", "\t"]), eol=rng.choice(["\n", "\n", "\r\n", "\r"]),
                                                   quote=rng.choice(["minimal", "minimal", "all"])))
    # character soup
    for t in range(1500 * n):
        cases.add(fam, "soup #%d" % t, "".join(rng.choice(SOUP) for _ in range(rng.randint(0, 60))))
    # character-level damage of the seed texts
    texts = [emit(g) for _, g in seeds]
    for t in range(1500 * n):
        s = rng.choice(texts)
        for _ in range(rng.choice([1, 1, 2, 4])):
            p = rng.randrange(len(s) + 1)
            op = rng.randrange(5)
            if op == 0:
                s = s[:p] + s[p + 1:]
            elif op == 1:
                s = s[:p] + rng.choice(SOUP) + s[p:]
            elif op == 2:
                s = s[:p] + rng.choice(SOUP) + s[p + 1:]
            elif op == 3:
                q = min(len(s), p + rng.randint(1, 80))
                s = s[:q] + s[p:q] + s[q:]
            else:
                s = s[:p] if rng.random() < 0.5 else s[p:]
        cases.add(fam, "damaged seed #%d" % t, s)


FAMILIES = collections.OrderedDict([
    ("cell", (gen_cell_mutations,
              "cell-by-cell mutation: every data cell of each single-column table cut from the sample files / built-in seed "
              "is replaced by each of ~%d fixed values (empty, 'default' in several cases, malformed and huge numbers, unicode digits, "
              "booleans spelled many ways, quantisation-matrix strings, embedded newline/CR/NUL/quote), enum rows additionally by every member "
              "name, every member value, wrong-case/truncated/qualified names and out-of-range numbers; cells of the multi-column sample files; "
              "cells, keys and comments of 131071..200000 characters in 2 columns x 2 rows (quick) / every column x 3 rows (thorough)" % len(UNIVERSAL))),
    ("paired", (gen_paired,
                "paired mutation: lossless spelling x picture_bytes value (incl. missing row); dwt_depth x dwt_depth_ho (0..3 quick, 0..5/0..4 thorough) x "
                "quantisation matrix with need-3..need+3 values, negative values, odd separators, one malformed entry; huge depths; "
                "every base video format with all 'default' cells")),
    ("structural", (gen_structural,
                    "structural mutation of each sample file and the built-in seed (thorough: also of each of their single columns): a fixed list of tiny/degenerate texts (empty, header only, "
                    "quotes, bare CR, NUL, BOM, 131073-character fields, 140000-character quoted run); per data row: delete, duplicate, duplicate "
                    "with other values, blank/comment/upper-case/pad/BOM/NUL the key, ragged rows, move, raw malformed cell (open quote, stray quote, "
                    "bare CR, NUL); unknown rows; row order; names (equal, equal after strip, colliding with default names, blank, odd characters); "
                    "columns deleted/duplicated/inserted/x30 (x750 thorough); all-quoted; 10 line terminators; 8 delimiters; padding with 9 kinds of "
                    "white space; BOM; file repeated beyond 131072 characters with and without an unclosed quote")),
    ("random", (gen_random,
                "seeded random (VERIF_SEED): tables valid by construction from the documented domains with 0..3 cells replaced; random grids over "
                "documented/undocumented keys with random dialect; strings of <= 60 tokens over a 21-token CSV alphabet; 1..4 character-level "
                "edits of the sample texts (1500/1000/1500/1500 quick, x12 thorough)")),
])


def generate(tier, seed):
    _cfmod, tables = _load_target()
    seeds, notes = load_seed_grids()
    cases = Cases()
    for fam, (fn, _words) in FAMILIES.items():
        fn(cases, tables, seeds, tier, random.Random("c28-%s-%s" % (fam, seed)))
    return cases, seeds, notes


# =====================================================================================================
# the hook
# =====================================================================================================

def _pack_text(text):
    d = {"length": len(text), "sha256": hashlib.sha256(text.encode("utf-8", "surrogatepass")).hexdigest()}
    if len(text) <= 4000:
        d["csv_text"] = text
    else:
        d["csv_text_head"] = text[:200]
        d["csv_text_zlib_b64"] = base64.b64encode(zlib.compress(text.encode("utf-8", "surrogatepass"), 9)).decode("ascii")
    return d


def _unpack_text(inputs):
    if "csv_text" in inputs:
        return inputs["csv_text"]
    return zlib.decompress(base64.b64decode(inputs["csv_text_zlib_b64"])).decode("utf-8", "surrogatepass")


_ITEMS = []


def _worker_range(ab):
    cfmod, tables = _load_target()
    return [(i, run_case(_ITEMS[i][2], _ITEMS[i][3], cfmod, tables)) for i in range(ab[0], ab[1])]


def execute(items, nproc=None):
    """Runs every case on the real code; returns the list of outcomes in case order.  Worker processes are
    forked after generation and inherit the case list; only index ranges and outcomes cross the pipes."""
    global _ITEMS
    if nproc is None:
        nproc = max(1, min(8, os.cpu_count() or 1))
    _ITEMS = items
    out = [None] * len(items)
    ranges = [(k, min(k + 250, len(items))) for k in range(0, len(items), 250)]
    try:
        if nproc == 1 or len(items) < 60000:
            for ab in ranges:
                for i, r in _worker_range(ab):
                    out[i] = r
        else:
            ctx = multiprocessing.get_context("fork")
            with ctx.Pool(nproc) as pool:
                for res in pool.imap_unordered(_worker_range, ranges):
                    for i, r in res:
                        out[i] = r
    finally:
        _ITEMS = []
    return out


def check_c28(rep, tier, seed):
    t0 = time.time()
    _load_target()
    cases, seeds, notes = generate(tier, seed)
    items = cases.items
    outcomes = execute(items)
    if any(o is None for o in outcomes):
        raise RuntimeError("C28: %d cases were not executed" % sum(o is None for o in outcomes))

    stats = collections.OrderedDict((f, dict(n=0, texts=set(), ok=0, ok_nonempty=0, icfe=0, known=0, new=0, samples=[])) for f in FAMILIES)
    failing = {}  # sig -> list of (len, idx)
    for idx, ((fam, label, text, mode), (kind, detail)) in enumerate(zip(items, outcomes)):
        st = stats[fam]
        st["n"] += 1
        st["texts"].add(hash(text))
        if kind == "ok":
            st["ok"] += 1
            st["ok_nonempty"] += 1 if detail else 0
        elif kind == "icfe":
            st["icfe"] += 1
        else:
            st["known" if detail.get("known_key") else "new"] += 1
            failing.setdefault(detail["sig"], []).append((len(text), idx))
        if len(st["samples"]) < 3 and (st["n"] % 97 == 1):
            st["samples"].append("%s [%s] -> %s" % (label, mode, {"ok": "returned %s configuration(s), in domain" % detail, "icfe": "InvalidCodecFeaturesError"}.get(kind, "FAILS")))

    # report failing cases: per signature the 3 shortest inputs (a replay file each unless a known finding explains them)
    n_reported = 0
    for sig in sorted(failing):
        lst = sorted(failing[sig])
        for rank, (_ln, idx) in enumerate(lst[:3]):
            fam, label, text, mode = items[idx]
            detail = outcomes[idx][1]
            inputs = _pack_text(text)
            inputs["presented_as"] = mode
            inputs["presented_as_words"] = MODE_WORDS[mode]
            payload = {
                "what": ("read_codec_features_csv raised %s instead of InvalidCodecFeaturesError" % detail["exception"]) if detail["kind"] == "exception"
                        else "read_codec_features_csv returned a value outside the documented domains",
                "case": label,
                "family": fam,
                "inputs": inputs,
                "expected": detail["expected"],
                "observed": detail["observed"],
                "detail": {k: v for k, v in detail.items() if k not in ("expected", "observed", "sig", "known_key")},
                "failing_cases_with_this_signature": len(lst),
                "signature": sig,
                "replay_cmd": "cd /verif && .venv/bin/python -m bounded.c28_codec_features_csv <this file>",
            }
            if detail.get("known_key"):
                payload["known_key"] = detail["known_key"]
            safe = "".join(c if c.isalnum() else "_" for c in sig)[:70]
            rep.violation("c28-%s-%d" % (safe, rank), payload)
            n_reported += 1

    total_ok = sum(s["ok"] for s in stats.values())
    total_nonempty = sum(s["ok_nonempty"] for s in stats.values())
    for fam, (fn, words) in FAMILIES.items():
        st = stats[fam]
        rep.add_bounded(
            "C28 %s: read_codec_features_csv on mutated/random CSV text -> in-domain result or InvalidCodecFeaturesError" % fam,
            domain=words + "; tier=%s, seed=%s; texts containing a carriage return are presented three ways (StringIO newline='\\n', '', None), others once" % (tier, seed),
            evaluations=st["n"],
            exhaustive=False,
            distinct=len(st["texts"]),
            samples=st["samples"],
            note="outcomes: %d returned in-domain (%d with at least one configuration), %d InvalidCodecFeaturesError, %d failing explained by known finding D6, %d other failing"
                 % (st["ok"], st["ok_nonempty"], st["icfe"], st["known"], st["new"]),
        )
    rep.extra_coverage["c28"] = {
        "seed_tables": [s[0] for s in seeds],
        "seed_notes": notes,
        "cases_generated_before_deduplication": cases.generated,
        "cases_executed": len(items),
        "returned_in_domain": total_ok,
        "returned_with_at_least_one_configuration": total_nonempty,
        "invalid_codec_features_error": sum(s["icfe"] for s in stats.values()),
        "failing_explained_by_D6_predicate": sum(s["known"] for s in stats.values()),
        "failing_other": sum(s["new"] for s in stats.values()),
        "failing_signatures": {sig: len(v) for sig, v in sorted(failing.items())},
        "csv_field_size_limit": csv.field_size_limit(),
        "check_seconds": round(time.time() - t0, 2),
    }
    if total_nonempty == 0:
        rep.extra_assumptions.append(
            "C28 WARNING: no generated text was accepted with at least one configuration in this run, so the domain clauses were "
            "exercised on no value (only the exception clause was sampled)")


ASSUMPTIONS = [
    "C28 is a BOUNDED, SAMPLED stand-in: the claim 'never raises anything else' (and the domain clause) is only sampled on the generated "
    "texts listed under bounded_checks, not proved; 'any CSV text' is not covered",
    "C28: the text is presented as io.StringIO (newline='\\n'; for texts containing '\\r' additionally newline='' and newline=None); other "
    "iterables of lines, bytes input and undecodable files are not sampled; csv.field_size_limit() is the interpreter default (131072)",
    "C28: the domain oracle is written from the CodecFeatures docstring and docs/source/user_guide/generating_test_cases.rst; integer minimums "
    "(depths, offsets, clean area, fragment_slice_count >= 0; slice counts, frame size, rates, ratios, excursions, picture_bytes >= 1) are the "
    "checker author's reading of those documents; enumerations are those of the installed vc2_data_tables package (trusted); quantisation-matrix "
    "entries are only required to be integers (the guide says 'integers'; their sign is not checked); 'unique names' is checked as: every "
    "returned name equals its key and the number of configurations equals the number of non-empty columns (counted with the standard csv reader, "
    "blank/'#' keys ignored, cells stripped); whether a *valid* table is accepted, and whether returned values equal what the table says, is not "
    "part of C28 and not checked",
    "C28 known-finding predicate D6: a failing case is attributed to the known finding only if the escaping exception is exactly csv.Error, the "
    "standard library's csv.reader run independently over the same lines raises csv.Error with the identical message, and the innermost Python "
    "frame is in codec_features.py; trusted: CPython's csv module",
    "C28: termination/time of read_codec_features_csv is not checked (a hang would stall the check, not be reported)",
]

REGISTER = {
    PID: dict(
        extra=[check_c28],
        level="other",
        assumptions=ASSUMPTIONS,
        manifest=dict(
            category="other",
            technique="bounded stand-in: mutation-based and seeded random input generation over the shipped sample CSV files, real "
                      "read_codec_features_csv executed on every text, post-condition oracle written from the documentation; known finding D6 "
                      "recognised by an explained-by predicate (independent csv.reader run reproduces the escaping csv.Error)",
            text="For each generated CSV text (quick: ~37 thousand, thorough: ~250 thousand evaluations; cell-by-cell, paired, structural and random "
                 "mutations of the sample codec-feature files) read_codec_features_csv either returns configurations inside the documented "
                 "domains (enum members, integer minimums, picture_bytes exactly for lossy, quantisation matrix shape for the returned depths, "
                 "names unique and equal to their keys, one configuration per non-empty column, exactly the documented fields) or raises InvalidCodecFeaturesError.",
            note="Sampled, not proved. On the unchanged tree csv.Error escapes for a bare carriage return inside an unquoted field "
                 "(newline='\\n' presentation) and for fields longer than csv.field_size_limit() (any presentation, also through the CLI): known finding D6.",
        ),
    ),
}


# =====================================================================================================
# replay:  python -m bounded.c28_codec_features_csv /verif/replays/C28-....json
# =====================================================================================================

def _replay(path):
    with open(path) as f:
        p = json.load(f)
    text = _unpack_text(p["inputs"])
    mode = p["inputs"].get("presented_as", "nl")
    kind, detail = run_case(text, mode)
    print("case: %s" % p.get("case"))
    print("text: %d characters, presented as %s" % (len(text), MODE_WORDS[mode]))
    if kind == "fail":
        print("FAILS: %s" % detail["observed"])
        if detail.get("known_key"):
            print("explained by known finding %s" % detail["known_key"])
        return 1
    print("passes now: %s" % ("returned in-domain" if kind == "ok" else "InvalidCodecFeaturesError"))
    return 0


if __name__ == "__main__":
    sys.path.insert(0, os.path.dirname(os.path.dirname(os.path.abspath(__file__))))
    sys.exit(_replay(sys.argv[1]))
