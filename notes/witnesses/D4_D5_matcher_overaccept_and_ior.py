from vc2_conformance.symbol_re import Matcher
m=Matcher("(a* | b*)")
print([m.match_symbol(s) for s in "ab"], m.is_complete())
m=Matcher("(a b)* | c")
print([m.match_symbol(s) for s in ["a","b","c"]], m.is_complete())
from vc2_conformance.level_constraints import LEVEL_SEQUENCE_RESTRICTIONS
for k,v in LEVEL_SEQUENCE_RESTRICTIONS.items(): print(int(k), v.sequence_restriction_regex)
from vc2_conformance.pseudocode.state import State
s=State(); 
try:
    s |= {"bogus":1}; print("ior accepted", dict(s))
except Exception as e: print("ior", type(e).__name__)
try:
    s2=State.fromkeys(["bogus2"]); print("fromkeys", dict(s2))
except Exception as e: print("fromkeys", type(e).__name__)
