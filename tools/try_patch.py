#!/usr/bin/env python3
"""try_patch.py <patch.diff> <PID> [<PID> ...] : applies a patch to a scratch git worktree of /repo (HEAD), runs the quick checks of
the given properties against it (VERIF_REPO; evidence and replays go to a scratch VERIF_OUT), prints exit code and verdict lines,
removes the worktree.  Never touches /repo, /verif/evidence or /verif/seeded."""
import os, shutil, subprocess, sys, tempfile, time
VERIF = os.path.dirname(os.path.dirname(os.path.abspath(__file__)))
patch = os.path.abspath(sys.argv[1])
pids = sys.argv[2:]
wt = tempfile.mkdtemp(prefix="verif-pwt-", dir="/var/tmp"); os.rmdir(wt)
out = tempfile.mkdtemp(prefix="verif-pout-", dir="/var/tmp")
try:
    subprocess.run(["git", "-C", "/repo", "worktree", "add", "--detach", wt, "HEAD"], check=True, capture_output=True)
    a = subprocess.run(["git", "apply", patch], cwd=wt, capture_output=True, text=True)
    if a.returncode:
        sys.exit("patch does not apply: " + a.stderr[:300])
    for pid in pids:
        t0 = time.time()
        r = subprocess.run([os.path.join(VERIF, "verif"), "check", pid, "--tier", "quick"], cwd=VERIF, capture_output=True, text=True,
                           env=dict(os.environ, VERIF_REPO=wt, VERIF_OUT=out))
        lines = [l for l in (r.stdout + r.stderr).split("\n") if l.startswith(("VIOLATION", "UNPROVED", "CHECKER-ERROR", "KNOWN-FINDING", "HELD", "  obligation"))]
        print("%s exit=%d (%.0fs)" % (pid, r.returncode, time.time() - t0))
        for l in lines[:8]:
            print("    " + l[:260])
finally:
    subprocess.run(["git", "-C", "/repo", "worktree", "remove", "--force", wt], capture_output=True)
    shutil.rmtree(wt, ignore_errors=True)
    if "--keep-out" not in sys.argv:
        shutil.rmtree(out, ignore_errors=True)
