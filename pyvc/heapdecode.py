"""Decoding of heap objects from a z3 model into JSON-able descriptions (for replay)."""
import z3

from .api import REG


def _ev(model, t):
    return model.eval(t, model_completion=True)


def _arr(unit, name):
    fs = unit.ctx.field_sorts.get(name)
    return fs[1] if fs else None


def _int(model, t):
    v = _ev(model, t)
    return v.as_long() if z3.is_int_value(v) else 0


def decode_field(model, unit, ref, key, depth):
    t = REG.fields.get(key, "int")
    va = _arr(unit, "val_" + key)
    if va is None:
        return None
    if t == "bool":
        return z3.is_true(_ev(model, va[ref]))
    if t == "optint":
        na = _arr(unit, "none_" + key)
        if na is not None and z3.is_true(_ev(model, na[ref])):
            return None
        return _int(model, va[ref])
    if t.startswith("ref:"):
        from .symexec import SV

        r = _ev(model, va[ref])
        return decode_ref(model, SV("ref", r, t[4:]), unit, depth + 1)
    return _int(model, va[ref])


def decode_ref(model, sv, unit, depth=0):
    kind = sv.x or ""
    ref = sv.z
    if depth > 4:
        return {"__kind__": "opaque"}
    la = _arr(unit, "len")
    ea = _arr(unit, "elem")
    if kind == "file" or kind.startswith("list") or kind == "bytearray":
        n = _int(model, la[ref]) if la is not None else 0
        n = max(0, min(n, 64))
        data = [(_int(model, ea[ref][i]) if ea is not None else 0) for i in range(n)]
        if kind == "file":
            pa = _arr(unit, "val_fpos")
            return {"__kind__": "file", "data": [d % 256 for d in data], "pos": _int(model, pa[ref]) if pa is not None else 0}
        return {"__kind__": "list", "data": data}
    if kind.startswith("dict"):
        out = {"__kind__": kind, "keys": {}}
        for name in list(unit.ctx.field_sorts):
            if name.startswith("has_"):
                key = name[4:]
                if z3.is_true(_ev(model, _arr(unit, name)[ref])):
                    out["keys"][key] = decode_field(model, unit, ref, key, depth)
        return out
    if kind.startswith("obj:"):
        out = {"__kind__": kind, "attrs": {}}
        for name in list(unit.ctx.field_sorts):
            if name.startswith("val_"):
                key = name[4:]
                if key.startswith("_") and not key.startswith("__"):
                    out["attrs"][key] = decode_field(model, unit, ref, key, depth)
        return out
    return {"__kind__": "opaque"}
